"""C01 — merging shards = one metric that saw everything.
(D) random merge-tree programs on every registered class: real merge tree vs a real
single instance fed the live batches (oracle), and vs the Lean class model (`prog`)."""
from __future__ import annotations
import time
from ..common import Rng, Report, budget, ckey
from ..registry import SPECS, Spec, fresh_cfg, public_cfg, new_metric, finding_class
from ..engine import observe, same_obs, obs_json, fed
from ..progs import Prog, run_real, model_results, compare_with_model

LEVEL = "proof"
RULE = ("random merge-tree programs (≤5 shards incl. empty ones, fresh/updated targets, flat / sequential / pairwise / "
        "fresh-then-more / source-merged-twice / update-after-merge) over grid-valued batches for every registered class "
        "and configuration; non-trivial = distinct program with ≥2 non-empty shards")
MODELLED = ["float32 rounding of sums (grid values keep them exact)", "device moves (.to) in merge_state"]
ASSUMPTIONS = ["windowed classes are exercised by C13's window-pooling check, not here",
               "Throughput is compared with its documented spec: total count over the slowest shard's elapsed time"]

SHAPES = ["flat-fresh", "flat-into-0", "sequential", "pairwise", "fresh-then-more", "reuse", "update-after"]


def gen_prog(rng: Rng, spec: Spec, cfg: dict, max_batches: int):
    p = Prog(spec, cfg)
    k = rng.randint(1, 5)
    m = rng.randint(0, max_batches)
    owners = [rng.randrange(k) for _ in range(m)]
    if k > 1 and rng.random() < 0.5:
        dead = rng.randrange(k)          # force an empty shard
        owners = [o if o != dead else (dead + 1) % k for o in owners]
    tiny = rng.random() < 0.35
    if tiny:
        # boundary layout: every shard holds at most ONE update of the smallest batch size (single-sample shards
        # beside empty ones) — where "nothing to contribute yet" shortcuts in merge_state would drop data
        owners = [o for o in range(k) if rng.random() < 0.8][:max_batches]
    for o in owners:
        p.u(o, spec.gen(rng, cfg, min(spec.sizes) if tiny else rng.choice(spec.sizes)))
    shape = rng.choice(SHAPES)
    ids = list(range(k))
    root = 0
    if shape == "flat-fresh":
        root = k
        p.m(root, ids)
    elif shape == "flat-into-0":
        p.m(0, ids[1:])
    elif shape == "sequential":
        for j in ids[1:]:
            p.m(0, [j])
    elif shape == "pairwise":
        live = ids
        while len(live) > 1:
            nxt = []
            for a in range(0, len(live) - 1, 2):
                p.m(live[a], [live[a + 1]])
                nxt.append(live[a])
            if len(live) % 2:
                nxt.append(live[-1])
            live = nxt
        root = live[0]
    elif shape == "fresh-then-more":
        root = k
        cut = rng.randint(0, k)
        p.m(root, ids[:cut])
        p.m(root, ids[cut:])
    elif shape == "reuse":
        p.m(0, ids[1:])
        if k > 1:
            p.m(0, [ids[-1]])
    elif shape == "update-after":
        root = k
        p.m(root, ids)
        p.u(root, spec.gen(rng, cfg, rng.choice(spec.sizes)))
        p.u(0, spec.gen(rng, cfg, rng.choice(spec.sizes)))   # later update of a source must not leak
    p.o(root)
    if rng.random() < 0.2:
        # float64 program: every batch in float64 and off the float32 grid (registry.f64_variant). States whose dtype
        # follows the data must carry it through merge_state: the comparison below then runs at float64 precision,
        # so a merge that rounds incoming float64 state to the target's float32 shows
        from ..registry import f64_variant
        p.ops = [(op[0], op[1], f64_variant(op[2])) if op[0] == "u" else op for op in p.ops]
        p.flat = {k: [f64_variant(b) for b in v] for k, v in p.flat.items()}
        p.f64 = True
    nonempty = len({o for o in owners})
    return p, root, shape, nonempty


def tol_of(p) -> float:
    """comparison tolerance of a program: the class's float32 tolerance, or float64 precision for float64 programs of
    classes whose tolerance is the default one (classes with a wider declared tolerance keep it)."""
    if getattr(p, "f64", False) and p.spec.tol <= 1e-5:
        return 1e-11
    return p.spec.tol


def throughput_spec(p: Prog, root):
    """documented deviation: counts add, elapsed = own elapsed joined by max with merged sources."""
    st = {}
    def g(i):
        return st.setdefault(i, [0.0, 0.0])
    for op in p.ops:
        if op[0] == "u":
            s = g(op[1]); s[0] += op[2].args[0]; s[1] += op[2].args[1]
        elif op[0] == "m":
            s = g(op[1])
            for j in op[2]:
                t = g(j); s[0] += t[0]; s[1] = max(s[1], t[1])
    return g(root)


def oracle_check(rep: Report, p: Prog, root, shape, real_out):
    """real merge tree vs real single instance fed the live batches. returns violation dict or None."""
    spec = p.spec
    if spec.kind == "window":
        return None
    flat = p.flat[root]
    if spec.kind == "throughput":
        import torch
        c, e = throughput_spec(p, root)
        if e == 0:
            return None
        exp = ("ok", [torch.tensor(c / e, dtype=torch.float64)])
        ok = same_obs(real_out, exp, 1e-9, shape=False)
        return None if ok else {"expected": c / e, "expected_by": "total count / slowest shard's elapsed"}
    try:
        single = fed(spec, p.cfg, flat)
    except Exception as e:  # noqa: BLE001
        return {"expected": f"single instance raised {e!r}", "expected_by": "single instance fed the live batches"}
    exp = observe(single)
    if not same_obs(real_out, exp, tol_of(p)):
        return {"expected": obs_json(exp), "expected_by": "single instance fed the live batches in merge order"}
    ordered_cfg = spec.name == "AUC" and p.cfg.get("reorder") is False
    if spec.kind in ("multiset", "minmax") and len(flat) > 1 and not ordered_cfg:
        rng = Rng(len(flat))
        sh = list(flat); rng.shuffle(sh)
        exp2 = observe(fed(spec, p.cfg, sh))
        if not same_obs(real_out, exp2, tol_of(p)):
            return {"expected": obs_json(exp2), "expected_by": "single instance fed the live batches in another order"}
    return None


def verdict(rep, p: Prog, root, shape, res):
    """the property's oracle on one merge program and its real per-op results `res` (= run_real(p)):
    None when the property holds, else (signature, what, replay dict).  Used by the sweep and by replay()."""
    spec = p.spec
    errs = [r for op, r in zip(p.ops, res) if op[0] in ("u", "m") and r is not None]
    if errs:
        return (f"C01|{spec.name}|{shape}|operation-raised", f"{spec.name}: {errs[0]} during a valid merge program",
                {"program": p.describe(), "root": root, "shape": shape, "error": errs[0]})
    real_out = res[-1]
    bad = oracle_check(rep, p, root, shape, real_out)
    if bad:
        return (f"C01|{spec.name}{finding_class(spec, p.cfg)}|merged-differs-from-single",
                f"{spec.name}{public_cfg(p.cfg)}: merge tree ({shape}) gives {obs_json(real_out)} but {bad['expected_by']} gives {bad['expected']}",
                {"program": p.describe(), "root": root, "shape": shape, "f64": bool(getattr(p, "f64", False)), "merged": obs_json(real_out), **bad})
    return None


def one_round(rep: Report, rng: Rng, spec: Spec, cfg0: dict, n: int, max_batches: int):
    progs, meta = [], []
    for _ in range(n):
        cfg = fresh_cfg(cfg0)
        p, root, shape, nonempty = gen_prog(rng, spec, cfg, max_batches)
        progs.append(p); meta.append((root, shape, nonempty))
    reals = [run_real(p) for p in progs]
    models = None
    if spec.model:
        models, lines = model_results(progs)
    for idx, (p, (root, shape, nonempty), res) in enumerate(zip(progs, meta, reals)):
        rep.count(f"shape:{shape}"); rep.count(f"class:{spec.name}")
        rep.count(f"nonempty-shards:{min(nonempty,4)}")
        key = (spec.name, repr(public_cfg(p.cfg)), shape, ckey(p.describe())) if nonempty >= 2 else None
        rep.case(nontrivial_key=key, sample=p.describe() if (rep.evaluations % 997 == 0) else None)
        v = verdict(rep, p, root, shape, res)
        if v is not None:
            if v[0].endswith("|operation-raised"):
                rep.count("op-raised")
            rep.violation(*v)
            continue
        if models is not None:
            rep.traces += 1
            d = compare_with_model(p, res, models[idx], spec.tol)
            if d:
                rep.broke(f"correspondence:class-model:{spec.name}", f"model and implementation disagree at op {d[0]}: {d[1]}",
                          {"program": p.describe(), "driver_line": lines[idx], "model": models[idx]})


# (T) harness/translators/plumbing.py → lean/TE/Gen/Plumbing.lean; theorems in lean/TE/Props/C01_Plumb.lean.
from ..translators import plumbing as plumbing_tr  # noqa: E402

TRUSTED_EXTRA = ["harness/translators/plumbing.py (symbolic execution of the AST of update / merge_state / compute of every class; its "
                 "operator table: `+`/`+=`/`.add_()` = add, torch.max/maximum/max of two = max, torch.min/minimum/min of two = min, "
                 ".to/.clone/.detach = identity, list.append, torch.zeros_like(x) reads only the shape of x; recognised control "
                 "flow: the scalar->vector adoption test `self.G.ndim == 0 and X.ndim == 1`, `for i in range(self.<n>)` row loops, "
                 "`self.d = self.a - self.b`, a constructor flag as row mode, one joint combine method (Chan/Welford template), "
                 "per-query top-k lists (get_topk + gather template)) producing lean/TE/Gen/Plumbing.lean; cross-checked against "
                 "the real merge_state / update on every run (plumbing:*-crosscheck counters)"]
_PLUMB_ROWS = []


def translate(rep: Report):
    _PLUMB_ROWS[:] = plumbing_tr.generate(rep)


def run(rep: Report):
    plumbing_tr.crosscheck(rep, _PLUMB_ROWS or plumbing_tr.facts(), Rng(rep.seed * 7 + 3))
    rng = Rng(rep.seed * 1000003 + 1)
    per = 12 if rep.tier == "quick" else 120
    maxb = 6 if rep.tier == "quick" else 14
    deadline = time.time() + budget(rep.tier, 70, 900)
    for spec in SPECS:
        if spec.kind == "window":
            continue
        for cfg0 in spec.configs:
            if time.time() > deadline:
                rep.notes.append("budget exhausted before all classes were visited")
                return
            one_round(rep, rng, spec, cfg0, per, maxb)


def search(rep: Report):
    rng = Rng(rep.seed * 31 + 101)
    deadline = time.time() + 120
    for spec in SPECS:
        if spec.kind == "window":
            continue
        for cfg0 in spec.configs:
            if time.time() > deadline or rep.violations:
                return
            one_round(rep, rng, spec, cfg0, 40, 14)


def replay(payload) -> bool:
    """True iff the property holds on the recorded merge program: the program is rebuilt from its description, run on the
    real classes and judged by `verdict` (the oracle of the sweep: a real single instance fed the live batches)."""
    if payload.get("kind", "failing-input") != "failing-input" or not (payload.get("replay") or {}).get("program"):
        raise ValueError(f"nothing to replay: payload kind {payload.get('kind')!r} carries no merge program")
    rp = payload["replay"]
    p = Prog.from_describe(rp["program"])
    p.f64 = bool(rp.get("f64", False))          # float64 programs are compared at float64 precision (tol_of)
    if not p.ops or p.ops[-1][0] != "o":
        raise ValueError("nothing to replay: the recorded program does not end with a compute()")
    root = rp.get("root", p.ops[-1][1])
    v = verdict(None, p, root, rp.get("shape", "?"), run_real(p))
    if v is not None:
        print(f"replay: {v[0]}: {v[1]}"[:600])
    return v is None
