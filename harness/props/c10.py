"""C10 — reset() returns a metric to the behaviour of a freshly constructed one.
(T) every plain attribute written after construction must be re-initialised by reset()
(regenerated into lean/TE/Gen/States.lean, decided there). (D) real vs real: any history,
reset (or toolkit.reset_metrics), then a shared continuation on the reset object and on a
fresh one, long enough to wrap windows twice."""
from __future__ import annotations
import time
from ..common import Rng, Report, budget, ckey
from ..registry import SPECS, Spec, fresh_cfg, public_cfg, new_metric
from ..engine import observe, same_obs, obs_json, snapshot, snap_equal
from ..hist import random_ops, apply_op, describe_ops, same_step
from torcheval.metrics.toolkit import reset_metrics

LEVEL = "proof"
RULE = ("random history (updates, merges with fresh sources, computes, earlier resets) → reset → shared continuation of ≥ 2·window+3 "
        "operations on the reset object and on a fresh instance, compared after every step (compute value/error, state_dict bitwise at the "
        "end); every registry class and configuration; non-trivial = history with ≥ 1 successful update before the reset")
MODELLED = ["device placement after .to()"]
ASSUMPTIONS = []
EXTRA_LEAN_MODULES = ()
TRUSTED_EXTRA = ["harness/translators/states.py (AST + runtime attribute diff) producing lean/TE/Gen/States.lean"]


def translate(rep: Report):
    from ..translators import states
    states.generate(rep)


def one(rep: Report, rng: Rng, spec: Spec, cfg0: dict):
    cfg = fresh_cfg(cfg0)
    win = cfg.get("max_num_updates") or cfg.get("max_num_samples") or 0
    pre = random_ops(rng, spec, cfg, rng.randint(0, 8 if not win else 2 * win + 2))
    cont = random_ops(rng, spec, cfg, rng.randint(3, 6) if not win else 2 * win + 3, allow_reset=False)
    a = new_metric(spec, cfg)
    nupd = 0
    for op in pre:
        r = apply_op(a, op, spec, cfg)
        if op[0] == "u" and r[1] is None:
            nupd += 1
    if rng.random() < 0.5:
        a.reset()
    else:
        reset_metrics([a])
    f = new_metric(spec, cfg)
    rep.count(f"class:{spec.name}")
    rep.case(nontrivial_key=(spec.name, repr(public_cfg(cfg)), ckey(pre), ckey(cont)) if nupd else None,
             sample={"class": spec.name, "cfg": public_cfg(cfg), "before_reset": len(pre), "continuation": len(cont)} if rep.evaluations % 401 == 0 else None)
    steps = [("o",)] + cont + [("o",)]
    for k, op in enumerate(steps):
        ra, rf = apply_op(a, op, spec, cfg), apply_op(f, op, spec, cfg)
        if not same_step(ra, rf, spec.tol):
            rep.violation(f"C10|{spec.name}|reset-differs-from-fresh",
                          f"{spec.name}{public_cfg(cfg)}: step {k} after reset gives {ra if ra[0] != 'o' else obs_json(ra[1])}, fresh instance gives {rf if rf[0] != 'o' else obs_json(rf[1])}",
                          {"class": spec.name, "cfg": public_cfg(cfg), "before_reset": describe_ops(pre), "continuation": describe_ops(steps[:k + 1])})
            return
    if not snap_equal(snapshot(a), snapshot(f)):
        rep.violation(f"C10|{spec.name}|state-after-reset-differs-from-fresh",
                      f"{spec.name}{public_cfg(cfg)}: state_dict() after reset+continuation differs from a fresh instance's",
                      {"class": spec.name, "cfg": public_cfg(cfg), "before_reset": describe_ops(pre), "continuation": describe_ops(steps)})


def sweep(rep, rng, reps, deadline):
    for spec in SPECS:
        for cfg0 in spec.configs:
            for _ in range(reps):
                if time.time() > deadline:
                    rep.notes.append("budget exhausted"); return
                one(rep, rng, spec, cfg0)


def run(rep: Report):
    sweep(rep, Rng(rep.seed * 1000003 + 10), 6 if rep.tier == "quick" else 60, time.time() + budget(rep.tier, 60, 800))


def search(rep: Report):
    sweep(rep, Rng(rep.seed * 11 + 1010), 25, time.time() + 120)
