"""C10 — reset() returns a metric to the behaviour of a freshly constructed one.
(T) every plain attribute written after construction must be re-initialised by reset()
(regenerated into lean/TE/Gen/States.lean, decided there). (D) real vs real: any history,
reset (or toolkit.reset_metrics), then a shared continuation on the reset object and on a
fresh one, long enough to wrap windows twice."""
from __future__ import annotations
import time
from ..common import Rng, Report, budget, ckey
from ..registry import SPECS, Spec, fresh_cfg, public_cfg, new_metric
from ..engine import observe, same_obs, obs_json, snapshot, snap_equal
from ..hist import f64_ops, random_ops, apply_op, describe_ops, same_step
from torcheval.metrics.toolkit import reset_metrics

LEVEL = "proof"
RULE = ("random history (updates, merges with fresh sources, computes, earlier resets) → reset → shared continuation of ≥ 2·window+3 "
        "operations on the reset object and on a fresh instance, compared after every step (compute value/error, state_dict bitwise at the "
        "end); every registry class and configuration; non-trivial = history with ≥ 1 successful update before the reset")
MODELLED = ["device placement after .to()"]
ASSUMPTIONS = []
EXTRA_LEAN_MODULES = ()
TRUSTED_EXTRA = ["harness/translators/states.py (AST + runtime attribute diff) producing lean/TE/Gen/States.lean"]


def translate(rep: Report):
    from ..translators import states
    states.generate(rep)


RESET_HOW = ["reset", "reset_metrics"]


def examine(spec: Spec, cfg: dict, pre, cont, reset_how: str):
    """the property's oracle on one case: `pre` on a new instance, reset (`reset_how`: the method or toolkit.reset_metrics),
    then compute / `cont` / compute on the reset object and on a fresh one, step by step, and state_dict() at the end.
    None when the property holds, else (signature, what, replay dict).  Used by the sweep and by replay()."""
    return _examine(spec, cfg, pre, cont, reset_how)[0]


def _examine(spec: Spec, cfg: dict, pre, cont, reset_how: str):
    """(verdict, number of successful updates before the reset)."""
    a = new_metric(spec, cfg)
    nupd = 0
    for op in pre:
        r = apply_op(a, op, spec, cfg)
        if op[0] == "u" and r[1] is None:
            nupd += 1
    if reset_how == "reset":
        a.reset()
    else:
        reset_metrics([a])
    f = new_metric(spec, cfg)

    def bad(sig, what, **extra):
        return (sig, what, {"class": spec.name, "cfg": public_cfg(cfg), "reset_how": reset_how, "before_reset": describe_ops(pre),
                            "continuation": describe_ops(cont), **extra}), nupd
    steps = [("o",)] + cont + [("o",)]
    for k, op in enumerate(steps):
        ra, rf = apply_op(a, op, spec, cfg), apply_op(f, op, spec, cfg)
        if not same_step(ra, rf, spec.tol):
            return bad(f"C10|{spec.name}|reset-differs-from-fresh",
                       f"{spec.name}{public_cfg(cfg)}: step {k} after reset gives {ra if ra[0] != 'o' else obs_json(ra[1])}, fresh instance gives {rf if rf[0] != 'o' else obs_json(rf[1])}",
                       check="steps", failed_step=k, steps=describe_ops(steps[:k + 1]))
    if not snap_equal(snapshot(a), snapshot(f)):
        return bad(f"C10|{spec.name}|state-after-reset-differs-from-fresh",
                   f"{spec.name}{public_cfg(cfg)}: state_dict() after reset+continuation differs from a fresh instance's",
                   check="state_dict")
    return None, nupd


def one(rep: Report, rng: Rng, spec: Spec, cfg0: dict):
    cfg = fresh_cfg(cfg0)
    win = cfg.get("max_num_updates") or cfg.get("max_num_samples") or 0
    pre = random_ops(rng, spec, cfg, rng.randint(0, 8 if not win else 2 * win + 2))
    cont = random_ops(rng, spec, cfg, rng.randint(3, 6) if not win else 2 * win + 3, allow_reset=False)
    # dtype variants: whatever dtype the history before the reset left in the states must not leak through reset()
    dmode = rng.choice(["f32", "f32", "f64-before-reset", "f64"])
    rep.count(f"dtype-mode:{dmode}")
    if dmode != "f32":
        pre = f64_ops(pre)
        if dmode == "f64":
            cont = f64_ops(cont, salt=2)
    reset_how = RESET_HOW[0] if rng.random() < 0.5 else RESET_HOW[1]
    v, nupd = _examine(spec, cfg, pre, cont, reset_how)
    rep.count(f"class:{spec.name}")
    rep.case(nontrivial_key=(spec.name, repr(public_cfg(cfg)), ckey(pre), ckey(cont)) if nupd else None,
             sample={"class": spec.name, "cfg": public_cfg(cfg), "before_reset": len(pre), "continuation": len(cont)} if rep.evaluations % 401 == 0 else None)
    if v is not None:
        rep.violation(*v)


def sweep(rep, rng, reps, deadline):
    for spec in SPECS:
        for cfg0 in spec.configs:
            for _ in range(reps):
                if time.time() > deadline:
                    rep.notes.append("budget exhausted"); return
                one(rep, rng, spec, cfg0)


def run(rep: Report):
    sweep(rep, Rng(rep.seed * 1000003 + 10), 18 if rep.tier == "quick" else 60, time.time() + budget(rep.tier, 60, 800))


def search(rep: Report):
    sweep(rep, Rng(rep.seed * 11 + 1010), 25, time.time() + 120)


# ------------------------------------------------------------------ replay

def ops_from_describe(lst):
    """inverse of hist.describe_ops (also after a JSON round trip)."""
    from ..registry import Batch
    out = []
    for op in lst:
        if op[0] == "u":
            out.append(("u", Batch.from_describe(op[1])))
        elif op[0] == "m":
            out.append(("m", [[Batch.from_describe(b) for b in bl] for bl in op[1]]))
        else:
            out.append((op[0],))
    return out


def replay(payload) -> bool:
    """True iff the property holds on the recorded case: the operations before the reset, the way of resetting and the
    continuation are rebuilt and judged by `examine` (the sweep's oracle: the reset object against a fresh instance)."""
    rp = payload.get("replay") or {}
    if payload.get("kind", "failing-input") != "failing-input" or not {"class", "cfg", "before_reset", "continuation"} <= set(rp):
        raise ValueError(f"nothing to replay: payload kind {payload.get('kind')!r} carries no case (class, cfg, before_reset, continuation)")
    from ..registry import BY_NAME
    spec = BY_NAME[rp["class"]]
    pre, cont = ops_from_describe(rp["before_reset"]), ops_from_describe(rp["continuation"])
    # payloads written before `reset_how` was recorded: the continuation held the compared steps (leading compute included)
    hows = [rp["reset_how"]] if rp.get("reset_how") in RESET_HOW else RESET_HOW
    if "reset_how" not in rp and cont and cont[0] == ("o",):
        cont = cont[1:]
    ok = True
    for h in hows:
        v = examine(spec, dict(rp["cfg"]), pre, cont, h)
        if v is not None:
            print(f"replay: ({h}) {v[0]}: {v[1]}"[:600])
            ok = False
    return ok
