"""C06 — binned metrics = exhaustive per-threshold counting; 'vectorized' and 'memory' agree;
binned AUROC/AUPRC with thresholds starting at 0 = exact AUROC/AUPRC of the scores rounded down
to the nearest threshold.

Correspondence (every case): real functional vs the Lean model through the driver vs an independent
Python `Fraction` oracle that counts per threshold.  Relations on the real code alone: vectorized vs
memory (bitwise), binned AUROC/AUPRC vs the real un-binned `binary_auroc` / `*_auprc` on floored scores.
Class forms are run as update/merge/compute programs against the Lean class models.
`_create_threshold_tensor` glue (int -> linspace, list, tensor) is checked on the real code directly."""
from __future__ import annotations
import itertools, math, time
from fractions import Fraction as Fr
import torch
from ..common import (G5, Rng, Report, call_real, dec_out, enc_args, ft, it, outcomes_agree, run_driver, budget)
import torcheval.metrics.functional as F
from torcheval.metrics.functional.tensor_utils import _create_threshold_tensor

LEVEL = "proof"
RULE = ("thresholds: every sorted sub-list-with-repeats of {0,1/4,1/2,3/4,1} of length <= 4 (as list and as tensor), the integer "
        "counts {1,2,3,4,5,7}, invalid ones (unsorted, outside [0,1], empty); scores on the same grid (so they sit exactly on, "
        "below the first and above the last threshold) plus 1/8-offsets, -1/4 and 5/4 in the random part; all 0/1 label sets; "
        "both optimisation modes; n <= 3 exhaustive for the binary curve (quick: n <= 2 exhaustive + 60 inputs of size 3 per threshold list), random n up to 128; "
        "class-extra stream: float64 scores a hair below thresholds, caller-owned threshold tensors, bfloat16/float16 scores around float32 "
        "thresholds their dtype cannot represent (all six binary binned forms, the multiclass / multilabel binned PR curves as functional and class in both modes, vs per-threshold counting on the exact values); "
        "non-trivial = distinct (function, parameters, input) with at least one sample and one threshold")
MODELLED = ["IEEE rounding of the final float32/float64 divisions and of the Riemann/trapezoid sums (compared with tolerance 2e-5 / 1e-9)",
            "torch.linspace float32 values are taken from torch and passed to the model as exact rationals"]
ASSUMPTIONS = ["targets are integers >= 0 (0/1 for binary and multilabel, class indices < num_classes for multiclass)",
               "1-D threshold tensors; the relation 'vectorized = memory' is checked for non-empty threshold tensors "
               "(on an empty tensor the memory form raises from histc(bins=0) while the vectorized form returns the (1,0) point only)",
               "class programs use non-empty batches"]

KNOWN_SIG = "C06|multiclass_binned_auroc|per-sample-output"
NAN = math.nan
GRID_X = [Fr(-1, 4), Fr(0), Fr(1, 8), Fr(1, 4), Fr(3, 8), Fr(1, 2), Fr(5, 8), Fr(3, 4), Fr(7, 8), Fr(1), Fr(5, 4)]

# ------------------------------------------------------------------ thresholds


def thr_tensor(thr) -> torch.Tensor:
    """exactly what `_create_threshold_tensor` builds on this torch (values sent to the model as rationals)."""
    if isinstance(thr, int):
        return torch.linspace(0, 1.0, thr)
    if isinstance(thr, list):
        return torch.tensor(thr)
    return thr


def thr_fracs(thr) -> list[Fr]:
    return [Fr(v) for v in thr_tensor(thr).tolist()]


def sorted_multisets(maxlen=4):
    for k in range(1, maxlen + 1):
        for c in itertools.combinations_with_replacement(G5, k):
            yield [float(v) for v in c]


ALL_THR = list(sorted_multisets())
INT_THR = [1, 2, 3, 4, 5, 7]
BAD_THR = [[0.5, 0.25], [0.0, 1.25], [-0.25, 0.5], [], [0.25, 0.5, 0.25]]


def thr_variants(rng: Rng, lists, k):
    """k thresholds out of `lists`, randomly presented as python list or tensor."""
    for l in (lists if k is None else [rng.choice(lists) for _ in range(k)]):
        yield (l if rng.random() < 0.5 else torch.tensor(l))

# ------------------------------------------------------------------ independent oracle (Fractions)


def counts(xs, ys, u):
    tp = sum(1 for x, y in zip(xs, ys) if y == 1 and x >= u)
    fp = sum(1 for x, y in zip(xs, ys) if y == 0 and x >= u)
    fn = sum(1 for x, y in zip(xs, ys) if y == 1 and x < u)
    return tp, fp, fn


def o_curve(xs, ys, t):
    p, r = [], []
    for u in t:
        tp, fp, fn = counts(xs, ys, u)
        p.append(Fr(tp, tp + fp) if tp + fp else Fr(1))
        r.append(Fr(tp, tp + fn) if tp + fn else NAN)
    return p + [Fr(1)], r + [Fr(0)]


def o_binned_auprc(xs, ys, t):
    p, r = o_curve(xs, ys, t)
    if any(isinstance(v, float) for v in r):
        return Fr(0)
    return -sum((r[k + 1] - r[k]) * p[k] for k in range(len(r) - 1))


def o_binned_auroc(xs, ys, t):
    cs = [counts(xs, ys, u) for u in reversed(t)]
    tp = [0] + [c[0] for c in cs]
    fp = [0] + [c[1] for c in cs]
    factor = tp[-1] * fp[-1]
    if factor == 0:
        return Fr(1, 2)
    return sum(Fr((fp[k + 1] - fp[k]) * (tp[k] + tp[k + 1]), 2) for k in range(len(tp) - 1)) / factor


def floor_to(t, x):
    c = [u for u in t if u <= x]
    return max(c) if c else None


def o_exact_auroc(fs, ys):
    pos = [f for f, y in zip(fs, ys) if y == 1]
    neg = [f for f, y in zip(fs, ys) if y == 0]
    if not pos or not neg:
        return Fr(1, 2)
    s = sum((Fr(1) if a > b else Fr(1, 2) if a == b else Fr(0)) for a in pos for b in neg)
    return s / (len(pos) * len(neg))


def o_exact_auprc(fs, ys):
    pos = [f for f, y in zip(fs, ys) if y == 1]
    if not pos:
        return Fr(0)
    tot = Fr(0)
    for a in pos:
        tp, fp, _ = counts(fs, ys, a)
        tot += Fr(tp, tp + fp)
    return tot / len(pos)


def problems(fn, kw):
    inp, tgt = kw["input"], kw["target"]
    if fn.startswith("binary"):
        if inp.ndim == 1:
            return [([Fr(v) for v in inp.tolist()], tgt.tolist())]
        rows = list(zip(inp.tolist(), tgt.tolist()))
        if kw.get("num_tasks", 1) == 1:
            rows = rows[:1]
        return [([Fr(v) for v in r], y) for r, y in rows]
    rows = inp.tolist()
    S = inp.shape[1]
    if fn.startswith("multiclass"):
        labs = tgt.tolist()
        return [([Fr(r[c]) for r in rows], [1 if l == c else 0 for l in labs]) for c in range(S)]
    tg = tgt.tolist()
    return [([Fr(r[c]) for r in rows], [q[c] for q in tg]) for c in range(S)]


def valid_thr(t, need01=False):
    if any(b < a for a, b in zip(t, t[1:])) or any(u < 0 or u > 1 for u in t):
        return False
    if need01 and (not t or t[0] != 0 or t[-1] != 1):
        return False
    return True


def oracle(fn: str, kw: dict, floored=False):
    """expected output tensors (flat lists of Fraction / nan) from per-threshold counting, or None (not covered /
    the call is expected to be rejected). `floored=True`: the exact AUROC / AUPRC of the scores rounded down."""
    t = thr_fracs(kw["threshold"])
    kind = fn.split("_binned_")[1]
    if not valid_thr(t, need01=(kind == "auprc")):
        return None
    if not t and not (kind == "auroc" and fn.startswith("binary")):
        return None
    if "optimization" in kw and kw["optimization"] not in ("vectorized", "memory"):
        return None
    if kw.get("average", "macro") not in ("macro", "none", None):
        return None
    if fn == "multiclass_binned_auroc" and not floored:
        return None     # the code's own output is not a per-threshold-counting quantity of the classes (known finding)
    if fn == "binary_binned_auprc" and kw.get("num_tasks", 1) == 1 and kw["input"].ndim == 2 and kw["input"].shape[0] != 1:
        return None     # (rows, n) with num_tasks=1 and rows != 1 is rejected (it used to be scored on row 0 only: fixed in /repo)
    probs = problems(fn, kw)
    if kind == "precision_recall_curve":
        cs = [o_curve(xs, ys, t) for xs, ys in probs]
        return [c[0] for c in cs] + [c[1] for c in cs] + [t]
    if floored:
        fl = []
        for xs, ys in probs:
            fs = [floor_to(t, x) for x in xs]
            if any(f is None for f in fs):
                return None
            fl.append((fs, ys))
        vals = [(o_exact_auroc if kind == "auroc" else o_exact_auprc)(fs, ys) for fs, ys in fl]
    else:
        vals = [(o_binned_auroc if kind == "auroc" else o_binned_auprc)(xs, ys, t) for xs, ys in probs]
    if not fn.startswith("binary") and kw.get("average", "macro") == "macro":
        vals = [sum(vals) / len(vals)]
    return [vals, t]


def flat_real(real):
    return [t.reshape(-1).to(torch.float64).tolist() for t in real[1]]


def lists_close(got, exp, tol=2e-5) -> bool:
    if len(got) != len(exp):
        return False
    for g, e in zip(got, exp):
        if len(g) != len(e):
            return False
        for a, b in zip(g, e):
            b = float(b)
            if math.isnan(b) != math.isnan(a):
                return False
            if not math.isnan(b) and abs(a - b) > tol * max(1.0, abs(b)):
                return False
    return True


def oracle_agrees(real, exp):
    if exp is None:
        return None
    if real[0] != "ok":
        return False
    return lists_close(flat_real(real), exp)

# ------------------------------------------------------------------ calling


def real_call(fn, kw):
    kw = dict(kw)
    a = [kw.pop("input"), kw.pop("target")]
    return call_real(getattr(F, fn), *a, **kw)


def model_line(fn, kw, prefix=""):
    m = dict(kw)
    m["threshold"] = thr_tensor(kw["threshold"])
    return f"fn {prefix}{fn} " + enc_args(m)


def kw_json(fn, kw):
    out = {"fn": fn}
    for k, v in kw.items():
        if isinstance(v, torch.Tensor):
            out[k] = v.tolist()
            out[k + ".shape"] = list(v.shape)
            out[k + ".dtype"] = str(v.dtype).replace("torch.", "")
        else:
            out[k] = v
    return out


def kw_from_json(c):
    kw = {}
    for k, v in c.items():
        if k == "fn" or k.endswith(".shape") or k.endswith(".dtype"):
            continue
        if k + ".shape" in c:
            kw[k] = torch.tensor(v, dtype=getattr(torch, c[k + ".dtype"])).reshape(c[k + ".shape"])
        else:
            kw[k] = v
    return c["fn"], kw


def sig(fn, kw, rel):
    cfgs = [str(kw[k]) for k in ("optimization", "average", "num_tasks") if k in kw]
    thr = kw["threshold"]
    cfgs.append("int-threshold" if isinstance(thr, int) else "list-threshold" if isinstance(thr, list) else "tensor-threshold")
    return f"C06|{fn}|{','.join(cfgs)}|{rel}"

# ------------------------------------------------------------------ relations on the real code alone


def same_outputs(a, b) -> bool:
    if a[0] != b[0]:
        return False
    if a[0] == "err":
        return True
    if len(a[1]) != len(b[1]):
        return False
    for x, y in zip(a[1], b[1]):
        if x.shape != y.shape or not torch.equal(torch.nan_to_num(x.double(), nan=-7.0), torch.nan_to_num(y.double(), nan=-7.0)):
            return False
    return True


def other_mode(kw):
    k = dict(kw)
    k["optimization"] = "memory" if kw.get("optimization", "vectorized") == "vectorized" else "vectorized"
    return k


def floored_exact_real(fn, kw):
    """second oracle for the floor statement: the real un-binned functionals on floored scores (None: n/a)."""
    t = thr_fracs(kw["threshold"])
    kind = fn.split("_binned_")[1]
    if kind not in ("auroc", "auprc") or fn == "multiclass_binned_auroc" or not t or t[0] != 0:
        return None
    if not valid_thr(t, need01=(kind == "auprc")):
        return None
    inp, tgt = kw["input"], kw["target"]
    if inp.numel() == 0 or (inp < 0).any():
        return None
    tt = thr_tensor(kw["threshold"])
    idx = torch.searchsorted(tt, inp.contiguous(), right=True) - 1
    fl = tt[idx]
    if fn.startswith("binary"):
        if inp.ndim == 2 and kw.get("num_tasks", 1) == 1:
            fl, tgt = fl[0], tgt[0]
        nt = 1 if fl.ndim == 1 else kw.get("num_tasks", 1)
        f = F.binary_auroc if kind == "auroc" else F.binary_auprc
        return call_real(f, fl, tgt, num_tasks=nt)
    if fn.startswith("multiclass"):
        return call_real(F.multiclass_auprc, fl, tgt, num_classes=inp.shape[1], average=kw.get("average", "macro"))
    return call_real(F.multilabel_auprc, fl, tgt, num_labels=inp.shape[1], average=kw.get("average", "macro"))

# ------------------------------------------------------------------ case generation


def labels01(rng, n):
    r = rng.random()
    if r < 0.1:
        return [0] * n
    if r < 0.2:
        return [1] * n
    return [rng.choice([0, 1]) for _ in range(n)]


def binary_cases(rng: Rng, tier):
    full = tier == "thorough"
    # exhaustive: every threshold multiset x every input of size n on G5 x every label set
    for n in (1, 2, 3):
        inputs = [(xs, ys) for xs in itertools.product(G5, repeat=n) for ys in itertools.product([0, 1], repeat=n)]
        for thr in ALL_THR:
            if n == 3 and not full:
                chosen = [rng.choice(inputs) for _ in range(60)]
            else:
                chosen = inputs
            for xs, ys in chosen:
                th = thr if rng.random() < 0.5 else torch.tensor(thr)
                yield "binary_binned_precision_recall_curve", {"input": ft(xs), "target": it(ys), "threshold": th}, ("exh", n)
    # AUROC / AUPRC on the same space (sampled), thresholds starting at 0 favoured
    t0 = [t for t in ALL_THR if t[0] == 0.0]
    t01 = [t for t in t0 if t[-1] == 1.0]
    reps = 40000 if full else 3000
    for _ in range(reps):
        n = rng.choice([1, 2, 3, 3, 4, 5])
        xs, ys = rng.grid(n), labels01(rng, n)
        r = rng.random()
        if r < 0.45:
            thr = rng.choice(t0) if rng.random() < 0.7 else rng.choice(ALL_THR)
            yield "binary_binned_auroc", {"input": ft(xs), "target": it(ys), "threshold": thr if rng.random() < 0.5 else torch.tensor(thr)}, ("exh-s", n)
        elif r < 0.9:
            thr = rng.choice(t01) if rng.random() < 0.85 else rng.choice(ALL_THR)
            yield "binary_binned_auprc", {"input": ft(xs), "target": it(ys), "threshold": thr if rng.random() < 0.5 else torch.tensor(thr)}, ("exh-s", n)
        else:
            thr = rng.choice(INT_THR)
            fn = rng.choice(["binary_binned_precision_recall_curve", "binary_binned_auroc", "binary_binned_auprc"])
            yield fn, {"input": ft(xs), "target": it(ys), "threshold": thr}, ("int", n)
    # random, larger, off-grid / out-of-range scores, multi-task, invalid thresholds, empty batches
    reps = 5000 if full else 1000
    for _ in range(reps):
        n = rng.choice([0, 1, 2, 5, 8, 17, 64, 128])
        fn = rng.choice(["binary_binned_precision_recall_curve", "binary_binned_auroc", "binary_binned_auprc"])
        r = rng.random()
        if r < 0.12:
            thr = rng.choice(BAD_THR)
        elif r < 0.3:
            thr = rng.choice(INT_THR + [0, 9, 33])
        else:
            thr = rng.choice(t01 if (fn.endswith("auprc") and rng.random() < 0.8) else ALL_THR)
            thr = thr if rng.random() < 0.5 else torch.tensor(thr)
        grid = GRID_X if rng.random() < 0.5 else G5
        kw = {"threshold": thr}
        tasks = rng.choice([1, 1, 2, 3]) if not fn.endswith("curve") else 1
        if tasks > 1 or (fn.endswith("auprc") and rng.random() < 0.15):
            rows = tasks if tasks > 1 else rng.choice([1, 2])
            kw["input"] = ft(rng.grid(rows * n, grid), shape=(rows, n))
            kw["target"] = it([v for _ in range(rows) for v in labels01(rng, n)], shape=(rows, n))
            kw["num_tasks"] = tasks
        else:
            kw["input"] = ft(rng.grid(n, grid))
            kw["target"] = it(labels01(rng, n))
        yield fn, {"input": kw.pop("input"), "target": kw.pop("target"), **kw}, ("rnd", n)


def multi_cases(rng: Rng, tier):
    full = tier == "thorough"
    t01 = [t for t in ALL_THR if t[0] == 0.0 and t[-1] == 1.0]
    # exhaustive tiny: n = 1..2, C = 2, every threshold multiset of length <= 2 (full: <= 4), both modes
    small_thr = [t for t in ALL_THR if len(t) <= (4 if full else 2)]
    L3 = [Fr(0), Fr(1, 2), Fr(1)]
    for n in ((1, 2) if full else (1,)):
        for xs in itertools.product(L3, repeat=2 * n):
            for labs in itertools.product([0, 1], repeat=n):
                thr = rng.choice(small_thr)
                for opt in ("vectorized", "memory"):
                    yield "multiclass_binned_precision_recall_curve", {"input": ft(xs, shape=(n, 2)), "target": it(labs), "num_classes": 2,
                                                                       "threshold": thr, "optimization": opt}, ("exh-mc", n)
            for tg in itertools.product([0, 1], repeat=2 * n):
                thr = rng.choice(small_thr)
                for opt in ("vectorized", "memory"):
                    yield "multilabel_binned_precision_recall_curve", {"input": ft(xs, shape=(n, 2)), "target": it(tg, shape=(n, 2)), "num_labels": 2,
                                                                       "threshold": thr, "optimization": opt}, ("exh-ml", n)
    reps = 40000 if full else 2500
    for _ in range(reps):
        n = rng.choice([1, 2, 3, 4, 9, 33, 128]) if rng.random() < 0.95 else 0
        S = rng.choice([2, 3, 4])
        grid = GRID_X if rng.random() < 0.3 else G5
        x = ft(rng.grid(n * S, grid), shape=(n, S))
        fn = rng.choice(["multiclass_binned_precision_recall_curve", "multilabel_binned_precision_recall_curve",
                         "multiclass_binned_auprc", "multilabel_binned_auprc", "multiclass_binned_auroc"])
        r = rng.random()
        if r < 0.08:
            thr = rng.choice(BAD_THR)
        elif r < 0.25:
            thr = rng.choice(INT_THR)
        else:
            thr = rng.choice(t01 if (fn.endswith("auprc") and rng.random() < 0.85) else ALL_THR)
            thr = thr if rng.random() < 0.5 else torch.tensor(thr)
        kw = {"input": x}
        if fn.startswith("multiclass"):
            present = rng.sample(range(S), rng.randint(1, S))
            kw["target"] = it([rng.choice(present) for _ in range(n)])
            if rng.random() < 0.85 or fn.endswith("auroc"):
                kw["num_classes"] = S
        else:
            kw["target"] = it([v for _ in range(S) for v in labels01(rng, n)], shape=(S, n)).T.contiguous()
            if rng.random() < 0.3:
                # label masks arrive as bool / uint8 / int32 in practice: counts must not be held in the label dtype
                kw["target"] = kw["target"].to(rng.choice([torch.bool, torch.uint8, torch.int32]))
            if rng.random() < 0.85:
                kw["num_labels"] = S
        kw["threshold"] = thr
        if not fn.endswith("auroc"):
            kw["optimization"] = rng.choice(["vectorized", "memory"]) if rng.random() < 0.97 else "fast"
        if not fn.endswith("curve"):
            kw["average"] = rng.choice(["macro", None, "none"]) if rng.random() < 0.97 else "micro"
        yield fn, kw, ("rnd-multi", n)


def wide_cases(rng: Rng, tier):
    """many classes / labels × many thresholds: the flattened histogram key space 2·T·C of the multiclass / multilabel kernels passes
    2^13 … 2^15 (61 or 99 classes × 100 thresholds, 41 × 200) — index arithmetic that is exact for a handful of classes must stay exact
    here; both optimisation modes, judged by per-threshold counting and against each other."""
    plans = [(61, 100), (99, 100), (41, 200)] if tier == "thorough" else [rng.choice([(61, 100), (99, 100)]), (41, 200)]
    for S, T in plans:
        n = 48
        fine = [Fr(k, 128) for k in range(129)]       # 129 distinct scores: every threshold bucket of every class is used
        x = ft(rng.grid(n * S, fine), shape=(n, S))
        for fn in ("multiclass_binned_precision_recall_curve", "multilabel_binned_precision_recall_curve", "multiclass_binned_auprc", "multilabel_binned_auprc"):
            kw = {"input": x}
            if fn.startswith("multiclass"):
                kw["target"] = it([rng.randrange(S) for _ in range(n)]); kw["num_classes"] = S
            else:
                kw["target"] = it([rng.choice([0, 1]) for _ in range(n * S)], shape=(n, S)); kw["num_labels"] = S
            kw["threshold"] = T
            kw["optimization"] = rng.choice(["vectorized", "memory"])
            if not fn.endswith("curve"):
                kw["average"] = rng.choice(["macro", None])
            yield fn, kw, ("wide", S)


def _brute_counts(score: torch.Tensor, onehot: torch.Tensor, thr: torch.Tensor):
    """per-threshold counting with torch comparisons on the very float32 values the kernels see (scores k/128 and the
    threshold tensor): (num_tp, num_fp, num_fn) of shape (classes, thresholds)"""
    pred = score.unsqueeze(-1) >= thr                      # (n, C, T)
    pos = (onehot == 1).unsqueeze(-1)
    return (pred & pos).sum(0), (pred & ~pos).sum(0), (~pred & pos).sum(0)


def wide_verdict(fn, kw):
    """the C06 statement on a wide case (real code only; these shapes are too large for the rational model and oracle):
    curve = per-threshold counting, vectorized = memory.  None | (signature, what, extra)"""
    real = real_call(fn, kw)
    if real[0] != "ok":
        return (sig(fn, kw, "raises-on-a-valid-wide-input"), f"{fn} raised {real[1]} on {kw['input'].shape} scores, threshold={kw['threshold']}", {"relation": "wide"})
    other = real_call(fn, other_mode(kw))
    if not same_outputs(real, other):
        return (sig(fn, kw, "vectorized-differs-from-memory"),
                f"{fn}: optimization={kw['optimization']} and the other mode differ on {tuple(kw['input'].shape)} scores, threshold={kw['threshold']}", {"relation": "modes"})
    if fn.endswith("curve"):
        S = kw["input"].shape[1]
        onehot = torch.nn.functional.one_hot(kw["target"], S) if fn.startswith("multiclass") else kw["target"]
        thr = thr_tensor(kw["threshold"])
        tp, fp, fn_ = _brute_counts(kw["input"], onehot, thr)
        prec = torch.nan_to_num(tp / (tp + fp), nan=1.0)
        rec = tp / (tp + fn_)
        prec = torch.cat([prec, torch.ones(S, 1)], 1); rec = torch.cat([rec, torch.zeros(S, 1)], 1)
        # outputs arrive flattened by call_real: precision list (S tensors), recall list (S tensors), thresholds
        flat = list(real[1])
        P = torch.stack(flat[:S]) if len(flat) >= 2 * S else None
        R = torch.stack(flat[S:2 * S]) if len(flat) >= 2 * S else None
        if P is not None and (not torch.allclose(P, prec, rtol=0, atol=1e-6, equal_nan=True) or not torch.allclose(R, rec, rtol=0, atol=1e-6, equal_nan=True)):
            nb = int((~torch.isclose(P, prec, rtol=0, atol=1e-6, equal_nan=True)).sum() + (~torch.isclose(R, rec, rtol=0, atol=1e-6, equal_nan=True)).sum())
            return (sig(fn, kw, "differs-from-per-threshold-counting"), f"{fn} on {tuple(kw['input'].shape)} scores, threshold={kw['threshold']}: {nb} curve entries differ from per-threshold counting", {"relation": "counting-wide"})
    return None


def check_wide(rep: Report, rng: Rng):
    for fn, kw, tag in wide_cases(rng, rep.tier):
        rep.case(nontrivial_key=("wide", fn, tag[1], kw["threshold"], kw["optimization"]))
        rep.count(f"size:wide:{tag[1]}x{kw['threshold']}")
        v = wide_verdict(fn, kw)
        if v is not None:
            rep.violation(v[0], v[1], {"kind": "functional", "case": kw_json(fn, kw), **v[2]})


def all_cases(rng, tier):
    yield from binary_cases(rng, tier)
    yield from multi_cases(rng, tier)

# ------------------------------------------------------------------ the known finding (Lean witness, replayed on the real code)

WITNESS = {"input": [[0.25, 0.5, 0.25], [0.0, 0.25, 0.75], [0.75, 0.25, 0.0], [0.25, 0.5, 0.25]], "target": [1, 2, 0, 0],
           "num_classes": 3, "threshold": [0.0, 0.25, 0.5, 0.75, 1.0], "average": None}


def witness_kw():
    return {"input": torch.tensor(WITNESS["input"]), "target": torch.tensor(WITNESS["target"]), "num_classes": 3,
            "threshold": list(WITNESS["threshold"]), "average": None}


def outs_json(o):
    return o[1] if o[0] == "err" else [x.tolist() for x in o[1]]


def floored_verdict(fn, kw, real):
    """`multiclass_binned_auroc` against the per-class one-vs-rest binned AUROC (= exact AUROC of the floored scores):
    None or (signature, what, extra).  Judges the Lean witness input and a replay of it."""
    exp = oracle(fn, kw, floored=True)
    if oracle_agrees(real, exp) is not False:
        return None
    got = real[1][0].tolist() if real[0] == "ok" else real[1]
    return (KNOWN_SIG,
            f"multiclass_binned_auroc({kw['input'].shape[0]} samples, {kw['input'].shape[1]} classes, average={kw.get('average', 'macro')}) returns {got} (one value per sample: "
            f"_multiclass_binned_auroc_compute reduces over dim=-1 = classes) where the per-class one-vs-rest binned AUROC is "
            f"{[str(v) for v in exp[0]]}", {"kind": "witness", "case": kw_json(fn, kw), "floored": True, "real": got, "textbook": [str(v) for v in exp[0]]})


def check_known_finding(rep: Report):
    """`multiclass_binned_auroc` returns one value per sample (reduction over the class axis) instead of the
    per-class one-vs-rest binned AUROC. Replayed on the witness input of TE.C06.multiclass_binned_auroc_witness."""
    kw = witness_kw()
    real = real_call("multiclass_binned_auroc", kw)
    rep.case(nontrivial_key=("witness", "multiclass_binned_auroc"))
    v = floored_verdict("multiclass_binned_auroc", kw, real)
    if v is not None:
        rep.violation(*v)

# ------------------------------------------------------------------ the run


def statement_verdict(fn, kw, real, count=lambda key: None):
    """the C06 statement on the real code alone (no model), in the order of the sweep:
      (1) per-threshold counting oracle, (2) vectorized = memory (bitwise), (3) binned AUROC / AUPRC = the exact value on
      floored scores (Fractions, then the real un-binned functional), (K) the recorded finding of multiclass_binned_auroc.
    returns (None | (signature, what, extra replay fields), agrees-with-counting-oracle)."""
    kind = fn.split("_binned_")[1]
    t = thr_fracs(kw["threshold"])
    realj = outs_json(real)
    exp = oracle(fn, kw)
    agrees = oracle_agrees(real, exp)
    if agrees is False:
        return (sig(fn, kw, "differs-from-per-threshold-counting"),
                f"{fn} returns {realj} where per-threshold counting gives {[[str(v) for v in l] for l in exp]}",
                {"relation": "counting", "textbook": [[str(v) for v in l] for l in exp]}), agrees
    if "optimization" in kw and kw["optimization"] in ("vectorized", "memory") and t:
        other = real_call(fn, other_mode(kw))
        count("modes-compared")
        if not same_outputs(real, other):
            return (sig(fn, kw, "vectorized-differs-from-memory"),
                    f"{fn}: optimization={kw['optimization']} gives {realj}, the other mode gives {outs_json(other)}", {"relation": "modes"}), agrees
    if kind in ("auroc", "auprc") and fn != "multiclass_binned_auroc" and real[0] == "ok":
        expf = oracle(fn, kw, floored=True)
        if expf is not None and t and t[0] == 0:
            count("floor-compared")
            if not lists_close(flat_real(real), expf, 2e-5):
                return (sig(fn, kw, "differs-from-exact-on-floored-scores"),
                        f"{fn} returns {realj[0]} where the exact value on floored scores is {[str(v) for v in expf[0]]}",
                        {"relation": "floor", "floored": True, "textbook": [[str(v) for v in l] for l in expf]}), agrees
            second = floored_exact_real(fn, kw)
            if second is not None and second[0] == "ok":
                count("floor-compared-real-unbinned")
                a = real[1][0].reshape(-1).to(torch.float64).tolist()
                b = second[1][0].reshape(-1).to(torch.float64).tolist()
                if not lists_close([a], [b], 2e-5):
                    return (sig(fn, kw, "differs-from-unbinned-functional-on-floored-scores"),
                            f"{fn} returns {a} where the un-binned functional on floored scores returns {b}", {"relation": "floor-real", "unbinned": b}), agrees
    if fn == "multiclass_binned_auroc" and real[0] == "ok":
        expf = oracle(fn, kw, floored=True)
        if expf is not None and t and t[0] == 0 and not lists_close(flat_real(real), expf, 2e-5):
            count("known-finding-instances")
            return (KNOWN_SIG, f"multiclass_binned_auroc returns {realj[0]} (per sample) where the per-class one-vs-rest "
                    f"binned AUROC is {[str(v) for v in expf[0]]}", {"relation": "per-class", "floored": True, "textbook": [[str(v) for v in l] for l in expf]}), agrees
    return None, agrees


def check_cases(rep: Report, cases, stream: str, deadline: float):
    cases = list(cases)
    lines = [model_line(fn, kw) for fn, kw, _ in cases]
    outs = run_driver(lines)
    nbad = 0
    for (fn, kw, tag), line, o in zip(cases, lines, outs):
        if time.time() > deadline:
            rep.notes.append(f"{stream}: time budget reached")
            break
        real = real_call(fn, kw)
        model = dec_out(o)
        kind = fn.split("_binned_")[1]
        rep.count(fn)
        rep.count(f"size:{tag[0]}")
        thr = kw["threshold"]
        rep.count("thr:" + ("int" if isinstance(thr, int) else "list" if isinstance(thr, list) else "tensor"))
        if real[0] == "err":
            rep.count(f"err:{real[1]}")
        t = thr_fracs(thr)
        xsflat = [Fr(v) for v in kw["input"].reshape(-1).tolist()]
        if t and xsflat:
            if any(x in t for x in xsflat):
                rep.count("score-on-threshold")
            if any(x < t[0] for x in xsflat):
                rep.count("score-below-first")
            if any(x > t[-1] for x in xsflat):
                rep.count("score-above-last")
            if len(set(t)) < len(t):
                rep.count("duplicate-thresholds")
        nontriv = bool(t) and bool(xsflat)
        rep.case(nontrivial_key=(fn, repr(kw_json(fn, kw))) if nontriv else None,
                 sample={"request": line, "model": o} if rep.evaluations % 4001 == 0 else None)
        replay = {"kind": "functional", "case": kw_json(fn, kw), "real": outs_json(real), "model": o}
        # (1)-(3) the property on the real code (the same function decides search() and replay())
        v, agrees = statement_verdict(fn, kw, real, rep.count)
        if v is not None:
            rep.violation(v[0], v[1], {**replay, **v[2]})
            if v[0] != KNOWN_SIG:
                continue
        # (4) model vs real
        msg = outcomes_agree(real, model)
        if msg is None:
            continue
        nbad += 1
        rep.broke(f"correspondence:{stream}:{fn}", f"model and implementation disagree ({msg}); per-threshold counting oracle "
                  + ("agrees with the implementation" if agrees else "does not cover this case"), {**replay, "mismatch": msg})
        if nbad > 25:
            break
    rep.streams[stream] = {"cases": len(cases), "disagreements": nbad}


def check_spec_oracles(rep: Report, rng: Rng, nreq: int):
    """the Lean `spec.*` definitions (what the theorems are about) vs the Python oracle."""
    cases = []
    t01 = [t for t in ALL_THR if t[0] == 0.0 and t[-1] == 1.0]
    for _ in range(nreq):
        n = rng.choice([1, 2, 3, 6])
        S = rng.choice([2, 3])
        fn = rng.choice(["binary_binned_precision_recall_curve", "multiclass_binned_precision_recall_curve", "multilabel_binned_precision_recall_curve",
                         "binary_binned_auroc", "multiclass_binned_auroc", "binary_binned_auprc", "multiclass_binned_auprc", "multilabel_binned_auprc"])
        curve = fn.endswith("curve")
        thr = rng.choice(ALL_THR if curve else t01)
        if fn.startswith("binary"):
            kw = {"input": ft(rng.grid(n, G5 if not curve else GRID_X)), "target": it(labels01(rng, n))}
        elif fn.startswith("multiclass"):
            kw = {"input": ft(rng.grid(n * S), shape=(n, S)), "target": it([rng.randrange(S) for _ in range(n)]), "num_classes": S}
        else:
            kw = {"input": ft(rng.grid(n * S), shape=(n, S)), "target": it([rng.choice([0, 1]) for _ in range(n * S)], shape=(n, S)), "num_labels": S}
        kw["threshold"] = thr
        if not curve and not fn.startswith("binary"):
            kw["average"] = rng.choice(["macro", None])
        cases.append((fn, kw))
    outs = run_driver([model_line(fn, kw, "spec.") for fn, kw in cases])
    bad = 0
    for (fn, kw), o in zip(cases, outs):
        exp = oracle(fn, kw, floored=not fn.endswith("curve"))
        m = dec_out(o)
        rep.count("spec-oracle-compared")
        ok = m[0] == "ok" and exp is not None and lists_close([[float(v) for v in d] for _, d in m[1]], exp, 1e-12)
        if not ok:
            bad += 1
            rep.broke(f"spec-oracle:{fn}", f"Lean spec.{fn} answers {o} where the Python oracle gives {exp}", {"case": kw_json(fn, kw), "model": o})
            if bad > 5:
                break
    rep.streams["spec-oracles"] = {"cases": len(cases), "disagreements": bad}


def glue_verdict(form: str, value):
    """`_create_threshold_tensor` on one argument: None or (signature, what).  form `int`: value n; `list` / `tensor`: the list of floats."""
    dev = torch.device("cpu")
    if form == "int":
        n = value
        t = _create_threshold_tensor(n, dev)
        v = t.tolist()
        ok = (t.ndim == 1 and len(v) == n and t.dtype == torch.float32 and all(b >= a for a, b in zip(v, v[1:]))
              and v[0] == 0.0 and (n == 1 or v[-1] == 1.0)
              and all(abs(Fr(x) - Fr(i, max(n - 1, 1))) <= Fr(1, 2 ** 23) for i, x in enumerate(v)))
        return None if ok else ("C06|_create_threshold_tensor|int|not-the-uniform-grid", f"_create_threshold_tensor({n}) = {v[:6]}…")
    l = list(value)
    if form == "list":
        t = _create_threshold_tensor(list(l), dev)
        if t.tolist() != [float(torch.tensor(x, dtype=torch.float32)) for x in l] or t.ndim != 1:
            return ("C06|_create_threshold_tensor|list|values-changed", f"_create_threshold_tensor({l}) = {t.tolist()}")
        return None
    if form == "tensor":
        tt = torch.tensor(l)
        if _create_threshold_tensor(tt, dev) is not tt:
            return ("C06|_create_threshold_tensor|tensor|not-passed-through", f"tensor threshold {l} was copied or changed")
        return None
    raise KeyError(form)


def check_threshold_glue(rep: Report):
    """`_create_threshold_tensor`: int -> linspace(0,1,n) (sorted, length n, endpoints 0 and 1, within 1 ulp of i/(n-1));
    list -> tensor of the same values; tensor -> the same object."""
    for n in list(range(1, 131)) + [200, 257, 1000]:
        rep.count("glue:int")
        rep.case(nontrivial_key=("glue", n))
        v = glue_verdict("int", n)
        if v:
            rep.violation(v[0], v[1], {"kind": "glue", "form": "int", "glue": n})
            return
    for l in ALL_THR[::7] + BAD_THR:
        rep.count("glue:list")
        for form in ("list", "tensor"):
            v = glue_verdict(form, l)
            if v:
                rep.violation(v[0], v[1], {"kind": "glue", "form": form, "glue": list(l)})
                return

# ------------------------------------------------------------------ class forms


def class_programs(rep: Report, rng: Rng, nprog: int):
    from ..registry import SPECS
    from ..progs import Prog, run_real, model_results, compare_with_model
    from ..engine import same_obs, obs_json
    by = {s.name: s for s in SPECS}
    t01 = [t for t in ALL_THR if t[0] == 0.0 and t[-1] == 1.0]
    plans = []
    for _ in range(nprog):
        name = rng.choice(["BinaryBinnedPrecisionRecallCurve", "MulticlassBinnedPrecisionRecallCurve", "MultilabelBinnedPrecisionRecallCurve",
                           "BinaryBinnedAUROC", "MulticlassBinnedAUROC", "BinaryBinnedAUPRC", "MulticlassBinnedAUPRC", "MultilabelBinnedAUPRC"])
        spec = by[name]
        if spec.model is None:
            rep.notes.append(f"class {name} is not known to the driver")
            continue
        thr = rng.choice(t01 if name.endswith("AUPRC") else ALL_THR) if rng.random() < 0.8 else rng.choice([2, 3, 5])
        cfg = {"threshold": thr}
        if name.startswith("Multiclass"):
            cfg["num_classes"] = rng.choice([2, 3])
        if name.startswith("Multilabel"):
            cfg["num_labels"] = rng.choice([2, 3])
        if name.startswith("Binary") and not name.endswith("Curve") and rng.random() < 0.4:
            cfg["num_tasks"] = 2
        if not name.startswith("Binary") and not name.endswith("AUROC"):
            cfg["optimization"] = rng.choice(["vectorized", "memory"])
        if not name.startswith("Binary") and not name.endswith("Curve"):
            cfg["average"] = rng.choice(["macro", None])
        p = Prog(spec, cfg)
        k = rng.randint(1, 3)
        wide_scores = name.startswith("Binary") and rng.random() < 0.35
        for _b in range(rng.randint(1, 4)):
            b = spec.gen(rng, cfg, rng.choice([1, 2, 3, 7]))
            if wide_scores and isinstance(b.args[0], torch.Tensor) and b.args[0].is_floating_point():
                # raw scores (logits): the same grid stretched to [-1/2, 3/2] — below the first and above the last threshold, in every task
                from ..registry import Batch as _Batch
                b = _Batch((b.args[0] * 2 - 0.5, *b.args[1:]), dict(b.kwargs))
            p.u(rng.randrange(k), b)
        if k > 1:
            p.m(0, list(range(1, k)))
        p.o(0)
        plans.append(p)
    if not plans:
        return
    models, lines = model_results(plans)
    bad = 0
    for p, mres, line in zip(plans, models, lines):
        res = run_real(p)
        rep.count(f"class:{p.spec.name}")
        rep.case(nontrivial_key=("class", line))
        rep.traces += 1
        d = compare_with_model(p, res, mres, 2e-5)
        if d:
            bad += 1
            rep.broke(f"correspondence:class-model:{p.spec.name}", f"model and implementation disagree at op {d[0]}: {d[1]}",
                      {"program": p.describe(), "driver_line": line, "model": mres})
            if bad > 10:
                break
    rep.streams["class-programs"] = {"cases": len(plans), "disagreements": bad}



# ------------------------------------------------------------------ class forms: float64 scores next to thresholds, caller-owned threshold tensors

def class_extra_verdict(kind: str, name: str, seed: int):
    """one deterministic class-form case -> None | (signature, what).
    "float64-below-threshold": float64 scores a hair (factor 1 − 2^-30) below grid thresholds — they belong to the bucket
        BELOW the threshold; a class that buffers them in the thresholds' float32 lands them ON it.  The class result must
        equal the functional on the same data and the exact metric of the floored scores.
    "lowprec-scores": bfloat16 / float16 scores around float32 thresholds that the low dtype cannot represent; every binary binned
        form (functional and class) must equal per-threshold counting on the exact values.
    "threshold-tensor-owned": the three binned PR-curve classes take a COPY of a threshold tensor; the caller refreshing its
        own tensor between updates must not move the metric's thresholds (twin built from an untouched copy)."""
    import torcheval.metrics as M
    g = torch.Generator().manual_seed(seed)
    thr = [0.0, 0.25, 0.5, 0.75, 1.0]
    first = lambda o: (o[0] if isinstance(o, (tuple, list)) else o)   # noqa: E731  (value, thresholds) or the value alone
    if kind == "float64-below-threshold":
        n = 24
        grid = torch.tensor([0.25, 0.5, 0.75, 1.0, 0.125, 0.625], dtype=torch.float64)
        x = grid[torch.randint(0, 6, (n,), generator=g)] * (1.0 - 2.0 ** -30)
        y = torch.randint(0, 2, (n,), generator=g)
        if name == "BinaryBinnedAUROC":
            m = M.BinaryBinnedAUROC(threshold=thr); m.update(x[:9], y[:9]); m.update(x[9:], y[9:])
            got = first(m.compute()).reshape(-1).double()
            ref = first(F.binary_binned_auroc(x, y, threshold=thr)).reshape(-1).double()
            exp = oracle("binary_binned_auroc", {"input": x, "target": y, "threshold": thr}, floored=True)
        elif name == "BinaryBinnedAUPRC":
            m = M.BinaryBinnedAUPRC(threshold=thr); m.update(x[:9], y[:9]); m.update(x[9:], y[9:])
            got = first(m.compute()).reshape(-1).double()
            ref = first(F.binary_binned_auprc(x, y, threshold=thr)).reshape(-1).double()
            exp = oracle("binary_binned_auprc", {"input": x, "target": y, "threshold": thr}, floored=True)
        else:
            m = M.BinaryBinnedPrecisionRecallCurve(threshold=thr); m.update(x[:9], y[:9]); m.update(x[9:], y[9:])
            out = m.compute(); got = torch.cat([out[0].reshape(-1).double(), out[1].reshape(-1).double()])
            o2 = F.binary_binned_precision_recall_curve(x, y, threshold=thr); ref = torch.cat([o2[0].reshape(-1).double(), o2[1].reshape(-1).double()])
            exp = None
        if not torch.allclose(got, ref, rtol=1e-6, atol=1e-9, equal_nan=True):
            return (f"C06|{name}|float64-scores-below-threshold|class-differs-from-functional",
                    f"{name} fed float64 scores just below thresholds gives {got.tolist()} where the functional on the same data gives {ref.tolist()}")
        if exp is not None:
            e0 = [float(v) for v in exp[0]]
            if not torch.allclose(got, torch.tensor(e0, dtype=torch.float64), rtol=1e-5, atol=1e-7, equal_nan=True):
                return (f"C06|{name}|float64-scores-below-threshold|differs-from-exact-on-floored-scores",
                        f"{name} gives {got.tolist()} where the exact metric of the scores rounded down to the thresholds is {e0}")
        return None
    if kind == "lowprec-scores":
        # bfloat16 / float16 scores against float32 thresholds that are NOT representable in the scores' dtype (0.1, 0.3, 0.7, 0.9):
        # the comparison `score >= threshold` is between the exact values (type promotion to float32), so the low-precision image of
        # a threshold lies strictly on one side of it.  Any form that rounds the thresholds to the scores' dtype (or the scores to a
        # coarser grid) moves those samples across the bucket boundary.  Expected: per-threshold counting on the exact values (float64).
        dt = (torch.bfloat16, torch.float16)[seed % 2]
        thr = [0.0, 0.1, 0.3, 0.7, 0.9, 1.0]
        t32 = torch.tensor(thr, dtype=torch.float32)
        img = t32[1:5].to(dt)                                         # the images of the inexact thresholds
        one_ulp = torch.nextafter(img.float(), torch.tensor(2.0)).to(dt)   # ≥ image (same or the next value of the low dtype)
        pool = torch.cat([img, one_ulp, torch.tensor([0.0, 0.5, 1.0, 0.2, 0.8]).to(dt)])
        n = 24
        x = pool[torch.randint(0, len(pool), (n,), generator=g)]
        y = torch.randint(0, 2, (n,), generator=g); y[0] = 1; y[1] = 0
        xd, td = x.double(), t32.double()
        pred = xd[:, None] >= td[None, :]
        pos = (y == 1)[:, None]
        tp, fp, fn_ = (pred & pos).sum(0).double(), (pred & ~pos).sum(0).double(), (~pred & pos).sum(0).double()
        prec = torch.cat([torch.nan_to_num(tp / (tp + fp), nan=1.0), torch.ones(1, dtype=torch.float64)])
        rec = torch.cat([tp / (tp + fn_), torch.zeros(1, dtype=torch.float64)])
        if name.endswith("AUROC") or name.endswith("auroc"):
            ctp = torch.cat([torch.zeros(1, dtype=torch.float64), tp.flip(0)]); cfp = torch.cat([torch.zeros(1, dtype=torch.float64), fp.flip(0)])
            factor = ctp[-1] * cfp[-1]
            exp = torch.tensor([0.5], dtype=torch.float64) if factor == 0 else (((cfp[1:] - cfp[:-1]) * (ctp[1:] + ctp[:-1]) / 2).sum() / factor).reshape(1)
        elif name.lower().endswith("auprc"):
            exp = (-((rec[1:] - rec[:-1]) * prec[:-1]).sum()).reshape(1)
        else:
            exp = torch.cat([prec, rec])
        if name[0].isupper():
            m = getattr(M, name)(threshold=thr); m.update(x[:9], y[:9]); m.update(x[9:], y[9:]); out = m.compute()
        else:
            out = getattr(F, name)(x, y, threshold=thr)
        if name.lower().endswith("curve"):
            got = torch.cat([out[0].reshape(-1).double(), out[1].reshape(-1).double()])
        else:
            got = first(out).reshape(-1).double()
        if got.shape != exp.shape or not torch.allclose(got, exp, rtol=0, atol=1e-5, equal_nan=True):
            return (f"C06|{name}|{str(dt).split('.')[-1]}-scores-vs-inexact-thresholds|differs-from-per-threshold-counting",
                    f"{name} on {str(dt).split('.')[-1]} scores {x.float().tolist()} targets {y.tolist()} thresholds {thr} gives {got.tolist()} where counting score >= threshold on the exact values gives {exp.tolist()}")
        return None
    if kind == "lowprec-scores-multi":
        # the same for the multiclass / multilabel binned PR curves (functional in both optimisation modes, and the classes)
        dt = (torch.bfloat16, torch.float16)[seed % 2]
        thr = [0.0, 0.1, 0.3, 0.7, 0.9, 1.0]
        t32 = torch.tensor(thr, dtype=torch.float32)
        img = t32[1:5].to(dt)
        one_ulp = torch.nextafter(img.float(), torch.tensor(2.0)).to(dt)
        pool = torch.cat([img, one_ulp, torch.tensor([0.0, 0.5, 1.0, 0.2, 0.8]).to(dt)])
        n, C = 16, 3
        x = pool[torch.randint(0, len(pool), (n * C,), generator=g)].reshape(n, C)
        multiclass = name.lower().startswith("multiclass")
        if multiclass:
            y = torch.randint(0, C, (n,), generator=g); y[:C] = torch.arange(C)
            onehot = torch.nn.functional.one_hot(y, C); kw = {"num_classes": C}
        else:
            y = torch.randint(0, 2, (n, C), generator=g); y[0] = 1
            onehot = y; kw = {"num_labels": C}
        opt = ("vectorized", "memory")[(seed // 2) % 2]
        if name[0].isupper():
            m = getattr(M, name)(threshold=thr, optimization=opt, **kw); m.update(x[:7], y[:7]); m.update(x[7:], y[7:]); out = m.compute()
        else:
            out = getattr(F, name)(x, y, threshold=thr, optimization=opt, **kw)
        pred = x.double().unsqueeze(-1) >= t32.double()
        pos = (onehot == 1).unsqueeze(-1)
        tp, fp, fn_ = (pred & pos).sum(0).double(), (pred & ~pos).sum(0).double(), (~pred & pos).sum(0).double()
        prec = torch.cat([torch.nan_to_num(tp / (tp + fp), nan=1.0), torch.ones(C, 1, dtype=torch.float64)], 1)
        rec = torch.cat([tp / (tp + fn_), torch.zeros(C, 1, dtype=torch.float64)], 1)
        P, R = torch.stack(list(out[0])).double(), torch.stack(list(out[1])).double()
        if P.shape != prec.shape or R.shape != rec.shape or not (torch.allclose(P, prec, rtol=0, atol=1e-5, equal_nan=True) and torch.allclose(R, rec, rtol=0, atol=1e-5, equal_nan=True)):
            return (f"C06|{name}|{str(dt).split('.')[-1]}-scores-vs-inexact-thresholds|differs-from-per-threshold-counting",
                    f"{name}(optimization={opt}) on {str(dt).split('.')[-1]} scores {x.float().tolist()} targets {y.tolist()} thresholds {thr} gives precision {P.tolist()} recall {R.tolist()} "
                    f"where counting score >= threshold on the exact values gives {prec.tolist()} / {rec.tolist()}")
        return None
    if kind == "threshold-tensor-owned":
        cls = getattr(M, name)
        kw = {"num_classes": 3} if name.startswith("Multiclass") else ({"num_labels": 3} if name.startswith("Multilabel") else {})
        t_caller = torch.tensor([0.0, 0.25, 0.5, 0.75, 1.0])
        a, b = cls(threshold=t_caller, **kw), cls(threshold=t_caller.clone(), **kw)
        def batch():
            if name.startswith("Binary"):
                return torch.randint(0, 9, (7,), generator=g).float() / 8, torch.randint(0, 2, (7,), generator=g)
            x = torch.randint(0, 9, (7, 3), generator=g).float() / 8
            return (x, torch.randint(0, 3, (7,), generator=g)) if name.startswith("Multiclass") else (x, torch.randint(0, 2, (7, 3), generator=g))
        b1, b2 = batch(), batch()
        a.update(*b1); b.update(*b1)
        t_caller.mul_(0.5)                       # the caller refreshes ITS tensor
        a.update(*b2); b.update(*b2)
        fa, fb = [], []
        def flat(o, acc):
            for v in (o if isinstance(o, (tuple, list)) else [o]):
                flat(v, acc) if isinstance(v, (tuple, list)) else acc.append(v.reshape(-1).double())
        flat(a.compute(), fa); flat(b.compute(), fb)
        fa, fb = torch.cat(fa), torch.cat(fb)
        if fa.shape != fb.shape or not torch.allclose(fa, fb, equal_nan=True):
            return (f"C06|{name}|threshold-tensor-owned-by-caller|moves-with-the-callers-tensor",
                    f"{name}(threshold=<tensor>): after the caller halved its own tensor in place between two updates the metric reports {fa.tolist()[:12]}…, a twin built from a copy {fb.tolist()[:12]}…")
        return None
    raise ValueError(kind)


CLASS_EXTRA = ([("float64-below-threshold", n) for n in ("BinaryBinnedAUROC", "BinaryBinnedAUPRC", "BinaryBinnedPrecisionRecallCurve")]
               + [("threshold-tensor-owned", n) for n in ("BinaryBinnedPrecisionRecallCurve", "MulticlassBinnedPrecisionRecallCurve", "MultilabelBinnedPrecisionRecallCurve")]
               + [("lowprec-scores", n) for n in ("binary_binned_auroc", "binary_binned_auprc", "binary_binned_precision_recall_curve",
                                                  "BinaryBinnedAUROC", "BinaryBinnedAUPRC", "BinaryBinnedPrecisionRecallCurve")]
               + [("lowprec-scores-multi", n) for n in ("multiclass_binned_precision_recall_curve", "multilabel_binned_precision_recall_curve",
                                                        "MulticlassBinnedPrecisionRecallCurve", "MultilabelBinnedPrecisionRecallCurve")])


def class_extra_stream(rep: Report):
    for kind, name in CLASS_EXTRA:
        for r in range(3 if rep.tier == "quick" else 12):
            seed = rep.seed * 6151 + 17 * r + 3
            v = class_extra_verdict(kind, name, seed)
            rep.case(nontrivial_key=("class-extra", kind, name, seed), sample=None)
            rep.count(f"class-extra:{kind}")
            if v:
                rep.violation(v[0], v[1], {"kind": "class-extra", "extra": kind, "name": name, "seed": seed})
                break

# ------------------------------------------------------------------ kernel stream (generated terms vs the real kernels)
# (T) harness/translators/kernels.py translates the binned curve kernels it covers (family "C06") from their source into terms of
# TE/Model/TExpr.lean (TE/Gen/KernelsBinned.lean, regenerated here); TE/Props/C06_Kernels.lean proves the generated terms equal to
# the models of TE/Model/Binned.lean; this stream runs the generated terms against the REAL private functions.

KERNEL_MODULES = {"classification/binned_precision_recall_curve": "torcheval.metrics.functional.classification.binned_precision_recall_curve",
                  "classification/binned_auroc": "torcheval.metrics.functional.classification.binned_auroc",
                  "classification/binned_auprc": "torcheval.metrics.functional.classification.binned_auprc",
                  "tensor_utils": "torcheval.metrics.functional.tensor_utils"}


def translate(rep: Report):
    """(T) regenerate lean/TE/Gen/KernelsBinned.lean from the kernels' source (TE.Props.C06_Kernels is proved about it)"""
    from ..translators import kernels
    from ..common import LEAN
    rows = kernels.generate(rep, family="C06")
    props = (LEAN / "TE" / "Props" / "C06_Kernels.lean").read_text()
    for r in rows:
        if r["term"] is not None and f"Gen.Binned.k_{r['id']}" not in props.replace(f"Gen.Binned.k_{r['id']}_", ""):
            rep.broke(f"kernels:{r['id']}", f"kernel {r['func']} is translated but no theorem of TE/Props/C06_Kernels.lean is about Gen.Binned.k_{r['id']}", {})


def kernel_stream(rep: Report, rng: Rng):
    """the GENERATED term of every translated kernel (request `gen.<kernel>`) against the REAL private function on the same
    arguments.  A disagreement is a broken correspondence between the source and its translation (`kernels:<name>`), never a
    violation by itself."""
    import importlib
    from ..common import enc_tensor
    from ..translators import kernels
    rows = {r["id"]: r for r in kernels.facts(family="C06")}
    for r in rows.values():
        if "fn" not in r:
            try:
                r["fn"] = getattr(importlib.import_module(KERNEL_MODULES[r["module"]]), r["func"], None)
            except Exception:  # noqa: BLE001
                r["fn"] = None

    def usable(kid):
        return rows.get(kid, {}).get("term") is not None and rows[kid].get("fn") is not None
    upd = rows.get("binned_update", {}).get("fn")
    calls = []
    cases = []
    thrs = [list(t) for t in ALL_THR] + [[]]
    for n in range(0, 3):
        for xs in itertools.product(G5, repeat=n):
            for ys in itertools.product([0, 1], repeat=n):
                cases.append((list(xs), list(ys), rng.choice(thrs)))
    for _ in range(1500 if rep.tier == "thorough" else 300):
        n = rng.choice([3, 4, 5, 8, 17])
        thr = rng.choice(thrs) if rng.random() < 0.7 else thr_tensor(rng.choice(INT_THR)).tolist()
        cases.append((rng.grid(n, GRID_X if rng.random() < 0.4 else G5), labels01(rng, n), thr))
    for xs, ys, thr in cases:
        x, t, th = ft(xs), it(ys), torch.tensor(thr, dtype=torch.float32)
        if usable("binned_update"):
            calls.append(("binned_update", {"input": x, "target": t, "threshold": th}, call_real(rows["binned_update"]["fn"], x, t, th)))
        if usable("binary_binned_precision_recall_curve_update"):
            # (its input check — 1-d, equal shapes — passes on every case of this stream; the check itself belongs to C18)
            calls.append(("binary_binned_precision_recall_curve_update", {"input": x, "target": t, "threshold": th},
                          call_real(rows["binary_binned_precision_recall_curve_update"]["fn"], x, t, th)))
        if usable("binary_binned_precision_recall_curve_compute"):
            # on what the REAL `_update` returned, and on free count vectors (0/0 precision -> 1, 0/0 recall -> NaN)
            got = call_real(upd, x, t, th) if upd is not None else ("err",)
            if got[0] == "ok":
                tp, fp, fn_ = got[1]
            else:
                k = len(thr)
                tp, fp, fn_ = it([rng.choice([0, 0, 1, 2, 5]) for _ in range(k)]), it([rng.choice([0, 0, 1, 3]) for _ in range(k)]), \
                    it([rng.choice([0, 0, 1, 4]) for _ in range(k)])
            calls.append(("binary_binned_precision_recall_curve_compute", {"num_tp": tp, "num_fp": fp, "num_fn": fn_, "threshold": th},
                          call_real(rows["binary_binned_precision_recall_curve_compute"]["fn"], tp, fp, fn_, th)))
            if rng.random() < 0.3:
                k = len(thr)
                tp, fp, fn_ = it([rng.choice([0, 0, 1, 2, 5]) for _ in range(k)]), it([rng.choice([0, 0, 1, 3]) for _ in range(k)]), \
                    it([rng.choice([0, 0, 1, 4]) for _ in range(k)])
                calls.append(("binary_binned_precision_recall_curve_compute", {"num_tp": tp, "num_fp": fp, "num_fn": fn_, "threshold": th},
                              call_real(rows["binary_binned_precision_recall_curve_compute"]["fn"], tp, fp, fn_, th)))
        if usable("binary_binned_auprc_compute") and len(thr) > 0:
            # one task (no positive at all: recall 0/0 -> NaN -> 0 by nan_to_num)
            calls.append(("binary_binned_auprc_compute", {"input": x, "target": t, "num_tasks": 1, "threshold": th},
                          call_real(rows["binary_binned_auprc_compute"]["fn"], x, t, 1, th)))
    if usable("binary_binned_auprc_compute"):
        # several tasks: (num_tasks, n) inputs, one value per row (the Python-level loop of the kernel), also one row
        for _ in range(600 if rep.tier == "thorough" else 150):
            rows_, n = rng.choice([1, 2, 2, 3]), rng.choice([1, 2, 3, 5, 9])
            thr = rng.choice([list(t_) for t_ in ALL_THR])
            x = ft([v for _r in range(rows_) for v in rng.grid(n, GRID_X if rng.random() < 0.4 else G5)], shape=(rows_, n))
            t = it([v for _r in range(rows_) for v in labels01(rng, n)], shape=(rows_, n))
            th = torch.tensor(thr, dtype=torch.float32)
            calls.append(("binary_binned_auprc_compute", {"input": x, "target": t, "num_tasks": rows_, "threshold": th},
                          call_real(rows["binary_binned_auprc_compute"]["fn"], x, t, rows_, th)))
    if usable("riemann_integral"):
        grid = [Fr(j, 8) for j in range(0, 9)]
        for _ in range(1000 if rep.tier == "thorough" else 200):
            n = rng.choice([0, 1, 2, 3, 5, 9])
            xs = sorted(rng.grid(n, grid), reverse=rng.random() < 0.8) if rng.random() < 0.7 else rng.grid(n, grid)
            x, y = ft(xs), ft(rng.grid(n, grid))
            calls.append(("riemann_integral", {"x": x, "y": y}, call_real(rows["riemann_integral"]["fn"], x, y)))
    lines = [f"fn gen.{kid} " + " ".join(f"{k}={enc_tensor(v) if isinstance(v, torch.Tensor) else 'i.' + str(v)}" for k, v in a.items())
             for kid, a, _ in calls]
    outs = run_driver(lines)
    nbad = {}
    for (kid, a, real), line, o in zip(calls, lines, outs):
        rep.count(f"kernel-stream:{kid}")
        if real[0] == "err":
            rep.count(f"kernel-stream:err:{real[1]}")
        rep.case(nontrivial_key=("kernel", line), sample={"request": line[:300], "model": o[:200]} if rep.dist.get(f"kernel-stream:{kid}") == 1 else None)
        rep.traces += 1
        msg = outcomes_agree(real, dec_out(o), strict_kind=True)
        if msg is None:
            continue
        nbad[kid] = nbad.get(kid, 0) + 1
        if nbad[kid] <= 3:
            rep.broke(f"kernels:{kid}", f"the term generated from the source of {rows[kid]['module']}.{rows[kid]['func']} and the real function disagree ({msg}) "
                      f"on {line[:400]}", {"kind": "kernel", "kernel": kid, "request": line, "generated": o,
                                           "real": real[1] if real[0] == "err" else [t_.tolist() for t_ in real[1]]})
    rep.streams["kernels"] = {"cases": len(calls), "disagreements": sum(nbad.values()), "untranslated": [k for k, r in rows.items() if r["term"] is None]}


def run(rep: Report):
    rng = Rng(rep.seed * 1000003 + 6)
    from .. import opscheck; opscheck.check_ops(rep, ["binned"])
    deadline = time.time() + budget(rep.tier, 45, 800)
    check_known_finding(rep)
    check_threshold_glue(rep)
    check_wide(rep, rng)
    check_cases(rep, binary_cases(rng, rep.tier), "functional-binary", deadline)
    check_cases(rep, multi_cases(rng, rep.tier), "functional-multi", deadline)
    check_spec_oracles(rep, rng, 1500 if rep.tier == "thorough" else 250)
    class_programs(rep, rng, 1200 if rep.tier == "thorough" else 160)
    class_extra_stream(rep)
    kernel_stream(rep, Rng(rep.seed * 1000003 + 66666))


def search(rep: Report):
    """the proof or the correspondence broke: look for an input where the real code leaves per-threshold counting,
    the other optimisation mode, or the exact value on floored scores (thorough-size space, oracles only)."""
    rng = Rng(rep.seed * 7919 + 606)
    deadline = time.time() + 120
    for fn, kw, _tag in all_cases(rng, "thorough"):
        if time.time() > deadline:
            return
        if fn == "multiclass_binned_auroc":
            continue        # recorded finding (per-sample output), replayed on its witness by check_known_finding()
        real = real_call(fn, kw)
        v, _agrees = statement_verdict(fn, kw, real)
        if v is not None:
            rep.violation(v[0], v[1], {"kind": "functional", "case": kw_json(fn, kw), "real": outs_json(real), **v[2]})
            return


def replay_case(fn, kw) -> bool:
    """True iff the C06 statement holds on this input (oracles only, no model)."""
    v, _agrees = statement_verdict(fn, kw, real_call(fn, kw))
    if v is not None:
        print(f"replay: {v[0]}: {v[1]}"[:700])
    return v is None


def _nothing(reason):
    raise ValueError(f"nothing to replay: {reason}")


def replay(payload) -> bool:
    """True iff the property holds on the recorded input:
    `kind: functional` (or a recorded `case` with dtypes) -> `statement_verdict` on the rebuilt call (every relation of the sweep);
    `kind: witness`    -> `floored_verdict` on the rebuilt call;   `kind: glue` -> `glue_verdict` on the recorded threshold argument."""
    if not isinstance(payload, dict) or payload.get("kind", "failing-input") != "failing-input":
        _nothing(f"payload kind {payload.get('kind') if isinstance(payload, dict) else None!r} carries no concrete input")
    r = payload.get("replay")
    if not isinstance(r, dict) or not r:
        _nothing("the payload carries no replay dict")
    kind = r.get("kind")
    if kind == "class-extra":
        v = class_extra_verdict(r["extra"], r["name"], int(r["seed"]))
        if v:
            print(f"replay: {v[0]}: {v[1]}"[:700])
        return v is None
    if kind == "glue" or (kind is None and "glue" in r):
        val = r.get("glue")
        form = r.get("form") or ("int" if isinstance(val, int) else None)
        if form not in ("int", "list", "tensor") or val is None or (form == "int") != isinstance(val, int):
            _nothing("glue payload without the form (int / list / tensor) of the threshold argument")
        v = glue_verdict(form, val)
        if v:
            print(f"replay: {v[0]}: {v[1]}")
        return v is None
    c = r.get("case")
    if kind not in (None, "functional", "witness") or not isinstance(c, dict):
        _nothing(f"replay kind {kind!r} carries no functional case")
    if "fn" not in c or "threshold" not in c or not all(k in c and (k + ".dtype") in c and (k + ".shape") in c for k in ("input", "target")):
        _nothing("the recorded case lacks the function name, the threshold or the dtype / shape of its tensors")
    fn, kw = kw_from_json(c)
    if not hasattr(F, fn) or "_binned_" not in fn:
        _nothing(f"not a binned functional: {fn!r}")
    if kind == "witness":
        v = floored_verdict(fn, kw, real_call(fn, kw))
        if v:
            print(f"replay: {v[0]}: {v[1]}"[:700])
        return v is None
    return replay_case(fn, kw)
