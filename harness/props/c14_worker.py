"""Worker process of C14: runs fault cases on the real code and reports one JSON line
before (`start`) and after (`done`) every case, so a native crash or a hang is attributed
to the case in flight by the parent."""
from __future__ import annotations
import json, sys
import torch
from ..common import Rng, call_real
from ..registry import SPECS, Batch, fresh_cfg, public_cfg, new_metric
from ..engine import observe, same_obs, obs_json, snapshot, snap_equal, try_update, gen_stream

FAULTS = ["drop_dim", "add_dim", "shorter", "longer", "size1", "empty", "zerodim", "to_bool", "to_int", "to_f64", "to_f16",
          "neg_label", "big_label", "nan", "inf", "none", "string", "pylist", "missing_arg", "extra_kwarg"]


def mutate_tensor(t: torch.Tensor, fault: str):
    if fault == "drop_dim":
        return t[0] if t.ndim >= 1 and t.shape[0] > 0 else None
    if fault == "add_dim":
        return t.unsqueeze(0)
    if fault == "shorter":
        d = t.ndim - 1
        return t.narrow(d, 0, t.shape[d] - 1) if t.ndim >= 1 and t.shape[d] > 1 else None
    if fault == "longer":
        return torch.cat([t, t], dim=0) if t.ndim >= 1 else None
    if fault == "size1":
        return t.narrow(0, 0, 1) if t.ndim >= 1 and t.shape[0] > 1 else None
    if fault == "empty":
        return t[:0] if t.ndim >= 1 else None
    if fault == "zerodim":
        return t.reshape(-1)[0].clone() if t.numel() else None
    if fault == "to_bool":
        return t.to(torch.bool)
    if fault == "to_int":
        return t.to(torch.int64) if t.is_floating_point() else None
    if fault == "to_f64":
        return t.to(torch.float64) if t.dtype != torch.float64 else None
    if fault == "to_f16":
        return t.to(torch.float16)
    if fault in ("neg_label", "big_label"):
        if t.is_floating_point() or t.numel() == 0:
            return None
        u = t.clone(); u.reshape(-1)[0] = -1 if fault == "neg_label" else 10 ** 6
        return u
    if fault in ("nan", "inf"):
        if not t.is_floating_point() or t.numel() == 0:
            return None
        u = t.clone(); u.reshape(-1)[0] = float("nan") if fault == "nan" else float("inf")
        return u
    if fault == "none":
        return "PYNONE"
    if fault == "string":
        return "abc"
    if fault == "pylist":
        return [1, 2]
    return None


def faulty(b: Batch, fault: str, which: int):
    if fault == "missing_arg":
        return Batch(b.args[:-1], dict(b.kwargs)) if b.args else None
    if fault == "extra_kwarg":
        return Batch(b.args, {**b.kwargs, "bogus_argument": 1})
    args = list(b.args)
    idx = [i for i, a in enumerate(args) if isinstance(a, torch.Tensor)]
    if not idx:
        if fault in ("none", "string", "pylist") and args:
            args[which % len(args)] = {"none": None, "string": 7, "pylist": (1, 2)}[fault]
            return Batch(tuple(args), dict(b.kwargs))
        return None
    i = idx[which % len(idx)]
    m = mutate_tensor(args[i], fault)
    if m is None:
        return None
    args[i] = None if isinstance(m, str) and m == "PYNONE" else m
    return Batch(tuple(args), dict(b.kwargs))


def plain_attrs(m):
    return {k: repr(v) for k, v in vars(m).items() if isinstance(v, (int, float, str, bool, type(None)))}


def case_list(seed: int, tier: str):
    rng = Rng(seed * 1000003 + 14)
    out = []
    reps = 1 if tier == "quick" else 4
    for si, spec in enumerate(SPECS):
        for ci in range(len(spec.configs)):
            for fault in FAULTS:
                for r in range(reps):
                    out.append(("cls", si, ci, fault, rng.randrange(10 ** 9)))
        if spec.functional is not None:
            for fault in FAULTS:
                out.append(("fn", si, 0, fault, rng.randrange(10 ** 9)))
    return out


def run_case(case):
    kind, si, ci, fault, cseed = case
    spec = SPECS[si]
    rng = Rng(cseed)
    cfg = fresh_cfg(spec.configs[ci])
    if kind == "fn":
        b = spec.gen(rng, cfg, rng.choice(spec.sizes))
        fb = faulty(b, fault, rng.randrange(4))
        if fb is None:
            return {"skip": True}
        r = call_real(lambda: spec.functional(cfg, fb))
        return {"raised": r[1] if r[0] == "err" else None}
    hist = gen_stream(spec, cfg, rng, rng.randint(0, 2))
    m, twin = new_metric(spec, cfg), new_metric(spec, cfg)
    for b in hist:
        b.apply(m); b.apply(twin)
    good = spec.gen(rng, cfg, rng.choice(spec.sizes))
    fb = faulty(good, fault, rng.randrange(4))
    if fb is None:
        return {"skip": True}
    before, pbefore = snapshot(m), plain_attrs(m)
    err = try_update(m, fb)
    if err is None:
        return {"raised": None}
    res = {"raised": err[0]}
    if not snap_equal(before, snapshot(m)) or pbefore != plain_attrs(m):
        res["state_changed"] = True
        res["detail"] = {"class": spec.name, "cfg": public_cfg(cfg), "history": [b.describe() for b in hist], "faulty_call": fb.describe(), "error": err}
        return res
    cont = gen_stream(spec, cfg, rng, 2)
    for b in cont:
        e1, e2 = try_update(m, b), try_update(twin, b)
        if (e1 is None) != (e2 is None):
            res["continuation_differs"] = f"update after the failed call: {e1} vs twin {e2}"
    o1, o2 = observe(m), observe(twin)
    if not same_obs(o1, o2, 0.0):
        res["continuation_differs"] = f"compute after the failed call {obs_json(o1)} vs twin {obs_json(o2)}"
    if "continuation_differs" in res:
        res["detail"] = {"class": spec.name, "cfg": public_cfg(cfg), "history": [b.describe() for b in hist], "faulty_call": fb.describe(),
                         "continuation": [b.describe() for b in cont], "error": err}
    return res


def main():
    seed, tier, start = int(sys.argv[1]), sys.argv[2], int(sys.argv[3])
    skip = set(int(x) for x in sys.argv[4].split(",") if x) if len(sys.argv) > 4 else set()
    cases = case_list(seed, tier)
    out = sys.stdout
    for i in range(start, len(cases)):
        if i in skip:
            continue
        c = cases[i]
        out.write(json.dumps({"start": i, "case": [c[0], SPECS[c[1]].name, c[2], c[3], c[4]]}) + "\n"); out.flush()
        try:
            r = run_case(c)
        except Exception as e:  # noqa: BLE001
            r = {"harness_error": repr(e)[:200]}
        out.write(json.dumps({"done": i, **r}, default=str) + "\n"); out.flush()
    out.write(json.dumps({"finished": len(cases)}) + "\n"); out.flush()


if __name__ == "__main__":
    main()
