"""Worker process of C14: runs fault cases on the real code and reports one JSON line
before (`start`) and after (`done`) every case, so a native crash or a hang is attributed
to the case in flight by the parent."""
from __future__ import annotations
import json, sys
import torch
from ..common import Rng, call_real
from ..registry import SPECS, Batch, fresh_cfg, public_cfg, new_metric
from ..engine import observe, same_obs, obs_json, snapshot, snap_equal, try_update, gen_stream

FAULTS = ["drop_dim", "add_dim", "shorter", "longer", "size1", "empty", "zerodim", "to_bool", "to_int", "to_f64", "to_f16",
          "neg_label", "big_label", "nan", "inf", "none", "string", "pylist", "missing_arg", "extra_kwarg", "wider_all", "ndarray:0", "ndarray:1", "ndarray:2",
          "to_complex:0", "to_complex:1", "to_complex:2", "huge"]


def mutate_tensor(t: torch.Tensor, fault: str):
    if fault == "drop_dim":
        return t[0] if t.ndim >= 1 and t.shape[0] > 0 else None
    if fault == "add_dim":
        return t.unsqueeze(0)
    if fault == "shorter":
        d = t.ndim - 1
        return t.narrow(d, 0, t.shape[d] - 1) if t.ndim >= 1 and t.shape[d] > 1 else None
    if fault == "longer":
        return torch.cat([t, t], dim=0) if t.ndim >= 1 else None
    if fault == "size1":
        return t.narrow(0, 0, 1) if t.ndim >= 1 and t.shape[0] > 1 else None
    if fault == "empty":
        return t[:0] if t.ndim >= 1 else None
    if fault == "zerodim":
        return t.reshape(-1)[0].clone() if t.numel() else None
    if fault == "to_bool":
        return t.to(torch.bool)
    if fault == "to_int":
        return t.to(torch.int64) if t.is_floating_point() else None
    if fault == "to_f64":
        return t.to(torch.float64) if t.dtype != torch.float64 else None
    if fault == "to_f16":
        return t.to(torch.float16)
    if fault == "huge":
        # finite values whose products / sums overflow the working precision (inf only appears inside the computation)
        return (t * 3e38).to(t.dtype) if t.is_floating_point() and t.numel() else None
    if fault in ("neg_label", "big_label"):
        if t.is_floating_point() or t.numel() == 0:
            return None
        u = t.clone(); u.reshape(-1)[0] = -1 if fault == "neg_label" else 10 ** 6
        return u
    if fault in ("nan", "inf"):
        if not t.is_floating_point() or t.numel() == 0:
            return None
        u = t.clone(); u.reshape(-1)[0] = float("nan") if fault == "nan" else float("inf")
        return u
    if fault == "ndarray":
        # an array-like that is not a Tensor but has the right .shape (numpy): passes duck-typed shape checks and fails
        # at the first tensor method — which must not come after a state write
        return "NDARRAY"
    if fault == "none":
        return "PYNONE"
    if fault == "string":
        return "abc"
    if fault == "pylist":
        return [1, 2]
    return None


def faulty(b: Batch, fault: str, which: int):
    if fault.startswith("to_complex:"):
        # the k-th tensor argument (positional or keyword) in a complex dtype: no accumulator can absorb a complex statistic in
        # place, so `state += stat` raises at the FIRST state fed by that argument — which must not come after another state
        # was already advanced
        which = int(fault.split(":")[1])
        keys = [("a", i) for i, a in enumerate(b.args) if isinstance(a, torch.Tensor)] + [("k", k) for k, a in b.kwargs.items() if isinstance(a, torch.Tensor)]
        if which >= len(keys):
            return None
        args, kwargs = list(b.args), dict(b.kwargs)
        kind, key = keys[which]
        if kind == "a":
            args[key] = args[key].to(torch.complex64)
        else:
            kwargs[key] = kwargs[key].to(torch.complex64)
        return Batch(tuple(args), kwargs)
    if fault.startswith("ndarray:"):
        # the k-th tensor argument (positional or keyword: weights included) as a numpy array
        which = int(fault.split(":")[1])
        keys = [("a", i) for i, a in enumerate(b.args) if isinstance(a, torch.Tensor)] + [("k", k) for k, a in b.kwargs.items() if isinstance(a, torch.Tensor)]
        if which >= len(keys):
            return None
        args, kwargs = list(b.args), dict(b.kwargs)
        kind, key = keys[which]
        if kind == "a":
            args[key] = args[key].detach().cpu().numpy().copy()
        else:
            kwargs[key] = kwargs[key].detach().cpu().numpy().copy()
        return Batch(tuple(args), kwargs)
    if fault == "missing_arg":
        return Batch(b.args[:-1], dict(b.kwargs)) if b.args else None
    if fault == "extra_kwarg":
        return Batch(b.args, {**b.kwargs, "bogus_argument": 1})
    if fault == "wider_all":
        # a batch that is consistent on its own (every >=2-D tensor gets one more column) but whose number of outputs /
        # classes / samples-per-task differs from what the history established: it can only fail late, at the
        # accumulation into the existing state — exactly where a half-applied update would show
        if not any(isinstance(a, torch.Tensor) and a.ndim >= 2 for a in b.args):
            return None
        w = lambda a: torch.cat([a, a[..., :1]], dim=-1) if isinstance(a, torch.Tensor) and a.ndim >= 2 and a.shape[-1] >= 1 else a
        return Batch(tuple(w(a) for a in b.args), {k: w(v) for k, v in b.kwargs.items()})
    args = list(b.args)
    idx = [i for i, a in enumerate(args) if isinstance(a, torch.Tensor)]
    if not idx:
        if fault in ("none", "string", "pylist") and args:
            args[which % len(args)] = {"none": None, "string": 7, "pylist": (1, 2)}[fault]
            return Batch(tuple(args), dict(b.kwargs))
        return None
    i = idx[which % len(idx)]
    m = mutate_tensor(args[i], fault)
    if m is None:
        return None
    if isinstance(m, str) and m == "NDARRAY":
        m = args[i].detach().cpu().numpy().copy()
    args[i] = None if isinstance(m, str) and m == "PYNONE" else m
    return Batch(tuple(args), dict(b.kwargs))


def plain_attrs(m):
    return {k: repr(v) for k, v in vars(m).items() if isinstance(v, (int, float, str, bool, type(None)))}


def case_list(seed: int, tier: str):
    rng = Rng(seed * 1000003 + 14)
    out = []
    reps = 1 if tier == "quick" else 4
    for si, spec in enumerate(SPECS):
        for ci in range(len(spec.configs)):
            for fault in FAULTS:
                for r in range(reps):
                    out.append(("cls", si, ci, fault, rng.randrange(10 ** 9)))
        if spec.functional is not None:
            for fault in FAULTS:
                out.append(("fn", si, 0, fault, rng.randrange(10 ** 9)))
    return out


# ------------------------------------------------------------------ recipes: the concrete content of a case
# A recipe is the replayable content of one fault case — {"mode", "class", "cfg" (public constructor configuration), "history",
# "faulty_call", "continuation"} with every batch written out (`Batch.describe()`: tensors with dtype and shape, python
# scalars / None / strings as they are).  The sweep GENERATES a recipe from the case seed and RUNS it with `run_recipe`; the
# result record carries the recipe (`detail`) whenever the parent may report a violation, and a replay runs the recorded recipe
# through the same `run_recipe` — nothing is regenerated.
#   mode "cls": valid history ∘ faulty update() ∘ continuation, on the object and on a twin that never saw the fault
#   mode "fn" : one call of the functional twin of the class

def bdesc(b: Batch) -> dict:
    """`Batch.describe()` with python tuples marked (JSON would turn them into lists)"""
    import numpy as np
    nd = lambda a: {"__ndarray__": {"shape": list(a.shape), "dtype": str(a.dtype), "data": a.tolist()}}
    b = Batch(tuple(nd(a) if isinstance(a, np.ndarray) else a for a in b.args), {k: (nd(a) if isinstance(a, np.ndarray) else a) for k, a in b.kwargs.items()})
    d = b.describe()
    d["args"] = [{"__tuple__": list(a)} if isinstance(a, tuple) else a for a in d["args"]]
    d["kwargs"] = {k: ({"__tuple__": list(a)} if isinstance(a, tuple) else a) for k, a in d["kwargs"].items()}
    return d


def bundesc(d: dict) -> Batch:
    def u(a):
        if isinstance(a, dict) and set(a) == {"__ndarray__"}:
            import numpy as np
            x = a["__ndarray__"]
            return np.array(x["data"], dtype=x["dtype"]).reshape(x["shape"])
        return tuple(a["__tuple__"]) if isinstance(a, dict) and set(a) == {"__tuple__"} else a
    return Batch.from_describe({"args": [u(a) for a in d["args"]], "kwargs": {k: u(a) for k, a in (d.get("kwargs") or {}).items()}})


def spec_by_name(name):
    return next(s for s in SPECS if s.name == name)


def recipe(mode, spec, cfg, hist, fb, cont, extra=None):
    d = {"mode": mode, "class": spec.name, "cfg": public_cfg(cfg), "history": [bdesc(b) for b in hist],
         "faulty_call": bdesc(fb) if fb is not None else None, "continuation": [bdesc(b) for b in cont]}
    d.update(extra or {})
    return d


def run_recipe(rc, keep=False):
    """the observation that C14 judges: {"raised": kind | None, "at"?, "state_changed"?, "continuation_differs"?, "error"?}
    (`keep`: also return the metric object that received the faulty call)"""
    spec = spec_by_name(rc["class"])
    cfg = dict(rc["cfg"])
    fb = bundesc(rc["faulty_call"])
    if rc["mode"] == "fn":
        r = call_real(lambda: spec.functional(cfg, fb))
        res = {"raised": r[1] if r[0] == "err" else None}
        return (res, r) if keep else res
    try:
        m, twin = new_metric(spec, cfg), new_metric(spec, cfg)
    except Exception as e:  # noqa: BLE001   (an out-of-range constructor parameter: rejected before any state exists)
        res = {"raised": type(e).__name__, "at": "constructor"}
        return (res, None) if keep else res
    for d in rc["history"]:
        b = bundesc(d)
        b.apply(m); b.apply(twin)
    before, pbefore = snapshot(m), plain_attrs(m)
    err = try_update(m, fb)
    if err is None:
        res = {"raised": None}
        return (res, m) if keep else res
    res = {"raised": err[0], "error": err}
    if not snap_equal(before, snapshot(m)) or pbefore != plain_attrs(m):
        res["state_changed"] = True
        return (res, m) if keep else res
    if rc.get("twin") is False:          # (k faults: no twin with the same — rejected — configuration is meaningful)
        return (res, m) if keep else res
    for d in rc["continuation"]:
        b = bundesc(d)
        e1, e2 = try_update(m, b), try_update(twin, b)
        if (e1 is None) != (e2 is None):
            res["continuation_differs"] = f"update after the failed call: {e1} vs twin {e2}"
    o1, o2 = observe(m), observe(twin)
    if not same_obs(o1, o2, 0.0):
        res["continuation_differs"] = f"compute after the failed call {obs_json(o1)} vs twin {obs_json(o2)}"
    return (res, m) if keep else res


def gen_case(case):
    """the recipe of a shape/type fault case, generated from its seed (None: the fault does not apply to this call)"""
    kind, si, ci, fault, cseed = case
    spec = SPECS[si]
    rng = Rng(cseed)
    cfg = fresh_cfg(spec.configs[ci])
    if kind == "fn":
        b = spec.gen(rng, cfg, rng.choice(spec.sizes))
        fb = faulty(b, fault, rng.randrange(4))
        return None if fb is None else recipe("fn", spec, cfg, [], fb, [])
    if fault == "ndarray:2":
        cfg["_v"] = 0.0          # the generators' weighted variant: the third tensor argument is the weight
    hist = gen_stream(spec, cfg, rng, rng.randint(1 if fault == "wider_all" else 0, 2))
    good = spec.gen(rng, cfg, rng.choice(spec.sizes))
    fb = faulty(good, fault, rng.randrange(4))
    if fb is None:
        return None
    cont = gen_stream(spec, cfg, rng, 2)
    return recipe("cls", spec, cfg, hist, fb, cont)


def run_case(case):
    rc = gen_case(case)
    if rc is None:
        return {"skip": True}
    res = run_recipe(rc)
    err = res.pop("error", None)
    if res.get("state_changed") or "continuation_differs" in res:
        res["detail"] = dict(rc, error=err)
    return res


# ------------------------------------------------------------------ index faults (index-range safety)

INT_DTYPES = (torch.int64, torch.int32, torch.int16, torch.int8, torch.uint8)
LABEL_FAULTS = ["-1", "-C", "C", "C+1", "2^31", "-2^63"]
SCORE_FAULTS = ["nan", "+inf", "-inf"]
K_FAULTS = ["0", "-1", "n+1", "2^31"]
_PLAN = None


def label_value(name: str, C: int) -> int:
    return {"-1": -1, "-C": -C, "C": C, "C+1": C + 1, "2^31": 2 ** 31, "-2^63": -2 ** 63}[name]


def label_class(name: str) -> str:
    """fault class used in violation signatures."""
    return {"-1": "label-in-[-C,-1]", "-C": "label-in-[-C,-1]", "-2^63": "label<-C", "C": "label>=C", "C+1": "label>=C", "2^31": "label>=C"}[name]


def functional_name(spec) -> str:
    """name of the public functional behind `spec.functional` (a closure made by registry._f / a lambda)."""
    f = spec.functional
    seen, todo = set(), [f]
    while todo:
        g = todo.pop()
        if id(g) in seen or g is None:
            continue
        seen.add(id(g))
        mod = getattr(g, "__module__", "") or ""
        if mod.startswith("torcheval.metrics.functional") and not getattr(g, "__name__", "_").startswith("_"):
            return g.__name__
        for c in (getattr(g, "__closure__", None) or ()):
            try:
                v = c.cell_contents
            except ValueError:
                continue
            if callable(v):
                todo.append(v)
        code = getattr(g, "__code__", None)
        if code is not None:
            for n in code.co_names:
                import torcheval.metrics.functional as F
                if hasattr(F, n) and callable(getattr(F, n)) and not n.startswith("_") and n not in ("F",):
                    return n
    return f"functional({spec.name})"


def label_bound(spec, cfg, b: Batch, pos: int) -> int:
    """number of valid label values of the integer argument at `pos`."""
    if spec.name.startswith("Retrieval") and pos == 2:
        return cfg.get("num_queries", 1)
    if spec.name.startswith(("Binary", "Multilabel", "TopKMultilabel", "WindowedBinary")):
        return 2
    if cfg.get("num_classes"):
        return cfg["num_classes"]
    a0 = b.args[0]
    if isinstance(a0, torch.Tensor) and a0.is_floating_point() and a0.ndim >= 2:
        return a0.shape[-1]
    return 3


def index_plan():
    """(spec index, fault family, argument position, site kinds) from the regenerated inventory + registry:
    label  integer arguments of update() that reach an index kernel un-constructed (inventory), integer
           class-label arguments of the Multiclass* metrics (one-vs-rest comparisons included), and the
           `indexes` argument of the retrieval classes;
    score  float arguments that are bucketed by `searchsorted` on their way to `histc` / an index;
    k      the `k` of every metric that has one."""
    global _PLAN
    if _PLAN is not None:
        return _PLAN
    import inspect
    from ..translators import indexsites
    roots = indexsites.entry_roots(indexsites.facts())
    plan = []
    for si, spec in enumerate(SPECS):
        cfg = fresh_cfg(spec.configs[0])
        m = new_metric(spec, cfg)
        params = [p for p in inspect.signature(type(m).update).parameters if p != "self"]
        ent = {}
        for e in (f"{spec.name}.update", f"{spec.name}.compute"):
            for fam, d in roots.get(e, {}).items():
                for r, kinds in d.items():
                    ent.setdefault(fam, {}).setdefault(r, set()).update(kinds)
        # argument variants over configurations / generator variants (labels vs logits, indexes present or not)
        variants: dict = {}
        for ci in range(len(spec.configs)):
            for r in range(6):
                bb = spec.gen(Rng(1000 * ci + r), fresh_cfg(spec.configs[ci]), 3)
                for pos, a in enumerate(bb.args):
                    if isinstance(a, torch.Tensor):
                        variants.setdefault((pos, "int" if a.dtype in INT_DTYPES else ("float" if a.is_floating_point() else "other")), a)
        for (pos, ty), a in sorted(variants.items(), key=lambda kv: kv[0]):
            pname = params[pos] if pos < len(params) else f"arg{pos}"
            if ty == "int":
                kinds = set(ent.get("label", {}).get(pname, set()))
                if not kinds and pname == "target" and (spec.name.startswith("Multiclass") or "num_classes" in spec.configs[0]):
                    kinds = {"compare(one-vs-rest)"}
                if not kinds and spec.name.startswith("Retrieval") and pname == "indexes":
                    kinds = {"mask(indexes==i)"}
                if kinds:
                    plan.append((si, "label", pos, sorted(kinds)))
            elif ty == "float":
                kinds = set(ent.get("score", {}).get(pname, set()))
                if not kinds and ent.get("score") and pos <= 1 and spec.name == "Wasserstein1D":
                    kinds = {"index_get(searchsorted)"}
                if kinds:
                    plan.append((si, "score", pos, sorted(kinds)))
        if any("k" in c for c in spec.configs) or "k" in inspect.signature(type(m).__init__).parameters:
            plan.append((si, "k", -1, sorted(set().union(*ent.get("k", {}).values())) or ["rank<k"]))
    _PLAN = plan
    return plan


def index_case_list(seed: int, tier: str):
    rng = Rng(seed * 1000003 + 1414)
    out = []
    reps = 1 if tier == "quick" else 8
    for si, fam, pos, kinds in index_plan():
        spec = SPECS[si]
        faults = {"label": LABEL_FAULTS, "score": SCORE_FAULTS, "k": K_FAULTS}[fam]
        cis = range(len(spec.configs))
        for ci in cis:
            if fam == "k" and "k" not in spec.configs[ci] and ci > 0:
                continue
            for f in faults:
                for r in range(reps):
                    out.append(("icls", si, ci, f"{fam}:{f}@{pos}", rng.randrange(10 ** 9)))
                if spec.functional is not None:
                    out.append(("ifn", si, ci, f"{fam}:{f}@{pos}", rng.randrange(10 ** 9)))
    return out


def gen_with(spec, cfg, rng, n, pos, want_int):
    """a valid batch whose argument `pos` exists and has the wanted kind (the generators choose
    between label and logit inputs per stream); None when this configuration never produces it."""
    for _ in range(12):
        c = fresh_cfg(cfg)
        c.pop("_v", None)
        b = spec.gen(rng, c, n)
        if pos < len(b.args) and isinstance(b.args[pos], torch.Tensor) and ((b.args[pos].dtype in INT_DTYPES) == want_int):
            cfg.update({k: v for k, v in c.items() if k.startswith("_")})
            return b
    return None


def with_value(b: Batch, pos: int, value, where: int = 0) -> Batch:
    args = list(b.args)
    t = args[pos].clone()
    flat = t.reshape(-1)
    flat[where % max(1, flat.numel())] = value
    args[pos] = t
    return Batch(tuple(args), dict(b.kwargs))


def same_flat(a, b, tol=1e-6):
    """two `call_real` / `observe` outcomes describe the same result."""
    if a[0] != b[0]:
        return False
    if a[0] != "ok":
        return True
    return same_obs(("ok", a[1]), ("ok", b[1]), tol)


def k_limit(spec, cfg, b: Batch) -> int:
    a0 = b.args[0]
    return a0.shape[-1] if isinstance(a0, torch.Tensor) and a0.ndim >= 1 else 1


def gen_index_case(case):
    """(recipe | None, context) of an index fault case, generated from its seed.  context: what the descriptive part of
    `run_index_case` needs (the valid batch, the configuration used for generation, the fault value …)"""
    kind, si, ci, fault, cseed = case
    spec = SPECS[si]
    fam, rest = fault.split(":", 1)
    fname, pos = rest.rsplit("@", 1)
    pos = int(pos)
    rng = Rng(cseed)
    cfg = fresh_cfg(spec.configs[ci])
    n = rng.choice([s for s in spec.sizes if s >= 2] or [2])
    where = rng.randrange(n)
    ctx = {"spec": spec, "cfg": cfg, "fam": fam, "fname": fname, "pos": pos, "where": where}
    if fam == "k":
        good = spec.gen(rng, cfg, n)
        lim = k_limit(spec, cfg, good)
        kv = {"0": 0, "-1": -1, "n+1": lim + 1, "2^31": 2 ** 31}[fname]
        ctx.update(good=good, lim=lim, kv=kv, bad_cfg=dict(cfg, k=kv), ref_cfg=dict(cfg, k=lim))
        return recipe("fn" if kind == "ifn" else "cls", spec, ctx["bad_cfg"], [], good, [], {"twin": False, "k": kv}), ctx
    good = gen_with(spec, cfg, rng, n, pos, fam == "label")
    if good is None:
        return None, ctx
    hist = [] if kind == "ifn" else gen_stream(spec, cfg, rng, rng.randint(0, 2))
    if fam == "label":
        C = label_bound(spec, cfg, good, pos)
        v = label_value(fname, C)
        ctx.update(C=C)
    else:
        v = {"nan": float("nan"), "+inf": float("inf"), "-inf": float("-inf")}[fname]
    fb = with_value(good, pos, v, where)
    cont = [] if kind == "ifn" else gen_stream(spec, cfg, rng, 2)
    ctx.update(good=good, hist=hist, v=v, fb=fb)
    return recipe("fn" if kind == "ifn" else "cls", spec, cfg, hist, fb, cont), ctx


def run_index_case(case):
    """one index fault.  The parent (c14.judge) treats as violations only: death / hang of this process, an
    exception after which state_dict()/plain attributes changed, and a continuation that differs from the twin.
    A call that returns normally satisfies C14; the fields `returned`, `compute`, `oracle` only DESCRIBE what
    was returned (input-distribution counts and the `accepted_out_of_range_inputs` note)."""
    kind, si, ci, fault, cseed = case
    rc, ctx = gen_index_case(case)
    spec, cfg, fam, fname, pos, where = ctx["spec"], ctx["cfg"], ctx["fam"], ctx["fname"], ctx["pos"], ctx["where"]
    entry = (spec.name + ".update") if kind == "icls" else functional_name(spec)
    res = {"entry": entry, "family": fam, "cfg": public_cfg(cfg),
           "kinds": next((k for i, f, p, k in index_plan() if i == si and f == fam and p == pos), [])}
    if rc is None:
        return {"skip": True}

    def descr(hist, fb, extra=None):
        d = {"class": spec.name, "cfg": public_cfg(cfg), "history": [b.describe() for b in hist], "faulty_call": fb.describe() if fb is not None else None}
        d.update(extra or {})
        return d

    obs, got = run_recipe(rc, keep=True)
    err = obs.pop("error", None)
    # ---------------- k faults: the parameter itself is out of range
    if fam == "k":
        good, lim, kv, ref_cfg = ctx["good"], ctx["lim"], ctx["kv"], ctx["ref_cfg"]
        # precision@k divides by k itself (documented) unless limit_k_to_size: k > n is then a legal request
        saturates = not (spec.name == "RetrievalPrecision" and not cfg.get("limit_k_to_size"))
        res["value"] = kv
        if kind == "ifn":
            r = got
            if r[0] == "err":
                return {"skip": True} if r[1] == "NotImplementedError" else dict(res, raised=r[1])
            res["returned"] = True
            if kv > lim and not saturates:
                res["oracle"] = "k>n-legal(denominator-k)"
            elif kv > lim:
                ref = call_real(lambda: spec.functional(ref_cfg, good))
                res["oracle"] = "equals-k=n" if same_flat(r, ref) else "differs-from-k=n"
            else:
                res["oracle"] = "all-zero" if all(bool((t == 0).all()) for t in r[1]) else "nonzero-for-k<=0"
            if res["oracle"] in ("differs-from-k=n", "nonzero-for-k<=0"):
                res["detail"] = descr([], good, {"k": kv, "result": [t.tolist() for t in r[1]]})
            return res
        if obs.get("at") == "constructor":
            return dict(res, raised=obs["raised"], at="constructor")
        if obs["raised"] is not None:
            res["raised"] = obs["raised"]
            if obs.get("state_changed"):
                res["state_changed"] = True
                res["detail"] = dict(rc, error=err)
            return res
        m = got
        o = observe(m)
        if o[0] == "err":
            return dict(res, raised=o[1], at="compute")
        res["returned"] = True
        if kv > lim and not saturates:
            res["oracle"] = "k>n-legal(denominator-k)"
        elif kv > lim:
            twin = new_metric(spec, ref_cfg); good.apply(twin)
            res["oracle"] = "equals-k=n" if same_obs(o, observe(twin)) else "differs-from-k=n"
        else:
            res["oracle"] = "all-zero" if all(bool((t == 0).all()) for t in o[1]) else "nonzero-for-k<=0"
        if res["oracle"] in ("differs-from-k=n", "nonzero-for-k<=0"):
            res["detail"] = descr([], good, {"k": kv, "result": obs_json(o)})
        return res

    # ---------------- label / score faults: one element of one argument is out of range
    good, fb, v = ctx["good"], ctx["fb"], ctx["v"]
    if fam == "label":
        C = ctx["C"]
        res.update(value=v, bound=C)
    if kind == "ifn":
        r = got
        if fam == "label":
            if r[0] == "err":
                return {"skip": True} if r[1] == "NotImplementedError" else dict(res, raised=r[1])
            res["returned"] = True
            res["detail"] = descr([], fb, {"result": [t.tolist() for t in r[1]], "valid_labels": f"0..{C - 1}"})
            return res
        if r[0] == "err":
            return dict(res, raised=r[1])
        res["returned"] = True
        if spec.family == "binned":
            hi = call_real(lambda: spec.functional(cfg, with_value(good, pos, 2.0, where)))
            lo = call_real(lambda: spec.functional(cfg, with_value(good, pos, -1.0, where)))
            res["oracle"] = score_oracle(fname, same_flat(r, hi), same_flat(r, lo))
            if res["oracle"].startswith("differs"):
                res["detail"] = descr([], fb, {"result": [t.tolist() for t in r[1]], "as_above_all_thresholds": [t.tolist() for t in hi[1]] if hi[0] == "ok" else hi[1],
                                               "as_below_all_thresholds": [t.tolist() for t in lo[1]] if lo[0] == "ok" else lo[1]})
        return res

    hist = ctx["hist"]
    if obs["raised"] is not None:
        res["raised"] = obs["raised"]
        if obs.get("state_changed"):
            res["state_changed"] = True
        if "continuation_differs" in obs:
            res["continuation_differs"] = obs["continuation_differs"]
        if res.get("state_changed") or "continuation_differs" in res:
            res["detail"] = dict(rc, error=err)
        return res
    # update() accepted the out-of-range element
    m = got
    o = observe(m)
    res["returned"] = True
    res["compute"] = "raises:" + o[1] if o[0] == "err" else "returns"
    if fam == "label":
        res["detail"] = descr(hist, fb, {"compute_after": obs_json(o), "valid_labels": f"0..{C - 1}"})
        return res
    if spec.family == "binned":
        hi, lo = new_metric(spec, cfg), new_metric(spec, cfg)
        for b in hist:
            b.apply(hi); b.apply(lo)
        with_value(good, pos, 2.0, where).apply(hi); with_value(good, pos, -1.0, where).apply(lo)
        oh, ol = observe(hi), observe(lo)
        res["oracle"] = score_oracle(fname, same_obs(o, oh, 1e-6), same_obs(o, ol, 1e-6))
        if res["oracle"].startswith("differs"):
            res["detail"] = descr(hist, fb, {"compute_after": obs_json(o), "as_above_all_thresholds": obs_json(oh), "as_below_all_thresholds": obs_json(ol)})
    return res


def score_oracle(fname: str, eq_hi: bool, eq_lo: bool) -> str:
    """thresholds lie in [0, 1]: +inf counts like any score above them (2.0), -inf like any score below (-1.0);
    NaN has no textbook value — it must at least be treated as one of the two."""
    if fname == "+inf":
        return "as-above-all-thresholds" if eq_hi else "differs-from-score-above-all-thresholds"
    if fname == "-inf":
        return "as-below-all-thresholds" if eq_lo else "differs-from-score-below-all-thresholds"
    if eq_hi and eq_lo:
        return "nan-irrelevant"
    if eq_hi:
        return "nan-as-above-all-thresholds"
    if eq_lo:
        return "nan-as-below-all-thresholds"
    return "differs-nan-neither-above-nor-below"


def all_cases(seed: int, tier: str):
    return case_list(seed, tier) + index_case_list(seed, tier)


def run_any(case):
    return run_index_case(case) if case[0] in ("icls", "ifn") else run_case(case)


def limit_memory():
    """an index as large as 2^31 must not make a kernel allocate the machine away (bincount-like growth)."""
    try:
        import resource
        resource.setrlimit(resource.RLIMIT_AS, (12 << 30, 12 << 30))
    except Exception:  # noqa: BLE001
        pass


def main():
    limit_memory()
    if sys.argv[1] == "--describe":
        # the recipe (concrete content) of a case, generated from its seed WITHOUT running the fault: `--describe <json case>`
        case = json.loads(sys.argv[2])
        c = (case[0], next(i for i, s in enumerate(SPECS) if s.name == case[1]), case[2], case[3], case[4])
        try:
            rc = gen_index_case(c)[0] if c[0] in ("icls", "ifn") else gen_case(c)
            r = {"recipe": rc}
        except Exception as e:  # noqa: BLE001
            r = {"harness_error": repr(e)[:200]}
        sys.stdout.write(json.dumps({"described": 0, **r}, default=str) + "\n"); sys.stdout.flush()
        return
    if sys.argv[1] == "--recipe":
        # replay of a recorded recipe: `--recipe <file with the json recipe>`
        with open(sys.argv[2]) as f:
            rc = json.load(f)
        sys.stdout.write(json.dumps({"start": 0}) + "\n"); sys.stdout.flush()
        try:
            r = run_recipe(rc)
            r.pop("error", None)
        except Exception as e:  # noqa: BLE001
            r = {"harness_error": repr(e)[:200]}
        sys.stdout.write(json.dumps({"done": 0, **r}, default=str) + "\n"); sys.stdout.flush()
        return
    if sys.argv[1] == "--one":
        # replay of a single recorded case: `--one <json case>`
        case = json.loads(sys.argv[2])
        si = next(i for i, s in enumerate(SPECS) if s.name == case[1])
        c = (case[0], si, case[2], case[3], case[4])
        try:
            r = run_any(c)
        except Exception as e:  # noqa: BLE001
            r = {"harness_error": repr(e)[:200]}
        sys.stdout.write(json.dumps({"done": 0, **r}, default=str) + "\n"); sys.stdout.flush()
        return
    seed, tier, start = int(sys.argv[1]), sys.argv[2], int(sys.argv[3])
    skip = set(int(x) for x in sys.argv[4].split(",") if x) if len(sys.argv) > 4 else set()
    cases = all_cases(seed, tier)
    out = sys.stdout
    for i in range(start, len(cases)):
        if i in skip:
            continue
        c = cases[i]
        out.write(json.dumps({"start": i, "case": [c[0], SPECS[c[1]].name, c[2], c[3], c[4]]}) + "\n"); out.flush()
        try:
            r = run_any(c)
        except Exception as e:  # noqa: BLE001
            r = {"harness_error": repr(e)[:200]}
        out.write(json.dumps({"done": i, **r}, default=str) + "\n"); out.flush()
    out.write(json.dumps({"finished": len(cases)}) + "\n"); out.flush()


if __name__ == "__main__":
    main()
