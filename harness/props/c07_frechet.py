"""C07 (part) — Gaussian Fréchet distance on RANK-DEFICIENT covariances (fewer samples than feature dimensions, the usual case of
FAD / FID on a small evaluation set): the product cov_x·cov_y is singular, its zero eigenvalues come back from the general eigen-solver
as ±1e-16 (±1e-7 in float32) or as tiny complex pairs, and the trace term tr sqrt(cov_x cov_y) must still be the value of the definition.
Reference: float64, through the symmetric form  tr sqrt(A B) = Σ sqrt(eig(A^{1/2} B A^{1/2}))  with eigh (clipped at 0)."""
from __future__ import annotations
import torch
from ..common import Rng, Report, call_real
from torcheval.metrics.functional.frechet import gaussian_frechet_distance

PLANS = [(10, 16), (4, 8), (6, 32), (3, 12), (2, 5), (20, 16)]        # (samples, features): all but the last are rank-deficient


def _moments(x: torch.Tensor):
    return x.mean(0), torch.cov(x.T)


def reference(mx, cx, my, cy) -> float:
    mx, cx, my, cy = (t.to(torch.float64) for t in (mx, cx, my, cy))
    w, v = torch.linalg.eigh((cx + cx.T) / 2)
    root = (v * w.clamp(min=0).sqrt()) @ v.T
    mid = root @ ((cy + cy.T) / 2) @ root
    ev = torch.linalg.eigvalsh((mid + mid.T) / 2).clamp(min=0)
    return float((mx - my).square().sum() + cx.trace() + cy.trace() - 2 * ev.sqrt().sum())


def case(seed: int, n: int, d: int, dtype: str):
    g = torch.Generator().manual_seed(seed)
    dt = getattr(torch, dtype)
    x = (torch.randint(-8, 9, (n, d), generator=g).to(torch.float64) / 8).to(dt)
    y = (torch.randint(-8, 9, (n, d), generator=g).to(torch.float64) / 8 + 0.25).to(dt)
    mx, cx = _moments(x); my, cy = _moments(y)
    return mx, cx, my, cy


def verdict(seed: int, n: int, d: int, dtype: str):
    """None | (signature, what): the real function against the float64 reference (scale-aware tolerance)"""
    mx, cx, my, cy = case(seed, n, d, dtype)
    want = reference(mx, cx, my, cy)
    r = call_real(gaussian_frechet_distance, mx, cx, my, cy)
    scale = float(cx.to(torch.float64).trace() + cy.to(torch.float64).trace() + (mx - my).to(torch.float64).square().sum()) + 1.0
    tol = (5e-3 if dtype == "float32" else 1e-6) * scale
    if r[0] != "ok":
        return (f"C07|gaussian_frechet_distance|rank-deficient,{dtype}|raises", f"gaussian_frechet_distance raised {r[1]} on covariances of {n} samples in {d} dimensions ({dtype})")
    got = float(r[1][0].to(torch.float64))
    if not (abs(got - want) <= tol):       # NaN fails this test as well
        return (f"C07|gaussian_frechet_distance|rank-deficient,{dtype}|differs-from-definition",
                f"gaussian_frechet_distance on covariances of {n} samples in {d} dimensions ({dtype}) returns {got}, definition {want} (tolerance {tol:.2e})")
    return None


def run(rep: Report, rng: Rng | None = None):
    rng = rng or Rng(rep.seed * 1000003 + 707)
    for (n, d) in PLANS:
        for dtype in ("float64", "float32"):
            seed = rng.randrange(1 << 30)
            rep.case(nontrivial_key=("frechet-rank", n, d, dtype, seed)); rep.count(f"frechet-rank-deficient:{n}x{d}:{dtype}")
            v = verdict(seed, n, d, dtype)
            if v is not None:
                rep.violation(v[0], v[1], {"kind": "frechet-rank", "seed": seed, "n": n, "d": d, "dtype": dtype})


def replay(rp: dict) -> bool:
    v = verdict(int(rp["seed"]), int(rp["n"]), int(rp["d"]), rp["dtype"])
    if v is not None:
        print(f"replay: {v[0]}: {v[1]}"[:600])
    return v is None
