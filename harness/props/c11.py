"""C11 — non-interference: merge_state leaves sources unchanged (then and after later
operations on the target), compute() is idempotent and does not change state_dict(),
update()/functionals do not modify their arguments.
(T) effects translator: per class/method alias facts observed on the real objects
(storage sharing between target and sources after merge, state rebinding in compute)
regenerated into lean/TE/Gen/Effects.lean and decided there.  (D) real vs real snapshots."""
from __future__ import annotations
import time
import torch
from ..common import Rng, Report, budget, call_real, ckey
from ..registry import SPECS, Spec, fresh_cfg, public_cfg, new_metric, cat_batches, Batch
from ..engine import observe, same_obs, obs_json, snapshot, snap_equal, fed, gen_stream
from ..translators import effects as effects_tr

LEVEL = "proof"
RULE = ("merge layouts (fresh / updated target, 1–3 sources incl. empty ones, a source merged again later, target updated and merged "
        "after the merge) with bitwise snapshots (state_dict + compute) of every source before/after; compute() twice with snapshots; "
        "argument tensors (contiguous, non-contiguous views, expanded) hashed before/after update() and functional calls; "
        "non-trivial = layout with ≥ 1 non-empty source")
MODELLED = ["device moves", "sync (covered by C02's check on the simulated transport)"]
ASSUMPTIONS = []
TRUSTED_EXTRA = ["harness/translators/effects.py (runtime storage-identity observation) producing lean/TE/Gen/Effects.lean"]


def translate(rep: Report):
    effects_tr.generate(rep)


def full_snap(m):
    return (snapshot(m), obs_json(observe(m)))


def noncontig(b: Batch, rng: Rng) -> Batch:
    """same values, but tensors are non-contiguous views of larger buffers."""
    def nc(t):
        if not isinstance(t, torch.Tensor) or t.ndim == 0 or t.numel() == 0:
            return t
        big = torch.zeros(*t.shape[:-1], t.shape[-1] * 2, dtype=t.dtype)
        big[..., ::2] = t
        return big[..., ::2]
    return Batch(tuple(nc(a) for a in b.args), {k: nc(v) for k, v in b.kwargs.items()})


def tens(b: Batch):
    return [a for a in list(b.args) + list(b.kwargs.values()) if isinstance(a, torch.Tensor)]


def check_merge(rep, rng, spec, cfg0):
    cfg = fresh_cfg(cfg0)
    k = rng.randint(1, 3)
    srcs = [fed(spec, cfg, gen_stream(spec, cfg, rng, rng.randint(0, 2))) for _ in range(k)]
    tgt = fed(spec, cfg, gen_stream(spec, cfg, rng, rng.choice([0, 0, 1, 2])))
    before = [full_snap(s) for s in srcs]
    nonempty = sum(1 for s, b in zip(srcs, before) if b[0] != full_snap(new_metric(spec, cfg))[0])
    rep.count(f"class:{spec.name}")
    rep.case(nontrivial_key=(spec.name, repr(public_cfg(cfg)), "merge", ckey(before), ckey(full_snap(tgt))) if nonempty else None,
             sample={"class": spec.name, "cfg": public_cfg(cfg), "sources": k, "kind": "merge-noninterference"} if rep.evaluations % 409 == 0 else None)
    ctx = {"class": spec.name, "cfg": public_cfg(cfg), "sources": k}
    stages = []
    tgt.merge_state(srcs); stages.append("merge_state(sources)")
    def chk(stage):
        for i, s in enumerate(srcs):
            now = full_snap(s)
            if not snap_equal(before[i], now):
                rep.violation(f"C11|{spec.name}.merge_state|source-changed",
                              f"{spec.name}{public_cfg(cfg)}: source {i} changed after {stage}: before {str(before[i])[:160]} now {str(now)[:160]}",
                              {**ctx, "stage": stage, "source": i})
                return False
        return True
    if not chk(stages[-1]):
        return
    try:
        for b in gen_stream(spec, cfg, rng, 2):
            b.apply(tgt)
        if not chk("a later update() of the target"):
            return
        tgt.merge_state([srcs[0]])
        if not chk("merging a source a second time"):
            return
        tgt.compute() if not (spec.name == "FrechetAudioDistance" and (tgt.pred_n < 2 or tgt.target_n < 2)) else None
        if not chk("compute() of the target"):
            return
        tgt.reset()
        chk("reset() of the target")
    except Exception as e:  # noqa: BLE001
        rep.notes.append(f"{spec.name}: later operation raised {e!r}"[:160])


def check_compute(rep, rng, spec, cfg0):
    cfg = fresh_cfg(cfg0)
    m = fed(spec, cfg, gen_stream(spec, cfg, rng, rng.choice([0, 1, 2, 3])))
    s0 = snapshot(m)
    plain0 = {k: repr(v) for k, v in vars(m).items() if not isinstance(v, (torch.Tensor, list, dict)) and k != "model"}
    o1 = observe(m); s1 = snapshot(m); o2 = observe(m); s2 = snapshot(m)
    rep.case(nontrivial_key=(spec.name, repr(public_cfg(cfg)), "compute", ckey(s0)))
    ctx = {"class": spec.name, "cfg": public_cfg(cfg), "first": obs_json(o1), "second": obs_json(o2)}
    if not snap_equal(s0, s1) or not snap_equal(s1, s2):
        rep.violation(f"C11|{spec.name}.compute|state_dict-changed", f"{spec.name}{public_cfg(cfg)}: compute() changed state_dict()", ctx)
    elif not same_obs(o1, o2, 0.0):
        rep.violation(f"C11|{spec.name}.compute|not-idempotent", f"{spec.name}{public_cfg(cfg)}: compute() twice: {obs_json(o1)} then {obs_json(o2)}", ctx)
    elif plain0 != {k: repr(v) for k, v in vars(m).items() if k in plain0}:
        rep.violation(f"C11|{spec.name}.compute|attribute-changed", f"{spec.name}{public_cfg(cfg)}: compute() changed a plain attribute", ctx)


def check_args(rep, rng, spec, cfg0):
    cfg = fresh_cfg(cfg0)
    m = fed(spec, cfg, gen_stream(spec, cfg, rng, rng.choice([0, 1])))
    b = spec.gen(rng, cfg, rng.choice(spec.sizes))
    if rng.random() < 0.5:
        b = noncontig(b, rng)
    before = [(t.clone(), t.stride(), t.shape) for t in tens(b)]
    import copy
    nb = copy.deepcopy([a for a in b.args if not isinstance(a, torch.Tensor)])
    b.apply(m)
    rep.case(nontrivial_key=(spec.name, repr(public_cfg(cfg)), "args", ckey(before)))
    for t, (c, st, sh) in zip(tens(b), before):
        if t.shape != sh or t.stride() != st or not torch.equal(t.to(torch.float64).nan_to_num(), c.to(torch.float64).nan_to_num()):
            rep.violation(f"C11|{spec.name}.update|argument-modified", f"{spec.name}{public_cfg(cfg)}: update() modified a caller tensor", {"class": spec.name, "cfg": public_cfg(cfg), "batch": b.describe()})
            return
    if nb != [a for a in b.args if not isinstance(a, torch.Tensor)]:
        rep.violation(f"C11|{spec.name}.update|argument-modified", f"{spec.name}: update() modified a caller sequence", {"class": spec.name, "batch": b.describe()})
    if spec.functional is not None and spec.cat is not None:
        b2 = noncontig(spec.gen(rng, cfg, rng.choice(spec.sizes)), rng)
        before = [t.clone() for t in tens(b2)]
        call_real(lambda: spec.functional(cfg, b2))
        for t, c in zip(tens(b2), before):
            if not torch.equal(t.to(torch.float64).nan_to_num(), c.to(torch.float64).nan_to_num()):
                rep.violation(f"C11|{spec.name}|functional|argument-modified", f"functional twin of {spec.name} modified a caller tensor", {"class": spec.name, "cfg": public_cfg(cfg), "batch": b2.describe()})
                return


def sweep(rep, rng, reps, deadline):
    for spec in SPECS:
        for cfg0 in spec.configs:
            for _ in range(reps):
                if time.time() > deadline:
                    rep.notes.append("budget exhausted"); return
                check_merge(rep, rng, spec, cfg0)
                check_compute(rep, rng, spec, cfg0)
                check_args(rep, rng, spec, cfg0)


def run(rep: Report):
    sweep(rep, Rng(rep.seed * 1000003 + 11), 4 if rep.tier == "quick" else 40, time.time() + budget(rep.tier, 60, 800))


def search(rep: Report):
    sweep(rep, Rng(rep.seed * 5 + 1111), 20, time.time() + 120)
