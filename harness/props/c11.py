"""C11 — non-interference: merge_state leaves sources unchanged (then and after later
operations on the target), compute() is idempotent and does not change state_dict(),
update()/functionals do not modify their arguments.
(T) effects translator: per class/method alias facts observed on the real objects
(storage sharing between target and sources after merge, state rebinding in compute)
regenerated into lean/TE/Gen/Effects.lean and decided there.  (D) real vs real snapshots."""
from __future__ import annotations
import time
import torch
from ..common import Rng, Report, budget, call_real, ckey
from ..registry import SPECS, Spec, fresh_cfg, public_cfg, new_metric, cat_batches, Batch
from ..engine import observe, same_obs, obs_json, snapshot, snap_equal, fed, gen_stream
from ..translators import effects as effects_tr

LEVEL = "proof"
RULE = ("merge layouts (fresh / updated target, 1–3 sources incl. empty ones, a source merged again later, target updated and merged "
        "after the merge) with bitwise snapshots (state_dict + compute) of every source before/after; compute() twice with snapshots; "
        "argument tensors (contiguous, non-contiguous views, expanded) hashed before/after update() and functional calls; "
        "non-trivial = layout with ≥ 1 non-empty source")
MODELLED = ["device moves", "sync (covered by C02's check on the simulated transport)"]
ASSUMPTIONS = []
TRUSTED_EXTRA = ["harness/translators/effects.py (runtime storage-identity observation) producing lean/TE/Gen/Effects.lean"]


def translate(rep: Report):
    effects_tr.generate(rep)


def full_snap(m):
    return (snapshot(m), obs_json(observe(m)))


def noncontig(b: Batch, rng: Rng) -> Batch:
    """same values, but tensors are non-contiguous views of larger buffers."""
    def nc(t):
        if not isinstance(t, torch.Tensor) or t.ndim == 0 or t.numel() == 0:
            return t
        big = torch.zeros(*t.shape[:-1], t.shape[-1] * 2, dtype=t.dtype)
        big[..., ::2] = t
        return big[..., ::2]
    return Batch(tuple(nc(a) for a in b.args), {k: nc(v) for k, v in b.kwargs.items()})


def tens(b: Batch):
    return [a for a in list(b.args) + list(b.kwargs.values()) if isinstance(a, torch.Tensor)]


def would_crash(spec, m):
    return spec.name == "FrechetAudioDistance" and (m.pred_n < 2 or m.target_n < 2)


def merge_oracle(spec: Spec, cfg: dict, src_bs, tgt_bs, later_bs, notes=None):
    """sources fed `src_bs[i]`, target fed `tgt_bs`; bitwise snapshots (state_dict + compute) of every source before the merge
    and after each later stage (merge, `later_bs` updates of the target, a second merge of source 0, compute, reset).
    returns (violation | None, nonempty, before, target snapshot); violation = (signature, what, replay dict)."""
    srcs = [fed(spec, cfg, bs) for bs in src_bs]
    tgt = fed(spec, cfg, tgt_bs)
    before = [full_snap(s) for s in srcs]
    empty = full_snap(new_metric(spec, cfg))[0]
    nonempty = sum(1 for b in before if b[0] != empty)
    tsnap = full_snap(tgt)

    def chk(stage):
        for i, s in enumerate(srcs):
            now = full_snap(s)
            if not snap_equal(before[i], now):
                return (f"C11|{spec.name}.merge_state|source-changed",
                        f"{spec.name}{public_cfg(cfg)}: source {i} changed after {stage}: before {str(before[i])[:160]} now {str(now)[:160]}",
                        {"check": "merge", "class": spec.name, "cfg": public_cfg(cfg), "sources": [[b.describe() for b in bs] for bs in src_bs],
                         "target": [b.describe() for b in tgt_bs], "later": [b.describe() for b in later_bs], "stage": stage, "source": i})
        return None
    tgt.merge_state(srcs)
    v = chk("merge_state(sources)")
    if v:
        return v, nonempty, before, tsnap
    try:
        for b in later_bs:
            b.apply(tgt)
        v = chk("a later update() of the target")
        if v:
            return v, nonempty, before, tsnap
        tgt.merge_state([srcs[0]])
        v = chk("merging a source a second time")
        if v:
            return v, nonempty, before, tsnap
        tgt.compute() if not would_crash(spec, tgt) else None
        v = chk("compute() of the target")
        if v:
            return v, nonempty, before, tsnap
        tgt.reset()
        v = chk("reset() of the target")
    except Exception as e:  # noqa: BLE001
        if notes is not None:
            notes.append(f"{spec.name}: later operation raised {e!r}"[:160])
        v = None
    return v, nonempty, before, tsnap


def check_merge(rep, rng, spec, cfg0):
    cfg = fresh_cfg(cfg0)
    k = rng.randint(1, 3)
    src_bs = [gen_stream(spec, cfg, rng, rng.randint(0, 2)) for _ in range(k)]
    tgt_bs = gen_stream(spec, cfg, rng, rng.choice([0, 0, 1, 2]))
    later_bs = gen_stream(spec, cfg, rng, 2)
    v, nonempty, before, tsnap = merge_oracle(spec, cfg, src_bs, tgt_bs, later_bs, rep.notes)
    rep.count(f"class:{spec.name}")
    rep.case(nontrivial_key=(spec.name, repr(public_cfg(cfg)), "merge", ckey(before), ckey(tsnap)) if nonempty else None,
             sample={"class": spec.name, "cfg": public_cfg(cfg), "sources": k, "kind": "merge-noninterference"} if rep.evaluations % 409 == 0 else None)
    if v:
        rep.violation(*v)


def compute_oracle(spec: Spec, cfg: dict, bs):
    """compute() twice on a metric fed `bs`: state_dict(), the value and the plain attributes must not move.
    returns (violation | None, snapshot before)."""
    m = fed(spec, cfg, bs)
    s0 = snapshot(m)
    plain0 = {k: repr(v) for k, v in vars(m).items() if not isinstance(v, (torch.Tensor, list, dict)) and k != "model"}
    o1 = observe(m); s1 = snapshot(m); o2 = observe(m); s2 = snapshot(m)
    ctx = {"check": "compute", "class": spec.name, "cfg": public_cfg(cfg), "batches": [b.describe() for b in bs], "first": obs_json(o1), "second": obs_json(o2)}
    if not snap_equal(s0, s1) or not snap_equal(s1, s2):
        return (f"C11|{spec.name}.compute|state_dict-changed", f"{spec.name}{public_cfg(cfg)}: compute() changed state_dict()", ctx), s0
    if not same_obs(o1, o2, 0.0):
        return (f"C11|{spec.name}.compute|not-idempotent", f"{spec.name}{public_cfg(cfg)}: compute() twice: {obs_json(o1)} then {obs_json(o2)}", ctx), s0
    if plain0 != {k: repr(v) for k, v in vars(m).items() if k in plain0}:
        return (f"C11|{spec.name}.compute|attribute-changed", f"{spec.name}{public_cfg(cfg)}: compute() changed a plain attribute", ctx), s0
    return None, s0


def check_compute(rep, rng, spec, cfg0):
    cfg = fresh_cfg(cfg0)
    bs = gen_stream(spec, cfg, rng, rng.choice([0, 1, 2, 3]))
    v, s0 = compute_oracle(spec, cfg, bs)
    rep.case(nontrivial_key=(spec.name, repr(public_cfg(cfg)), "compute", ckey(s0)))
    if v:
        rep.violation(*v)


def args_update_oracle(spec: Spec, cfg: dict, pre_bs, b: Batch, nc: bool, post_bs=()):
    """update(b) on a metric fed `pre_bs` (`nc`: the tensors of b are non-contiguous views): shape, stride and values of the
    caller's tensors and the caller's sequences must not move.  returns (violation | None, stop, picture of the arguments before)."""
    import copy
    m = fed(spec, cfg, pre_bs)
    ctx = {"check": "args-update", "class": spec.name, "cfg": public_cfg(cfg), "pre": [x.describe() for x in pre_bs], "batch": b.describe(), "noncontig": nc,
           "post": [x.describe() for x in post_bs]}
    if nc:
        b = noncontig(b, None)
    before = [(t.clone(), t.stride(), t.shape) for t in tens(b)]
    nb = copy.deepcopy([a for a in b.args if not isinstance(a, torch.Tensor)])
    b.apply(m)
    for t, (c, st, sh) in zip(tens(b), before):
        if t.shape != sh or t.stride() != st or not torch.equal(t.to(torch.float64).nan_to_num(), c.to(torch.float64).nan_to_num()):
            return (f"C11|{spec.name}.update|argument-modified", f"{spec.name}{public_cfg(cfg)}: update() modified a caller tensor", ctx), True, before
    if nb != [a for a in b.args if not isinstance(a, torch.Tensor)]:
        return (f"C11|{spec.name}.update|argument-modified", f"{spec.name}: update() modified a caller sequence", ctx), False, before
    # the caller's tensors must also survive what happens to the metric LATER (a state that adopted an argument by
    # reference is written through by the next in-place operation): further updates, then compute()
    for x in post_bs:
        try:
            x.apply(m)
        except Exception:  # noqa: BLE001
            break
    try:
        m.compute()
    except Exception:  # noqa: BLE001
        pass
    for t, (c, st, sh) in zip(tens(b), before):
        if t.shape != sh or t.stride() != st or not torch.equal(t.to(torch.float64).nan_to_num(), c.to(torch.float64).nan_to_num()):
            return (f"C11|{spec.name}.update|argument-modified-by-later-operation",
                    f"{spec.name}{public_cfg(cfg)}: a tensor passed to update() was modified by later update()/compute() calls on the metric", ctx), True, before
    return None, False, before


def args_functional_oracle(spec: Spec, cfg: dict, b2: Batch):
    """the functional twin on non-contiguous views of `b2`: the caller's tensors must not move.  violation | None."""
    ctx = {"check": "args-functional", "class": spec.name, "cfg": public_cfg(cfg), "batch": b2.describe(), "noncontig": True}
    import copy
    b2 = noncontig(b2, None)
    before = [t.clone() for t in tens(b2)]
    nb = copy.deepcopy([a for a in b2.args if not isinstance(a, torch.Tensor)])
    call_real(lambda: spec.functional(cfg, b2))
    for t, c in zip(tens(b2), before):
        if not torch.equal(t.to(torch.float64).nan_to_num(), c.to(torch.float64).nan_to_num()):
            return (f"C11|{spec.name}|functional|argument-modified", f"functional twin of {spec.name} modified a caller tensor", ctx)
    if nb != [a for a in b2.args if not isinstance(a, torch.Tensor)]:
        return (f"C11|{spec.name}|functional|argument-modified", f"functional twin of {spec.name} modified a caller sequence", ctx)
    return None


def short_forms(b: Batch, rng) -> Batch:
    """documented short spellings of sequence arguments: a reference list with one entry may be given as the bare
    string (BLEU: `target: Sequence[str | Sequence[str]]`) — the caller's list must survive the call as it was."""
    def conv(a):
        if isinstance(a, list) and a and all(isinstance(x, list) and all(isinstance(y, str) for y in x) for x in a):
            return [x[0] if len(x) == 1 and rng.random() < 0.7 else x for x in a]
        return a
    return Batch(tuple(conv(a) for a in b.args), dict(b.kwargs))


def check_args(rep, rng, spec, cfg0):
    cfg = fresh_cfg(cfg0)
    pre_bs = gen_stream(spec, cfg, rng, rng.choice([0, 1]))
    b = short_forms(spec.gen(rng, cfg, rng.choice(spec.sizes)), rng)
    nc = rng.random() < 0.5
    post_bs = gen_stream(spec, cfg, rng, rng.choice([1, 2]))
    v, stop, before = args_update_oracle(spec, cfg, pre_bs, b, nc, post_bs)
    rep.case(nontrivial_key=(spec.name, repr(public_cfg(cfg)), "args", ckey(before)))
    if v:
        rep.violation(*v)
        if stop:
            return
    if spec.functional is not None and spec.cat is not None:
        v = args_functional_oracle(spec, cfg, short_forms(spec.gen(rng, cfg, rng.choice(spec.sizes)), rng))
        if v:
            rep.violation(*v)


def sweep(rep, rng, reps, deadline):
    for spec in SPECS:
        for cfg0 in spec.configs:
            for _ in range(reps):
                if time.time() > deadline:
                    rep.notes.append("budget exhausted"); return
                check_merge(rep, rng, spec, cfg0)
                check_compute(rep, rng, spec, cfg0)
                check_args(rep, rng, spec, cfg0)


def run(rep: Report):
    sweep(rep, Rng(rep.seed * 1000003 + 11), 12 if rep.tier == "quick" else 40, time.time() + budget(rep.tier, 60, 800))


def search(rep: Report):
    sweep(rep, Rng(rep.seed * 5 + 1111), 20, time.time() + 120)


# ------------------------------------------------------------------ replay

def replay(payload) -> bool:
    """True iff the property holds on the recorded case; `check` names the sub-check that fired (merge / compute /
    args-update / args-functional) and the same oracle function the sweep uses is run on the rebuilt batches."""
    rp = payload.get("replay") or {}
    if payload.get("kind", "failing-input") != "failing-input" or "class" not in rp:
        raise ValueError(f"nothing to replay: payload kind {payload.get('kind')!r} carries no concrete input")
    from ..registry import BY_NAME
    spec, cfg = BY_NAME[rp["class"]], dict(rp.get("cfg") or {})
    bl = lambda ds: [Batch.from_describe(d) for d in ds]  # noqa: E731
    check = rp.get("check")
    if check == "merge" and isinstance(rp.get("sources"), list):
        notes: list = []
        v = merge_oracle(spec, cfg, [bl(x) for x in rp["sources"]], bl(rp["target"]), bl(rp["later"]), notes)[0]
        for n in notes:
            print("replay: note:", n)
    elif check == "compute" and "batches" in rp:
        v = compute_oracle(spec, cfg, bl(rp["batches"]))[0]
    elif check == "args-update" and "batch" in rp:
        v = args_update_oracle(spec, cfg, bl(rp.get("pre") or []), Batch.from_describe(rp["batch"]), bool(rp.get("noncontig")), bl(rp.get("post") or []))[0]
    elif check == "args-functional" and "batch" in rp:
        if spec.functional is None:
            raise ValueError(f"nothing to replay: {spec.name} has no functional twin")
        v = args_functional_oracle(spec, cfg, Batch.from_describe(rp["batch"]))
    else:
        raise ValueError(f"nothing to replay: the payload does not record the inputs of a C11 sub-check (check={check!r}; "
                         "payloads written before the batches were recorded cannot be rebuilt)")
    if v is not None:
        print(f"replay: {v[0]}: {v[1]}"[:600])
    return v is None
