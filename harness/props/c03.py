"""C03 — class metric = functional metric on the concatenated data; every class is
constructible with its default arguments.  (D) real class vs real functional, all registry
configurations, random batchings; modelled classes also vs the Lean model (class program
vs `fn` on the concatenation)."""
from __future__ import annotations
import inspect, time
import torch
from ..common import Rng, Report, budget, call_real, flat_out, dec_out, enc_args, run_driver, outcomes_agree
from ..registry import SPECS, Spec, fresh_cfg, public_cfg, cat_batches, new_metric, finding_class, fine_variant, f64_variant, bool_label_variant
from ..engine import observe, same_obs, obs_json, fed, gen_stream
import torcheval.metrics as M

LEVEL = "proof"
RULE = ("every class/functional pair of the registry × every listed configuration × random streams of 1–5 grid-valued batches; "
        "non-trivial = distinct (class, config, stream) with ≥ 2 batches; plus construction of every exported class with no arguments")
MODELLED = ["result dtype width and a leading num_tasks dimension are presentation (shapes are compared after flattening)"]
ASSUMPTIONS = ["functional value defined (non-zero denominators): NaN/undefined results are compared as NaN = NaN"]


def default_constructible():
    out = []
    for name in dir(M):
        c = getattr(M, name)
        if not (inspect.isclass(c) and issubclass(c, M.Metric) and c is not M.Metric):
            continue
        sig = inspect.signature(c.__init__)
        required = [p for p in list(sig.parameters.values())[1:] if p.default is inspect.Parameter.empty
                    and p.kind in (p.POSITIONAL_OR_KEYWORD, p.KEYWORD_ONLY)]
        if required or name in ("FrechetInceptionDistance", "StructuralSimilarity"):
            continue   # FID/SSIM need torchvision/skimage networks (out of scope, DESIGN §9)
        out.append((name, c))
    return out


def class_vs_functional(rep, spec: Spec, cfg: dict, bs, tol=None):
    """the property's oracle on one stream of batches: the real class fed `bs` vs the real functional on the concatenation.
    "skip" when the case is outside the comparison, None when the property holds, else (signature, what, replay dict).
    Used by the sweep and by replay()."""
    cb = cat_batches(spec, bs)
    if cb is None or (spec.kind == "retrieval" and cfg.get("num_queries", 1) != 1):
        return "skip"
    cls_out = observe(fed(spec, cfg, bs))
    fr = call_real(lambda: spec.functional(cfg, cb))
    fn_out = ("ok", fr[1]) if fr[0] == "ok" else ("err", fr[1], fr[2])
    if fn_out[0] == "ok" and any((~torch.isfinite(t.to(torch.float64))).any() for t in fn_out[1]):
        # functional value undefined (zero denominator) somewhere: the property exempts it; compare the defined entries only
        if rep is not None:
            rep.count("functional-undefined")
        if cls_out[0] != "ok" or len(cls_out[1]) != len(fn_out[1]) or any(a.numel() != b.numel() for a, b in zip(cls_out[1], fn_out[1])):
            return None
        masked_c, masked_f = [], []
        for a, b in zip(cls_out[1], fn_out[1]):
            m = torch.isfinite(b.reshape(-1).to(torch.float64))
            masked_c.append(a.reshape(-1)[m]); masked_f.append(b.reshape(-1)[m])
        cls_out, fn_out = ("ok", masked_c), ("ok", masked_f)
    if not same_obs(cls_out, fn_out, spec.tol if tol is None else tol, shape=False):
        return (f"C03|{spec.name}{finding_class(spec, cfg)}|class-differs-from-functional",
                f"{spec.name}{public_cfg(cfg)}: class gives {obs_json(cls_out)}, functional on the concatenation gives {obs_json(fn_out)}",
                {"class": spec.name, "cfg": public_cfg(cfg), "batches": [b.describe() for b in bs],
                 "class_result": obs_json(cls_out), "functional_result": obs_json(fn_out)})
    return None


# classes whose functional twin is float64-accurate on float64 data and whose states follow the dtype of the data: on float64 streams the
# class must be float64-accurate too (an accumulator that silently stays float32 loses 8 digits)
# (click_through_rate / weighted_calibration compute their statistics in float32 by design — recorded under C19 — and stay at spec.tol)
F64_TOL = {"PeakSignalNoiseRatio": 1e-11, "Mean": 1e-11, "Sum": 1e-11}


def sweep(rep: Report, rng: Rng, reps: int, deadline: float):
    for spec in SPECS:
        if spec.functional is None or spec.cat is None or spec.kind == "window":
            continue
        for cfg0 in spec.configs:
            for _ in range(reps):
                if time.time() > deadline:
                    rep.notes.append("budget exhausted"); return
                cfg = fresh_cfg(cfg0)
                bs = gen_stream(spec, cfg, rng, rng.randint(1, 5))
                # storage-dtype variants of the same stream (class and functional see the same tensors): float64 data split below
                # float32 resolution / off the float32 grid — a class that caches or accumulates in another precision than its
                # functional twin shows as a changed tie structure or value
                mode = rng.choice(["f32", "f32", "f32", "f64-fine", "f64-off-grid", "bool-labels"])
                rep.count(f"dtype-mode:{mode}")
                if mode == "f64-fine":
                    bs = [fine_variant(b, salt=k + 1) for k, b in enumerate(bs)]
                elif mode == "f64-off-grid":
                    bs = [f64_variant(b, salt=k + 1) for k, b in enumerate(bs)]
                elif mode == "bool-labels":
                    vb = [bool_label_variant(b) for b in bs]
                    if all(v is not None for v in vb):
                        try:
                            fed(spec, cfg, vb)           # a class that rejects bool labels (index kernels) is out of this variant
                            bs = vb
                            rep.count("bool-labels:applied")
                        except Exception:  # noqa: BLE001
                            rep.count("bool-labels:rejected-by-the-class")
                if cat_batches(spec, bs) is None or (spec.kind == "retrieval" and cfg.get("num_queries", 1) != 1):
                    continue
                rep.count(f"class:{spec.name}")
                rep.case(nontrivial_key=(spec.name, repr(public_cfg(cfg)), repr([b.describe() for b in bs])) if len(bs) >= 2 else None,
                         sample={"class": spec.name, "cfg": public_cfg(cfg), "batches": [b.describe() for b in bs]} if rep.evaluations % 307 == 0 else None)
                v = class_vs_functional(rep, spec, cfg, bs, tol=F64_TOL.get(spec.name) if mode.startswith("f64") else None)
                if v not in (None, "skip"):
                    if mode.startswith("f64") and spec.name in F64_TOL:
                        v = (v[0].replace("class-differs-from-functional", "float64-data|class-differs-from-functional"), v[1], {**v[2], "tolerance": F64_TOL[spec.name]})
                    rep.violation(*v)


def run(rep: Report):
    for name, c in default_constructible():
        rep.case(nontrivial_key=("ctor", name))
        try:
            c()
        except Exception as e:  # noqa: BLE001
            rep.violation(f"C03|{name}|default-constructor-raises", f"{name}() raises {e!r}", {"class": name, "error": repr(e)})
    rng = Rng(rep.seed * 1000003 + 3)
    sweep(rep, rng, 30 if rep.tier == "quick" else 120, time.time() + budget(rep.tier, 50, 700))


def search(rep: Report):
    sweep(rep, Rng(rep.seed * 13 + 303), 60, time.time() + 120)


# ------------------------------------------------------------------ constructor defaults (appended; DESIGN §6 C03 "Constructors")
# (T) harness/translators/defaults.py → lean/TE/Gen/Defaults.lean; theorems in lean/TE/Props/C03_Defaults.lean.
# (D) every class of the table is constructed for real with no arguments (or only the required ones, at the
#     smallest documented-valid value) and compared with the Lean verdict on the same defaults.
from ..translators import defaults as defaults_tr  # noqa: E402

TRUSTED_EXTRA = ["harness/translators/defaults.py (AST of every __init__ + one instrumented constructor run per class) producing "
                 "lean/TE/Gen/Defaults.lean; harness/translators/shapes.py for the param checks it applies"]


def translate(rep: Report):
    defaults_tr.generate(rep)


def defaults_crosscheck(rep: Report):
    rows = defaults_tr.analyse()
    out = run_driver(["fn ctor.verdicts"])[0]
    lean: dict = {}
    if out.startswith("ok"):
        for item in out[2:].strip().split(";"):
            if item:
                c, h, v = item.split("|")
                lean.setdefault(c, []).append((h, v))
    else:
        rep.broke("defaults:driver", f"ctor.verdicts request failed: {out[:120]}", {})
    for r in rows:
        cls = dict(defaults_tr.classes())[r.name]
        err = None
        try:
            cls(**r.ctor_kwargs)
        except Exception as e:  # noqa: BLE001
            err = e
        rep.count("ctor:with-param-check" if r.terms else "ctor:no-param-check")
        rep.case(nontrivial_key=("ctor-defaults", r.name, bool(r.ctor_kwargs)),
                 sample={"class": r.name, "kwargs": r.ctor_kwargs, "lean": lean.get(r.name, []), "real": repr(err)[:80] if err else "ok"} if r.name in ("MulticlassBinnedAUPRC", "TopKMultilabelAccuracy") else None)
        verdicts = lean.get(r.name, [])
        if len(verdicts) != len(r.terms):
            rep.broke(f"defaults:{r.name}", f"Lean table has {len(verdicts)} verdicts for {r.name}, the translator found {len(r.terms)} param-check calls "
                                            "(TE/Gen/Defaults.lean is stale?)", {"class": r.name})
        lean_ok = all(v == "ok" for _h, v in verdicts)
        if err is not None:
            rep.violation(f"C03|{r.name}|default-construction|raises",
                          f"{r.name}({', '.join(f'{k}={v!r}' for k, v in r.ctor_kwargs.items())}) raises {err!r} on its own default arguments",
                          {"class": r.name, "kwargs": r.ctor_kwargs, "error": repr(err)})
            if lean_ok and isinstance(err, (ValueError, TypeError)) and r.terms:
                rep.broke(f"defaults:{r.name}", f"Lean verdict on the defaults is ok for every param check, the real constructor raises {err!r}", {"class": r.name})
        elif not lean_ok:
            rep.broke(f"defaults:{r.name}", f"real constructor accepts its defaults, Lean verdicts: {verdicts}", {"class": r.name, "kwargs": r.ctor_kwargs})
        for hn, term, note in r.terms:
            if note:
                rep.notes.append(f"defaults: {r.name}/{hn}: {note}")


_run_streams = run


def run(rep: Report):  # noqa: F811
    defaults_crosscheck(rep)
    _run_streams(rep)


# ------------------------------------------------------------------ replay

def replay(payload) -> bool:
    """True iff the property holds on the recorded case: a stream of batches (class vs functional on the concatenation,
    judged by `class_vs_functional`, the sweep's oracle) or a default construction (the constructor call is repeated)."""
    rp = payload.get("replay") or {}
    if payload.get("kind", "failing-input") != "failing-input" or "class" not in rp:
        raise ValueError(f"nothing to replay: payload kind {payload.get('kind')!r} carries no concrete input")
    name = rp["class"]
    if "batches" in rp:
        from ..registry import BY_NAME, Batch
        spec = BY_NAME[name]
        v = class_vs_functional(None, spec, dict(rp["cfg"]), [Batch.from_describe(d) for d in rp["batches"]])
        if v == "skip":
            raise ValueError("nothing to replay: the recorded batches are not concatenable for this class/configuration")
        if v is not None:
            print(f"replay: {v[0]}: {v[1]}"[:600])
        return v is None
    # default construction: {"class", "error"} (no arguments) or {"class", "kwargs", "error"} (required ones at their smallest valid value)
    cls = dict(defaults_tr.classes()).get(name) or getattr(M, name)
    try:
        cls(**(rp.get("kwargs") or {}))
    except Exception as e:  # noqa: BLE001
        print(f"replay: {name}({rp.get('kwargs') or {}}) raises {e!r}"[:300])
        return False
    return True
