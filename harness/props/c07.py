"""C07 — regression, aggregation, statistical and image metrics equal their formulas.

Correspondence (runs on every check):
  * `functional`  real functional vs the exact-rational Lean model through the driver.  Lengths 1..6 on small
    integer/eighths grids (exhaustive where the product space is small: n = 1, 2, repeated values, constant
    targets, unequal sample counts for Wasserstein), 1-D and 2-D, float32 and float64, weights in {1/2,1,2,3};
    random dyadic and genuinely random float inputs up to length 256.  Tolerance derives from the dtype
    (float32 2e-5, float64 1e-9) relative to the case's Σ|terms| / conditioning (computed exactly with Fractions).
  * transcendental functionals: PSNR is compared with `10*log10` of the model's *exact argument*; normalized
    entropy and perplexity with the model evaluated on IEEE doubles (the driver labels these as approximations).
  * `class`       programs (updates on several instances, merge_state, compute) on the real classes vs the
    Lean class models; Covariance / Max / Min additionally on 1..3-row batches, d in {1,2,3}.
  * `spec`        the Lean `spec.*` oracles (TE/Spec/Agg.lean evaluated) vs the independent Python `Fraction`
    oracle of each definition below: the textbook the theorems talk about is the textbook tested here.
  * `rounding-model`  the clause "to within rounding of the working precision" is a THEOREM in the standard model of floating-point
    arithmetic (TE/Props/C07_Round.lean: error of a sum over ANY tree with ANY per-node rounding, of sums of rounded terms, of
    ratios of such sums, of the class accumulators).  The stream feeds random and adversarial float32 / float64 inputs (alternating
    signs, wide dynamic range, absorption, near-cancellation; lengths 1..4096) to the real torch.sum / sum / mean / Sum / Mean /
    mean_squared_error / click_through_rate / weighted_calibration and checks the PROVED bound against exact Fraction references;
    this measures the one assumption that ties the theorems to the code (torch's CPU + − × ÷ are correctly rounded IEEE operations
    applied in some tree order).  `tolerance()` of mean / sum / mean_squared_error and the tiny-weight MSE cases of the conditioning
    stream take their tolerance from those theorems (`proved_tolerance`, `rb_*`), not from a chosen constant.
Every real-vs-model disagreement is classified with the Python oracle: real != definition => violation,
otherwise broken correspondence.
"""
from __future__ import annotations
import itertools, math, time
from fractions import Fraction as Fr
import torch
from ..common import (Rng, Report, call_real, dec_out, enc_args, enc_tensor, run_driver, budget, flat_out, err_kind, outcomes_agree)
import torcheval.metrics as M
import torcheval.metrics.functional as F
from torcheval.metrics.functional.statistical.wasserstein import wasserstein_1d
from torcheval.metrics.functional.frechet import gaussian_frechet_distance

LEVEL = "proof"
RULE = ("functional / class call on grid-valued (multiples of 1/8, exhaustive for small lengths incl. n=1,2, repeated values, constant "
        "targets, unequal sample counts), dyadic-random and float-random inputs of length 1..256, 1-D and 2-D, float32 and float64, "
        "weights in {1/2,1,2,3}; non-trivial = distinct (function, options, input) whose result is a finite number depending on "
        "at least two different sample values")
MODELLED = ["IEEE rounding: for sums, dot products, squared errors and ratios of such sums (mean, sum, Mean, Sum, mean_squared_error, "
            "click_through_rate, weighted_calibration) 'within rounding of the working precision' is proved in the STANDARD MODEL "
            "(|rnd x - x| <= u|x|, any summation tree, any per-node rounding: TE/Props/C07_Round.lean) and the tolerance is the proved bound; "
            "that torch's CPU kernels are such operations in some tree order (no overflow / underflow, no fused or extended-precision "
            "shortcuts that would be LESS accurate) is measured by the rounding-model stream, not proved",
            "the other metrics (r2_score, covariance, wasserstein, auc) are compared with tolerance 2e-5 (float32) / 1e-9 (float64) relative "
            "to sum|terms| or the condition number: sampled, not proved; the raw-moments total sum of squares of r2_score provably has NO "
            "rounding bound relative to its value (TE.C07R.tss_raw_witness) - the recorded near-constant-target findings",
            "log / exp / log10 / sqrt and linalg.eigvals carry no correctly-rounded guarantee: outside the rounding model",
            "log / exp / log10 are function parameters of the models; end values of PSNR, normalized entropy and perplexity are "
            "evaluated on IEEE doubles by the driver",
            "gaussian_frechet_distance: the eigenvalue term is not modelled (only a + b and the FAD moment bookkeeping)"]
ASSUMPTIONS = ["torch's + - * / on CPU float32 / float64 tensors are correctly rounded IEEE operations (u = 2^-24 / 2^-53) and torch.sum adds "
               "in SOME binary-tree order; no intermediate overflow / underflow (checked on every run by the rounding-model stream)",
               "one stream keeps one arity (1-D or (n,d)) for MeanSquaredError / R2Score",
               "sample_weight of mean_squared_error is 1-D (the (n,1) broadcast is C18's subject)",
               "perplexity labels that are not ignored are non-negative",
               "signed zeros are not distinguished"]

TOL = {torch.float32: 2e-5, torch.float64: 1e-9}
G3 = [Fr(-1), Fr(1, 8), Fr(2)]
G8 = [Fr(i, 8) for i in range(-8, 17)]
W4 = [Fr(1, 2), Fr(1), Fr(2), Fr(3)]
NAN = math.nan


def T(vals, dtype, shape=None):
    t = torch.tensor([float(v) for v in vals], dtype=dtype)
    return t.reshape(shape) if shape is not None else t


def fr(t: torch.Tensor):
    return [Fr(v) for v in t.reshape(-1).tolist()]


def colsof(t: torch.Tensor):
    """1-D -> one column, (n,d) -> d columns (lists of Fractions)."""
    if t.ndim == 1:
        return [fr(t)]
    return [fr(t[:, j]) for j in range(t.shape[1])]

# ------------------------------------------------------------------ python oracle (definitions, exact)

def xdiv(a, b):
    if b == 0:
        return NAN if a == 0 else (math.inf if a > 0 else -math.inf)
    return Fr(a) / Fr(b)


def o_mean(kw):
    x = fr(kw["input"]); w = kw.get("weight", 1.0)
    ws = fr(w) if isinstance(w, torch.Tensor) else [Fr(w)] * len(x)
    return [xdiv(sum(a * b for a, b in zip(ws, x)), sum(ws))], sum(abs(a * b) for a, b in zip(ws, x)) / max(abs(sum(ws)), Fr(1, 10**9)) if sum(ws) else 1


def o_sum(kw):
    x = fr(kw["input"]); w = kw.get("weight", 1.0)
    ws = fr(w) if isinstance(w, torch.Tensor) else [Fr(w)] * len(x)
    return [sum(a * b for a, b in zip(ws, x))], sum(abs(a * b) for a, b in zip(ws, x))


def trapz(pts):
    return sum((q[0] - p[0]) * (p[1] + q[1]) / 2 for p, q in zip(pts, pts[1:])), sum(abs((q[0] - p[0]) * (p[1] + q[1]) / 2) for p, q in zip(pts, pts[1:]))


def o_auc(kw):
    x, y = kw["x"], kw["y"]
    rows = [(fr(x), fr(y))] if x.ndim == 1 else [(fr(x[i]), fr(y[i])) for i in range(x.shape[0])]
    out, sc = [], Fr(0)
    for xs, ys in rows:
        pts = list(zip(xs, ys))
        if kw.get("reorder", False):
            pts = sorted(pts, key=lambda p: p[0])       # stable
        v, s = trapz(pts)
        out.append(v); sc = max(sc, s)
    return out, sc


def o_mse(kw):
    xc, tc = colsof(kw["input"]), colsof(kw["target"])
    n = kw["target"].shape[0]
    w = kw.get("sample_weight")
    ws = fr(w) if w is not None else [Fr(1)] * n
    raw = [xdiv(sum(wk * (t - x) ** 2 for wk, x, t in zip(ws, xs, ts)), sum(ws)) for xs, ts in zip(xc, tc)]
    sc = max([Fr(1)] + [r for r in raw if isinstance(r, Fr)])
    if kw.get("multioutput", "uniform_average") == "raw_values":
        return raw, sc
    if any(not isinstance(r, Fr) for r in raw):
        return [NAN], sc
    return [sum(raw) / len(raw)], sc


def r2_parts(xs, ys):
    n = len(ys); mean = sum(ys) / n
    return sum((y - a) ** 2 for a, y in zip(xs, ys)), sum((y - mean) ** 2 for y in ys), sum(y * y for y in ys)


def o_r2(kw):
    """returns (values | None when a total sum of squares vanishes, condition number)."""
    xc, tc = colsof(kw["input"]), colsof(kw["target"])
    n = kw["target"].shape[0]; p = kw.get("num_regressors", 0)
    parts = [r2_parts(xs, ys) for xs, ys in zip(xc, tc)]
    if any(t == 0 for _, t, _ in parts):
        return None, 1
    cond = max(max(Fr(1), sso / tss) * max(Fr(1), rss / tss) for rss, tss, sso in parts)
    raw = [1 - rss / tss for rss, tss, _ in parts]
    mo = kw.get("multioutput", "uniform_average")
    if mo == "uniform_average":
        raw = [sum(raw) / len(raw)]
    elif mo == "variance_weighted":
        T_ = sum(t for _, t, _ in parts)
        raw = [sum(r * t for r, (_, t, _) in zip(raw, parts)) / T_]
        cond = max(cond, max(sso for _, _, sso in parts) / T_ * len(parts))
    if p:
        raw = [1 - (1 - r) * Fr(n - 1) / Fr(n - p - 1) for r in raw]
        cond = cond * max(Fr(1), Fr(n - 1) / Fr(n - p - 1))
    return raw, cond


def cdf(vals, ws, v):
    return sum(w for a, w in zip(vals, ws) if a <= v) / sum(ws)


def o_wass(kw):
    x, y = fr(kw["x"]), fr(kw["y"])
    xw = fr(kw["x_weights"]) if kw.get("x_weights") is not None else [Fr(1)] * len(x)
    yw = fr(kw["y_weights"]) if kw.get("y_weights") is not None else [Fr(1)] * len(y)
    sup = sorted(x + y)
    return [sum(abs(cdf(x, xw, a) - cdf(y, yw, a)) * (b - a) for a, b in zip(sup, sup[1:]))], sup[-1] - sup[0]


def o_psnr_arg(kw):
    x, t = fr(kw["input"]), fr(kw["target"])
    dr = kw.get("data_range")
    rng_ = Fr(dr) if dr is not None else max(t) - min(t)
    sse = sum((a - b) ** 2 for a, b in zip(x, t))
    if sse == 0:
        return [NAN if rng_ == 0 else math.inf], 1
    return [rng_ * rng_ / (sse / len(t))], 1


def o_psnr(kw):
    a = o_psnr_arg(kw)[0][0]
    if isinstance(a, Fr):
        return [10 * math.log10(a) if a > 0 else -math.inf], 1
    return [a], 1


def o_bne(kw):
    x, t = kw["input"], kw["target"]
    rows = [(fr(x), fr(t), fr(kw["weight"]) if kw.get("weight") is not None else None)] if x.ndim == 1 else \
        [(fr(x[i]), fr(t[i]), fr(kw["weight"][i]) if kw.get("weight") is not None else None) for i in range(x.shape[0])]
    eps = 2.0 ** -52
    out = []
    for xs, ts, ws in rows:
        ws = ws or [Fr(1)] * len(xs)
        if kw.get("from_logits"):
            ce = [float(w) * ((1 - float(tt)) * float(z) + math.log1p(math.exp(-float(z)))) for z, tt, w in zip(xs, ts, ws)]
        else:
            lg = lambda q: max(math.log(q), -100.0) if q > 0 else -100.0
            ce = [-float(w) * (float(tt) * lg(float(p)) + (1 - float(tt)) * lg(1 - float(p))) for p, tt, w in zip(xs, ts, ws)]
        W = float(sum(ws))
        if W == 0:
            out.append(NAN); continue
        p = min(max(float(sum(w * tt for w, tt in zip(ws, ts))) / W, eps), 1 - eps)
        out.append((sum(ce) / W) / (-p * math.log(p) - (1 - p) * math.log(1 - p)))
    return out, 1


def o_ppl(kw):
    inp, tgt = kw["input"], kw["target"]
    V = inp.shape[-1]
    rows = inp.reshape(-1, V).tolist(); labs = tgt.reshape(-1).tolist()
    ig = kw.get("ignore_index")
    toks = [(r, l) for r, l in zip(rows, labs) if l != ig]
    if not toks:
        return [NAN], 1
    nll = 0.0
    for r, l in toks:
        m = max(r)
        nll -= (r[l] - m) - math.log(sum(math.exp(v - m) for v in r))
    return [math.exp(nll / len(toks))], 1


def o_thr(kw):
    return [Fr(kw["num_processed"]) / Fr(kw["elapsed_time_sec"])], 1


def o_cov(rows):
    n, d = len(rows), len(rows[0])
    mean = [sum(r[j] for r in rows) / n for j in range(d)]
    cov = [[sum((r[i] - mean[i]) * (r[j] - mean[j]) for r in rows) / (n - 1) for j in range(d)] for i in range(d)]
    return mean, cov


ORACLE = {"mean": o_mean, "sum": o_sum, "auc": o_auc, "mean_squared_error": o_mse, "r2_score": o_r2, "wasserstein_1d": o_wass,
          "peak_signal_noise_ratio.arg": o_psnr, "peak_signal_noise_ratio": o_psnr, "binary_normalized_entropy": o_bne,
          "perplexity": o_ppl, "throughput": o_thr}

SPEC_ORACLE = {**ORACLE, "peak_signal_noise_ratio.arg": o_psnr_arg}

# ------------------------------------------------------------------ real calls

def real_call(fn, kw):
    k = dict(kw)
    if fn in ("mean", "sum"):
        a = [k.pop("input")]
        if "weight" in k:
            a.append(k.pop("weight"))
        return call_real(getattr(F, fn), *a)
    if fn == "auc":
        return call_real(F.auc, k.pop("x"), k.pop("y"), **k)
    if fn in ("mean_squared_error", "r2_score", "binary_normalized_entropy"):
        return call_real(getattr(F, fn), k.pop("input"), k.pop("target"), **k)
    if fn == "wasserstein_1d":
        return call_real(wasserstein_1d, k.pop("x"), k.pop("y"), k.get("x_weights"), k.get("y_weights"))
    if fn.startswith("peak_signal_noise_ratio"):
        return call_real(F.peak_signal_noise_ratio, k.pop("input"), k.pop("target"), k.get("data_range"))
    if fn == "perplexity":
        return call_real(F.perplexity, k.pop("input"), k.pop("target"), k.get("ignore_index"))
    if fn == "throughput":
        return call_real(F.throughput, k["num_processed"], k["elapsed_time_sec"])
    raise KeyError(fn)


def kw_json(fn, kw):
    out = {"fn": fn}
    for k, v in kw.items():
        if isinstance(v, torch.Tensor):
            out[k] = {"shape": list(v.shape), "dtype": str(v.dtype).replace("torch.", ""), "data": v.reshape(-1).tolist()}
        else:
            out[k] = v
    return out


def kw_from_json(c):
    kw = {}
    for k, v in c.items():
        if k == "fn":
            continue
        if isinstance(v, dict) and "shape" in v:
            kw[k] = torch.tensor(v["data"], dtype=getattr(torch, v["dtype"])).reshape(v["shape"])
        else:
            kw[k] = v
    return c["fn"], kw


def dtype_of(kw):
    for v in kw.values():
        if isinstance(v, torch.Tensor) and v.is_floating_point():
            return v.dtype
    return torch.float32


class ProvedTol(Fr):
    """a tolerance DERIVED from a theorem of TE/Props/C07_Round.lean: the admissible error is exactly `tol · scale`
    (`rel = "scale"`, the oracle's Σ|terms| or Σ|terms|/Σweights) or `tol · |value|` (`rel = "value"`, sums of non-negative terms) —
    no hand-chosen floor.  Compared in exact rational arithmetic."""
    rel = "scale"

    @classmethod
    def of(cls, tol: Fr, rel: str, why: str):
        t = cls(tol); t.rel = rel; t.why = why
        return t


def vals_close(a, b, tol, scale):
    """a: float from the real code; b: Fraction | float (nan/inf)."""
    bf = float(b)
    if math.isnan(a) or math.isnan(bf):
        return math.isnan(a) and math.isnan(bf)
    if math.isinf(a) or math.isinf(bf):
        return a == bf
    if isinstance(tol, ProvedTol) and isinstance(b, (Fr, int)):
        return abs(Fr(a) - b) <= Fr(tol) * (abs(b) if tol.rel == "value" else Fr(scale))
    return abs(a - bf) <= tol * max(1.0, abs(bf), float(scale))


def real_vs(real, vals, tol, scale, shape=None):
    """None if the real outcome equals the list of expected values, else a message."""
    if real[0] != "ok":
        return f"real raised {real[1]}"
    got = []
    for t in real[1]:
        got += t.reshape(-1).to(torch.float64).tolist()
    if len(got) != len(vals):
        return f"real returned {len(got)} values, expected {len(vals)}"
    if shape is not None and tuple(real[1][0].shape) != tuple(shape):
        return f"shape {tuple(real[1][0].shape)} vs {tuple(shape)}"
    for i, (a, b) in enumerate(zip(got, vals)):
        if not vals_close(a, b, tol, scale):
            return f"[{i}] real {a!r} vs expected {b} (={float(b)!r}), tol {float(tol):g}*{float(max(1, scale)):g}" + \
                (f" [proved: {tol.why}; relative to the {tol.rel}]" if isinstance(tol, ProvedTol) else "")
    return None

# ------------------------------------------------------------------ case generation

def dtypes(rng, tier):
    return [torch.float32, torch.float64]


def vec_inputs(rng: Rng, tier, nmax_exh, grid=G3, sampled_to=6, per=12):
    """all vectors over `grid` of length 1..nmax_exh, then `per` sampled ones for each length up to sampled_to (G8)."""
    for n in range(1, nmax_exh + 1):
        for xs in itertools.product(grid, repeat=n):
            yield list(xs), ("exh", n)
    for n in range(nmax_exh + 1, sampled_to + 1):
        for _ in range(per):
            yield rng.grid(n, G8) if rng.random() < 0.7 else [rng.choice(G8)] * n, ("grid", n)


def rand_vec(rng: Rng, n, dtype, kind):
    if kind == "dyadic":
        den = 8 if dtype == torch.float32 else 1024
        return [Fr(rng.randint(-8 * den, 8 * den), den) for _ in range(n)]
    return [Fr(float(torch.tensor(rng.uniform(-4, 4), dtype=dtype))) for _ in range(n)]


def weights_for(rng, n):
    return [rng.choice(W4) for _ in range(n)]


def cases_mean_sum(rng, tier):
    exh = 6 if tier == "thorough" else 5
    for dt in (torch.float32, torch.float64):
        for xs, tag in vec_inputs(rng, tier, exh):
            n = len(xs)
            for fn in ("mean", "sum"):
                yield fn, {"input": T(xs, dt)}, tag
                yield fn, {"input": T(xs, dt), "weight": float(rng.choice(W4))}, tag
                yield fn, {"input": T(xs, dt), "weight": T(weights_for(rng, n), dt)}, tag
        for n in (1, 2):
            for xs in itertools.product(G3, repeat=n):
                for ws in itertools.product(W4, repeat=n):
                    yield "mean", {"input": T(xs, dt), "weight": T(ws, dt)}, ("exh-w", n)
                    yield "sum", {"input": T(xs, dt), "weight": T(ws, dt)}, ("exh-w", n)
        for _ in range(60 if tier == "quick" else 400):
            n = rng.choice([7, 8, 16, 33, 100, 256]); kind = rng.choice(["dyadic", "float"])
            xs = rand_vec(rng, n, dt, kind)
            fn = rng.choice(["mean", "sum"])
            r = rng.random()
            kw = {"input": T(xs, dt)}
            if r < 0.4:
                kw["weight"] = T(weights_for(rng, n), dt)
            elif r < 0.6:
                kw["weight"] = float(rng.choice(W4))
            if rng.random() < 0.3 and n % 2 == 0:
                kw = {k: (v.reshape(2, -1) if isinstance(v, torch.Tensor) else v) for k, v in kw.items()}
            yield fn, kw, (kind, n)
        # PYTHON scalar weights that are not dyadic / not float32-representable: the total weight float(w)·n must keep the working
        # precision (float64 inputs: a float32 denominator was the defect fixed by 075caf0)
        for _ in range(12 if tier == "quick" else 80):
            n = rng.choice([1, 2, 3, 8, 33, 100]); kind = rng.choice(["dyadic", "float"])
            yield rng.choice(["mean", "sum"]), {"input": T(rand_vec(rng, n, dt, kind), dt), "weight": rng.choice([0.1, 0.3, 1 / 3, float(2 ** 24 + 1), 0.7])}, ("scalar-weight", n)
        # values held in an INTEGER tensor (counts, lengths) with fractional weights: the weights must not take the
        # dtype of the values anywhere on the way
        for idt in (torch.int64, torch.int32):
            for _ in range(6 if tier == "quick" else 40):
                n = rng.choice([3, 8, 33])
                kw = {"input": torch.tensor([rng.randint(-9, 9) for _ in range(n)], dtype=idt)}
                r = rng.random()
                if r < 0.6:
                    kw["weight"] = T([rng.choice([Fr(1, 4), Fr(1, 2), Fr(3, 4), Fr(3, 2), Fr(5, 2)]) for _ in range(n)], dt)
                elif r < 0.8:
                    kw["weight"] = float(rng.choice([Fr(1, 4), Fr(1, 2), Fr(3, 2)]))
                yield rng.choice(["mean", "sum"]), kw, ("int-input", n)
        # rejected / degenerate
        yield "mean", {"input": T([1, 2, 3], dt), "weight": T([1, 2], dt)}, ("err",)
        yield "sum", {"input": T([1, 2, 3], dt), "weight": T([1, 2], dt)}, ("err",)
        yield "mean", {"input": T([], dt)}, ("empty",)
        yield "sum", {"input": T([], dt)}, ("empty",)
        yield "mean", {"input": T([1, 2, 3], dt), "weight": T([1, -1, 0], dt)}, ("zero-weight",)
        yield "mean", {"input": T([1, 2, 3], dt), "weight": T([0, 0, 0], dt)}, ("zero-weight",)


def cases_auc(rng, tier):
    exh = 3
    for dt in (torch.float32, torch.float64):
        for n in range(1, exh + 1):
            for xs in itertools.product(G3, repeat=n):           # tied x included: stable order decides
                for ys in itertools.product(G3, repeat=n):
                    for ro in (False, True):
                        yield "auc", {"x": T(xs, dt), "y": T(ys, dt), "reorder": ro}, ("exh", n)
        for n in range(4, 7):
            for _ in range(20):
                xs, ys = rng.grid(n, G8), rng.grid(n, G8)
                yield "auc", {"x": T(xs, dt), "y": T(ys, dt), "reorder": rng.random() < 0.7}, ("grid", n)
        for _ in range(40 if tier == "quick" else 300):
            n = rng.choice([2, 7, 16, 100, 256]); t = rng.choice([1, 2, 3]); kind = rng.choice(["dyadic", "float"])
            xs = [v for _ in range(t) for v in rand_vec(rng, n, dt, kind)]
            ys = [v for _ in range(t) for v in rand_vec(rng, n, dt, kind)]
            sh = (n,) if t == 1 and rng.random() < 0.5 else (t, n)
            yield "auc", {"x": T(xs, dt, sh), "y": T(ys, dt, sh), "reorder": rng.random() < 0.7}, (kind, n)
        yield "auc", {"x": T([], dt), "y": T([], dt)}, ("err",)
        yield "auc", {"x": T([1, 2], dt), "y": T([1], dt)}, ("err",)


def cases_reg(rng, tier):
    for dt in (torch.float32, torch.float64):
        # 1-D exhaustive pairs (constant targets, n = 1, 2 included)
        for n in range(1, 4):
            for xs in itertools.product(G3, repeat=n):
                for ts in itertools.product(G3, repeat=n):
                    yield "mean_squared_error", {"input": T(xs, dt), "target": T(ts, dt)}, ("exh", n)
                    yield "mean_squared_error", {"input": T(xs, dt), "target": T(ts, dt), "sample_weight": T(weights_for(rng, n), dt),
                                                 "multioutput": rng.choice(["raw_values", "uniform_average"])}, ("exh", n)
                    yield "r2_score", {"input": T(xs, dt), "target": T(ts, dt), "multioutput": rng.choice(["raw_values", "uniform_average", "variance_weighted"])}, ("exh", n)
                    if n == 3:
                        yield "r2_score", {"input": T(xs, dt), "target": T(ts, dt), "num_regressors": rng.choice([1, 2])}, ("exh", n)
        # lengths 4..6 and 2-D on the eighths grid
        for n in range(1, 7):
            for d in (1, 2, 3):
                for _ in range(10 if tier == "quick" else 60):
                    shape = (n,) if d == 1 and rng.random() < 0.5 else (n, d)
                    xs = rng.grid(n * d, G8)
                    ts = rng.grid(n * d, G8) if rng.random() < 0.85 else [rng.choice(G8)] * (n * d)
                    kw = {"input": T(xs, dt, shape), "target": T(ts, dt, shape), "multioutput": rng.choice(["raw_values", "uniform_average"])}
                    if rng.random() < 0.5:
                        kw["sample_weight"] = T(weights_for(rng, n), dt)
                    yield "mean_squared_error", kw, ("grid", n, d)
                    kw = {"input": T(xs, dt, shape), "target": T(ts, dt, shape), "multioutput": rng.choice(["raw_values", "uniform_average", "variance_weighted"])}
                    if rng.random() < 0.4:
                        kw["num_regressors"] = rng.randint(0, max(0, n - 1))
                    yield "r2_score", kw, ("grid", n, d)
        # random to 256: MSE both dtypes; R² float64 only unless dyadic (cancellation in Σy² − (Σy)²/n dominates float32)
        for _ in range(60 if tier == "quick" else 400):
            n = rng.choice([2, 3, 7, 16, 100, 256]); d = rng.choice([1, 2, 3]); kind = rng.choice(["dyadic", "float"])
            shape = (n,) if d == 1 and rng.random() < 0.5 else (n, d)
            xs, ts = rand_vec(rng, n * d, dt, kind), rand_vec(rng, n * d, dt, kind)
            kw = {"input": T(xs, dt, shape), "target": T(ts, dt, shape), "multioutput": rng.choice(["raw_values", "uniform_average"])}
            if rng.random() < 0.5:
                kw["sample_weight"] = T(weights_for(rng, n), dt)
            yield "mean_squared_error", kw, (kind, n, d)
            if dt == torch.float64 or kind == "dyadic":
                kw = {"input": T(xs, dt, shape), "target": T(ts, dt, shape), "multioutput": rng.choice(["raw_values", "uniform_average", "variance_weighted"])}
                if rng.random() < 0.4:
                    kw["num_regressors"] = rng.randint(0, 3)
                yield "r2_score", kw, (kind, n, d)
        # ill-conditioned: near-constant targets (float64 only)
        if dt == torch.float64:
            for _ in range(20 if tier == "quick" else 100):
                n = rng.choice([3, 8, 64])
                base = Fr(rng.randint(1, 100))
                ts = [base + Fr(rng.randint(-8, 8), 2 ** 20) for _ in range(n)]
                xs = [t + Fr(rng.randint(-8, 8), 2 ** 20) for t in ts]
                yield "r2_score", {"input": T(xs, dt), "target": T(ts, dt)}, ("near-constant", n)
        yield "mean_squared_error", {"input": T([1, 2], dt), "target": T([1, 2, 3], dt)}, ("err",)
        yield "mean_squared_error", {"input": T([1, 2], dt), "target": T([1, 2], dt), "multioutput": "foo"}, ("err",)
        yield "mean_squared_error", {"input": T([1, 2], dt), "target": T([1, 2], dt), "sample_weight": T([1], dt)}, ("err",)
        yield "mean_squared_error", {"input": T([1, 2], dt), "target": T([2, 2], dt), "sample_weight": T([0, 0], dt)}, ("zero-weight",)
        yield "mean_squared_error", {"input": T([], dt), "target": T([], dt)}, ("empty",)
        yield "r2_score", {"input": T([1], dt), "target": T([1], dt)}, ("err",)
        yield "r2_score", {"input": T([1, 2, 3], dt), "target": T([1, 2, 4], dt), "num_regressors": 2}, ("err",)
        yield "r2_score", {"input": T([1, 2, 3], dt), "target": T([1, 2, 4], dt), "multioutput": "foo"}, ("err",)
        yield "r2_score", {"input": T([1, 2, 3], dt), "target": T([1, 2, 4], dt), "num_regressors": -1}, ("err",)


def cases_wass(rng, tier):
    for dt in (torch.float32, torch.float64):
        for n in range(1, 4):
            for m in range(1, 4):                              # unequal sample counts
                if n + m > 5:
                    continue
                for xs in itertools.product(G3, repeat=n):
                    for ys in itertools.product(G3, repeat=m):
                        yield "wasserstein_1d", {"x": T(xs, dt), "y": T(ys, dt)}, ("exh", n, m)
                        yield "wasserstein_1d", {"x": T(xs, dt), "y": T(ys, dt), "x_weights": T(weights_for(rng, n), dt),
                                                 "y_weights": T(weights_for(rng, m), dt) if rng.random() < 0.7 else None}, ("exh-w", n, m)
        for n in range(1, 7):
            for _ in range(15 if tier == "quick" else 80):
                m = rng.randint(1, 6)
                xs, ys = rng.grid(n, G8[:9]), rng.grid(m, G8[:9])   # few distinct values: many ties
                kw = {"x": T(xs, dt), "y": T(ys, dt)}
                if rng.random() < 0.6:
                    kw["x_weights"] = T(weights_for(rng, n), dt)
                if rng.random() < 0.6:
                    kw["y_weights"] = T(weights_for(rng, m), dt)
                yield "wasserstein_1d", kw, ("grid", n, m)
        for _ in range(30 if tier == "quick" else 200):
            n, m = rng.choice([1, 7, 33, 256]), rng.choice([1, 8, 100, 256]); kind = rng.choice(["dyadic", "float"])
            kw = {"x": T(rand_vec(rng, n, dt, kind), dt), "y": T(rand_vec(rng, m, dt, kind), dt)}
            if rng.random() < 0.5:
                kw["x_weights"] = T(weights_for(rng, n), dt); kw["y_weights"] = T(weights_for(rng, m), dt)
            yield "wasserstein_1d", kw, (kind, n, m)
        # near-equal distributions
        for _ in range(10):
            n = rng.choice([4, 32])
            xs = rand_vec(rng, n, dt, "dyadic")
            ys = [v + Fr(rng.randint(0, 1), 1024 if dt == torch.float64 else 8) for v in xs]
            yield "wasserstein_1d", {"x": T(xs, dt), "y": T(ys, dt)}, ("near-equal", n, n)
        yield "wasserstein_1d", {"x": T([1, 2], dt), "y": T([], dt)}, ("err",)
        yield "wasserstein_1d", {"x": T([1, 2], dt), "y": T([1, 2], dt), "x_weights": T([1, 0], dt)}, ("err",)
        yield "wasserstein_1d", {"x": T([1, 2], dt), "y": T([1, 2], dt), "x_weights": T([1], dt)}, ("err",)
        yield "wasserstein_1d", {"x": T([1, 2, 3, 4], dt, (2, 2)), "y": T([1, 2], dt)}, ("err",)


def cases_psnr(rng, tier):
    for dt in (torch.float32, torch.float64):
        for n in range(1, 4):
            for xs in itertools.product(G3, repeat=n):
                for ts in itertools.product(G3, repeat=n):
                    for dr in (None, 2.0):
                        yield "peak_signal_noise_ratio.arg", {"input": T(xs, dt), "target": T(ts, dt), "data_range": dr}, ("exh", n)
        for _ in range(60 if tier == "quick" else 300):
            n = rng.choice([4, 5, 6, 16, 64, 256]); kind = rng.choice(["grid", "dyadic", "float"])
            mk = (lambda k: rng.grid(k, G8)) if kind == "grid" else (lambda k: rand_vec(rng, k, dt, kind))
            shape = (n,) if n % 4 else (n // 4, 2, 2)
            yield "peak_signal_noise_ratio.arg", {"input": T(mk(n), dt, shape), "target": T(mk(n), dt, shape),
                                                  "data_range": rng.choice([None, None, 0.5, 1.0, 3.0])}, (kind, n)
        yield "peak_signal_noise_ratio.arg", {"input": T([1, 2], dt), "target": T([1], dt), "data_range": None}, ("err",)
        yield "peak_signal_noise_ratio.arg", {"input": T([1, 2], dt), "target": T([1, 3], dt), "data_range": -1.0}, ("err",)
        yield "peak_signal_noise_ratio.arg", {"input": T([], dt), "target": T([], dt), "data_range": None}, ("err",)


P5 = [Fr(1, 8), Fr(1, 4), Fr(1, 2), Fr(3, 4), Fr(7, 8)]
L4 = [Fr(-1), Fr(0), Fr(1, 2), Fr(2)]


def cases_bne(rng, tier):
    for dt in (torch.float32, torch.float64):
        for fl in (False, True):
            grid = L4 if fl else P5
            for n in range(1, 4):
                for xs in itertools.product(grid[:3] if n == 3 else grid, repeat=n):
                    for ts in itertools.product([0, 1], repeat=n):
                        kw = {"input": T(xs, dt), "target": T(ts, dt), "from_logits": fl}
                        yield "binary_normalized_entropy", kw, ("exh", n)
                        yield "binary_normalized_entropy", {**kw, "weight": T(weights_for(rng, n), dt)}, ("exh-w", n)
            for _ in range(40 if tier == "quick" else 250):
                n = rng.choice([4, 5, 6, 16, 100, 256]); t = rng.choice([1, 1, 2, 3])
                kind = rng.choice(["grid", "float"])
                if kind == "grid":
                    xs = rng.grid(t * n, grid)
                else:
                    xs = [Fr(float(torch.tensor(rng.uniform(-3, 3) if fl else rng.uniform(0.02, 0.98), dtype=dt))) for _ in range(t * n)]
                ts = [rng.choice([0, 1]) for _ in range(t * n)]
                sh = (n,) if t == 1 else (t, n)
                kw = {"input": T(xs, dt, sh), "target": T(ts, dt, sh), "from_logits": fl, "num_tasks": t}
                if rng.random() < 0.5:
                    kw["weight"] = T(weights_for(rng, t * n), dt, sh)
                yield "binary_normalized_entropy", kw, (kind, n, t)
        yield "binary_normalized_entropy", {"input": T([0, 1], dt), "target": T([1, 1], dt)}, ("clamp",)
        yield "binary_normalized_entropy", {"input": T([1, 0, 0.5], dt), "target": T([1, 0, 1], dt)}, ("clamp",)
        yield "binary_normalized_entropy", {"input": T([1.5], dt), "target": T([1], dt)}, ("err",)
        yield "binary_normalized_entropy", {"input": T([0.5, 0.5], dt, (1, 2)), "target": T([1, 0], dt, (1, 2))}, ("err",)
        yield "binary_normalized_entropy", {"input": T([0.5, 0.5], dt), "target": T([1, 0], dt), "num_tasks": 2}, ("err",)
        yield "binary_normalized_entropy", {"input": T([0.5, 0.5], dt), "target": T([1], dt)}, ("err",)
        yield "binary_normalized_entropy", {"input": T([0.5, 0.5], dt), "target": T([1, 0], dt), "weight": T([0, 0], dt)}, ("zero-weight",)


def cases_ppl(rng, tier):
    LG = [Fr(-1), Fr(0), Fr(1)]
    for dt in (torch.float32, torch.float64):
        for V in (2, 3):
            for s in (1, 2):
                for logits in itertools.product(LG, repeat=s * V):
                    for labs in itertools.product(range(V), repeat=s):
                        for ig in (None, 0, 1):
                            yield "perplexity", {"input": T(logits, dt, (1, s, V)), "target": torch.tensor(labs).reshape(1, s), "ignore_index": ig}, ("exh", s, V)
        for _ in range(40 if tier == "quick" else 250):
            n, s, V = rng.choice([1, 2, 3]), rng.choice([1, 2, 3, 16]), rng.choice([2, 3, 5, 17])
            kind = rng.choice(["grid", "float"])
            xs = rng.grid(n * s * V, [Fr(i, 2) for i in range(-6, 7)]) if kind == "grid" else \
                [Fr(float(torch.tensor(rng.uniform(-5, 5), dtype=dt))) for _ in range(n * s * V)]
            labs = [rng.randrange(V) for _ in range(n * s)]
            yield "perplexity", {"input": T(xs, dt, (n, s, V)), "target": torch.tensor(labs).reshape(n, s),
                                 "ignore_index": rng.choice([None, None, 0, 1, -100])}, (kind, n * s, V)
        yield "perplexity", {"input": T([0, 1, 2, 3], dt, (1, 2, 2)), "target": torch.tensor([[1, 1]]), "ignore_index": 1}, ("all-ignored",)
        yield "perplexity", {"input": T([0, 1, 2, 3], dt, (1, 2, 2)), "target": torch.tensor([[2, 1]]), "ignore_index": None}, ("err",)
        yield "perplexity", {"input": T([0, 1, 2, 3], dt, (1, 2, 2)), "target": torch.tensor([[2, 1]]), "ignore_index": 2}, ("ignored-out-of-range",)
        yield "perplexity", {"input": T([0, 1, 2, 3], dt, (2, 2)), "target": torch.tensor([[0, 1]]), "ignore_index": None}, ("err",)
        yield "perplexity", {"input": T([0, 1, 2, 3], dt, (1, 2, 2)), "target": torch.tensor([0, 1]), "ignore_index": None}, ("err",)
        yield "perplexity", {"input": T([0, 1, 2, 3], dt, (1, 2, 2)), "target": torch.tensor([[0], [1]]), "ignore_index": None}, ("err",)


def cases_thr(rng, tier):
    for n in (0, 1, 3, 64, 1000):
        for e in (0.5, 1.0, 2.5, 4.0, 0.1):
            yield "throughput", {"num_processed": n, "elapsed_time_sec": e}, ("grid",)
    yield "throughput", {"num_processed": -1, "elapsed_time_sec": 1.0}, ("err",)
    yield "throughput", {"num_processed": 1, "elapsed_time_sec": 0.0}, ("err",)
    yield "throughput", {"num_processed": 1, "elapsed_time_sec": -2.0}, ("err",)


def all_cases(rng, tier):
    for g in (cases_mean_sum, cases_auc, cases_reg, cases_wass, cases_psnr, cases_bne, cases_ppl, cases_thr):
        yield from g(rng, tier)

# ------------------------------------------------------------------ functional stream

def model_name(fn):
    return fn


def _exact_in(v, dt) -> bool:
    """the Python number v converts to dtype dt without rounding"""
    return float(torch.tensor(float(v), dtype=dt)) == float(v)


def proved_tolerance(fn, kw):
    """Tolerance of a sum / ratio metric DERIVED from the rounding-model theorems (TE/Props/C07_Round.lean), or None when the case
    lies outside their hypotheses (other dtypes, integer inputs, weights that are not non-negative with positive total, values that
    are not exactly the floats the model sees) — then the hand-chosen constant TOL applies as before.
    Validity of the underlying assumption (torch's CPU arithmetic is the standard model in some tree order) is what
    `rounding_model_stream` measures on every run."""
    dt = dtype_of(kw)
    u = U_ROUND.get(dt)
    try:
        if u is None:
            return None
        if fn in ("mean", "sum"):
            x = kw["input"]; w = kw.get("weight", 1.0); n = x.numel()
            if x.dtype != dt or n == 0:
                return None
            if isinstance(w, torch.Tensor):
                if w.dtype != dt or w.shape != x.shape:
                    return None
                if fn == "sum":                     # Σ fl(w·x) over any tree: n − 1 additions deep at most, one product per term
                    return ProvedTol.of(rb_gamma(u, n - 1 + 1), "scale", "TE.C07R.wsum_error + depth_le_size + pow_bound_gamma")
                ws = fr(w)
                if min(ws) < 0 or sum(ws) < Fr(1, 10 ** 9):
                    return None
                return ProvedTol.of(rb_quot_const(u, n - 1 + 1, n - 1), "scale", "TE.C07R.wmean_error (exact constant: ratio_error_exact)")
            if isinstance(w, bool) or not isinstance(w, (int, float)):
                return None
            # python scalar weight, possibly not representable in dt (0.1, 1/3, 2**24+1): its cast into the tensor operation and
            # the casts of the total weight `torch.tensor(float(w)·n)` are counted as roundings
            kc, kd = _scalar_roundings(w, n, dt)
            if fn == "sum":                         # (input · ŵ).sum()
                return ProvedTol.of(rb_gamma(u, n - 1 + 1 + kc), "scale", "TE.C07R.wsum_error / terms_sum_error_gamma")
            if not w > 0:
                return None
            # mean, scalar weight: fl(ŵ · fl-Σx) / tensor(float(w)·n)
            return ProvedTol.of(rb_quot_const(u, n - 1 + 1 + kc, kd), "scale", "TE.C07R.tree_sum_error_n + ratio_error_gamma")
        if fn == "mean_squared_error":
            x, y, w = kw["input"], kw["target"], kw.get("sample_weight")
            if x.dtype != dt or y.dtype != dt or x.shape != y.shape or x.ndim not in (1, 2) or x.numel() == 0:
                return None
            n = x.shape[0]; d = 1 if x.ndim == 1 else x.shape[1]
            if w is None:
                c = rb_quot_const(u, n - 1 + 3, 0)                      # Σ fl(fl(y−x)²) / n
            else:
                if w.dtype != dt or w.ndim != 1 or w.shape[0] != n:
                    return None
                ws = fr(w)
                if min(ws) < 0 or sum(ws) < Fr(2) ** -52:                # the eps guard of the division must be inactive
                    return None
                c = rb_quot_const(u, n - 1 + 4, n - 1)                  # Σ fl(fl(fl(y−x)²)·w) / Σ w
            if kw.get("multioutput", "uniform_average") == "uniform_average" and d > 1:
                # mean over the d per-output values, each within relative c: tree sum (depth ≤ d − 1) of perturbed non-negative
                # terms, then one rounded division by d            [TE.C07R.terms_sum_error_e, TE.C07R.rnd_after_error]
                c = (1 + rb_gamma(u, d - 1)) * (1 + c) * (1 + u) - 1
            return ProvedTol.of(c, "value", "TE.C07R.mse_rel_error (non-negative terms: relative to the value)")
    except (ValueError, KeyError, TypeError, AttributeError):
        return None
    return None


def tolerance(fn, kw):
    pt = proved_tolerance(fn, kw)
    if pt is not None:
        return pt
    dt = dtype_of(kw)
    tol = TOL[dt]
    if fn in ("binary_normalized_entropy", "perplexity", "peak_signal_noise_ratio", "peak_signal_noise_ratio.arg"):
        tol = max(tol, 1e-9) * (50 if dt == torch.float32 else 1)     # log/exp of float32 intermediates
        if fn == "binary_normalized_entropy":
            tol = max(tol, 1e-6)      # the float64 clamp at 1 − eps makes H(p) itself ill-conditioned for degenerate base rates
    return tol


def nontrivial(fn, kw, vals):
    data = []
    for v in kw.values():
        if isinstance(v, torch.Tensor):
            data += v.reshape(-1).tolist()
    if len(set(data)) < 2:
        return False
    return vals is not None and all(isinstance(v, Fr) or (isinstance(v, float) and math.isfinite(v)) for v in vals)


def expected_from_model(fn, model):
    """model outcome -> list of expected end values (PSNR: 10*log10 of the exact argument)."""
    vals = []
    for shape, data in model[1]:
        vals += data
    if fn == "peak_signal_noise_ratio.arg":
        out = []
        for a in vals:
            if isinstance(a, Fr):
                out.append(10 * math.log10(a) if a > 0 else (-math.inf if a == 0 else NAN))
            else:
                out.append(a)
        return out
    return vals


def definition_of(fn, kw, real):
    """(definition values | None, scale): the Fraction oracle, evaluated when the real call returned (on rejected inputs the
    definitions are not meaningful)"""
    try:
        return ORACLE[fn](kw) if real[0] == "ok" else (None, 1)
    except (ZeroDivisionError, ValueError, IndexError, OverflowError):
        return None, 1


def definition_verdict(fn, kw, real, exp=None, scale=1):
    """True / False / None (= the definition does not decide: undefined value or the real call raised) and the mismatch message.
    The tolerance is the working precision of the case (`tolerance`).  Used by the sweep, by search() and by replay()."""
    if exp is None:
        exp, scale = definition_of(fn, kw, real)
    if exp is None:
        return None, None, exp
    msg = real_vs(real, exp, tolerance(fn, kw), scale)
    return msg is None, msg, exp


def check_functional(rep: Report, cases, stream="functional", with_spec=True):
    cases = list(cases)
    lines = ["fn " + model_name(fn) + " " + enc_args(kw) for fn, kw, _ in cases]
    outs = run_driver(lines)
    nbad = 0
    spec_jobs = []
    for idx, ((fn, kw, tag), o) in enumerate(zip(cases, outs)):
        real = real_call(fn, kw)
        model = dec_out(o)
        rep.count(fn); rep.count(f"kind:{tag[0]}"); rep.count(f"dtype:{str(dtype_of(kw)).replace('torch.', '')}")
        if len(tag) > 1:
            rep.count(f"n:{min(tag[1], 7) if tag[1] < 7 else ('7-32' if tag[1] <= 32 else '33-256')}")
        exp, scale = definition_of(fn, kw, real)
        if real[0] == "err":
            rep.count(f"err:{real[1]}")
        rep.case(nontrivial_key=(fn, repr(kw_json(fn, kw))) if nontrivial(fn, kw, exp) else None,
                 sample={"request": lines[idx][:300], "model": o[:120], "real": str(real[1])[:120]} if idx % 4001 == 0 else None)
        tol = tolerance(fn, kw)
        if fn in ("mean", "sum", "mean_squared_error") and real[0] == "ok":
            rep.count(f"tolerance:{'proved-bound' if isinstance(tol, ProvedTol) else 'chosen-constant'}:{fn}")
        msg = None
        if model[0] == "bad":
            msg = f"driver: {model[1]}"
        elif real[0] == "err" or model[0] == "err":
            if real[0] != model[0]:
                msg = f"real {real[0]} {real[1] if real[0] == 'err' else ''} vs model {model[0]} {model[1] if model[0] == 'err' else ''}"
            elif real[1] != model[1]:
                msg = f"real raised {real[1]}, model {model[1]}"
        else:
            shape = model[1][0][0] if len(model[1]) == 1 else None
            msg = real_vs(real, expected_from_model(fn, model), tol, scale, shape)
        if with_spec and real[0] == "ok" and exp is not None and ("spec." + fn) in SPEC_FNS and idx % 3 == 0:
            spec_jobs.append((fn, kw, SPEC_ORACLE[fn](kw)[0]))
        if msg is None:
            continue
        if fn == "wasserstein_1d" and dtype_of(kw) == torch.float64 and exp is not None and real[0] == "ok" and model[0] == "ok" \
                and real_vs(real, expected_from_model(fn, model), TOL[torch.float32], scale) is None:
            # finding: float64 inputs, but `indices / n` (int64 tensor / int) is a float32 division, so the unweighted CDFs
            # — and with them the float64 result — carry float32 rounding (relative error ~6e-8 instead of ~1e-16)
            rep.count("wasserstein-float64-at-float32-accuracy")
            rep.violation("C07|wasserstein_1d|float64-input|unweighted-cdf-computed-in-float32",
                          f"wasserstein_1d on float64 inputs returns {[t.tolist() for t in real[1]]} where the definition gives {[str(x) for x in exp]} "
                          f"(= {[float(x) for x in exp]}): accurate to float32 rounding only",
                          {"kind": "functional", "case": kw_json(fn, kw), "real": [t.tolist() for t in real[1]], "definition": [str(x) for x in exp], "model": o})
            continue
        nbad += 1
        agrees = definition_verdict(fn, kw, real, exp, scale)[0]
        replay = {"kind": "functional", "case": kw_json(fn, kw), "real": real[1] if real[0] == "err" else [t.tolist() for t in real[1]],
                  "model": o, "definition": [str(x) for x in exp] if exp is not None else None, "mismatch": msg}
        if agrees is False:
            rep.violation(f"C07|{fn}|{config_class(fn, kw)}|differs-from-definition",
                          f"{fn} returns {replay['real']} where the definition gives {replay['definition']}", replay)
        else:
            rep.broke(f"correspondence:{stream}:{fn}", f"model and implementation disagree ({msg}); the Fraction oracle "
                      + ("agrees with the implementation" if agrees else "does not cover this case"), replay)
        if nbad > 25:
            break
    rep.streams[stream] = {"cases": len(cases), "disagreements": nbad}
    if with_spec:
        check_spec(rep, spec_jobs)


def config_class(fn, kw):
    parts = []
    for k in ("multioutput", "reorder", "from_logits", "num_tasks", "num_regressors", "ignore_index", "data_range"):
        if k in kw:
            parts.append(f"{k}={kw[k]}")
    for k in ("weight", "sample_weight", "x_weights"):
        if kw.get(k) is not None:
            parts.append("weighted" if isinstance(kw[k], torch.Tensor) else "scalar-weight")
    parts.append(str(dtype_of(kw)).replace("torch.", ""))
    if fn in ("r2_score", "R2Score") and isinstance(kw.get("target"), torch.Tensor) and kw["target"].numel() >= 2:
        # conditioning of the sufficient-statistics form Σy² − (Σy)²/n: it loses log10(mean²/var) digits
        t = kw["target"].to(torch.float64)
        cols = t.reshape(t.shape[0], -1)
        var = cols.var(dim=0, unbiased=False); m2 = cols.mean(dim=0) ** 2
        kappa = float((m2 / var.clamp_min(1e-300)).max())
        eps = 6e-8 if dtype_of(kw) == torch.float32 else 1.1e-16
        if kappa * eps > 1e-4:
            parts.append("near-constant-target")
    return ",".join(parts)


SPEC_FNS = {"spec.mean", "spec.sum", "spec.auc", "spec.mean_squared_error", "spec.r2_score", "spec.wasserstein_1d",
            "spec.peak_signal_noise_ratio.arg"}


def check_spec(rep: Report, jobs):
    """Lean `spec.*` (TE/Spec/Agg.lean evaluated exactly) vs the Python Fraction oracle: must be *equal*."""
    if not jobs:
        return
    lines = ["fn spec." + fn + " " + enc_args({k: v for k, v in kw.items() if v is not None or k == "data_range"}) for fn, kw, _ in jobs]
    outs = run_driver(lines)
    nbad = 0
    for (fn, kw, exp), line, o in zip(jobs, lines, outs):
        m = dec_out(o)
        rep.count("spec-oracle-cases")
        if m[0] != "ok":
            if m[0] == "err" and m[1] == "Other":
                continue            # the spec oracle declines (undefined ratio): nothing to compare
            ok = False
        else:
            vals = [v for _, d in m[1] for v in d]
            exp = [Fr(b) if isinstance(b, int) else b for b in exp]
            ok = len(vals) == len(exp) and all((isinstance(a, Fr) and isinstance(b, Fr) and a == b) or
                                               # an undefined ratio (zero denominator): the Lean spec oracle prints `nan` ("undefined"),
                                               # the Python definition ±inf/nan by the sign of the numerator — both mean "no value defined"
                                               (not isinstance(b, Fr) and not isinstance(a, Fr) and (a == b or math.isnan(a)))
                                               for a, b in zip(vals, exp))
        if not ok:
            nbad += 1
            rep.broke(f"correspondence:spec-oracle:{fn}", f"Lean spec {o} differs from the Python definition {[str(x) for x in exp]}",
                      {"case": kw_json(fn, kw), "driver_line": line[:2000], "lean_spec": o})
            if nbad > 10:
                break
    rep.streams["spec"] = {"cases": len(jobs), "disagreements": nbad}

# ------------------------------------------------------------------ class stream

def class_programs(rep: Report, rng: Rng):
    from ..registry import BY_NAME, fresh_cfg, public_cfg
    from ..progs import Prog, run_real, model_results, compare_with_model
    names = ["Mean", "Sum", "Max", "Min", "AUC", "Covariance", "Throughput", "MeanSquaredError", "R2Score",
             "Wasserstein1D", "PeakSignalNoiseRatio", "BinaryNormalizedEntropy", "Perplexity"]
    per = 10 if rep.tier == "quick" else 80
    nbad = 0
    for name in names:
        spec = BY_NAME[name]
        if not spec.model:
            rep.broke(f"correspondence:class-model:{name}", "the driver does not know this class", {})
            continue
        for cfg0 in spec.configs:
            progs = []
            for _ in range(per):
                cfg = fresh_cfg(cfg0)
                p = Prog(spec, cfg)
                k = rng.randint(1, 3)
                for i in range(k):
                    for _ in range(rng.randint(0, 3)):
                        p.u(i, spec.gen(rng, cfg, rng.choice((1, 2) + tuple(spec.sizes))))
                    if rng.random() < 0.3:
                        p.o(i)
                if k > 1:
                    if rng.random() < 0.5:
                        p.m(0, list(range(1, k)))
                    else:
                        for j in range(1, k):
                            p.m(0, [j])
                    if rng.random() < 0.3:
                        p.u(0, spec.gen(rng, cfg, rng.choice(spec.sizes)))
                p.o(0)
                progs.append(p)
            reals = [run_real(p) for p in progs]
            models, lines = model_results(progs)
            for p, res, mod, line in zip(progs, reals, models, lines):
                rep.count(f"class:{name}"); rep.traces += 1
                rep.case(nontrivial_key=("class", name, line[:400]) if sum(1 for o in p.ops if o[0] == "u") >= 2 else None)
                d = compare_with_model(p, res, mod, max(spec.tol, 2e-5))
                if d:
                    nbad += 1
                    rep.broke(f"correspondence:class-model:{name}", f"model and implementation disagree at op {d[0]}: {d[1]}",
                              {"program": p.describe(), "driver_line": line[:3000], "model": mod})
    rep.streams["class"] = {"disagreements": nbad}


def obs_real(f):
    try:
        return ("ok", flat_out(f()))
    except Exception as e:  # noqa: BLE001
        return ("err", err_kind(e), repr(e)[:160])


def tdesc(t: torch.Tensor):
    return {"shape": list(t.shape), "dtype": str(t.dtype).replace("torch.", ""), "data": t.reshape(-1).tolist()}


def is_tdesc(v):
    return isinstance(v, dict) and {"shape", "dtype", "data"} <= set(v)


def tundesc(d) -> torch.Tensor:
    return torch.tensor(d["data"], dtype=getattr(torch, d["dtype"])).reshape(tuple(d["shape"]))


def split_stream(cls, batches, split, key=None):
    """the first `split` batches on one instance, the rest on another, merged: the merged instance"""
    a, b = cls(), cls()
    for i, t in enumerate(batches):
        (a if i < split else b).update(t)
    a.merge_state([b])
    return a


def cov_stream_verdict(batches, split):
    """Covariance over a batched, merged stream vs the definition (sample mean / unbiased covariance of all rows):
    (agrees: True | False | None when fewer than two rows or compute() raised, real outcome, definition values)"""
    a = split_stream(M.Covariance, batches, split)
    real = obs_real(a.compute)
    rows = [fr(r) for t in batches for r in t]
    exp = None
    if len(rows) >= 2:
        mean, cov = o_cov(rows)
        exp = mean + [v for r in cov for v in r]
    agrees = None if exp is None or real[0] != "ok" else real_vs(real, exp, TOL[batches[0].dtype], 16) is None
    return agrees, real, exp


def minmax_stream_verdict(c, batches, split):
    """Max / Min over a merged stream vs the largest / smallest value seen: (holds, real value, expected value)"""
    real = float(split_stream(getattr(M, c), batches, split).compute())
    allv = [v for t in batches for v in fr(t)]
    exp = max(allv) if c == "Max" else min(allv)
    return real == float(exp), real, exp


def cov_streams(rep: Report, rng: Rng):
    """Covariance / Max / Min on tiny batches (1..3 rows, d in 1..3), any batching: real class vs Lean class model vs definition."""
    jobs = []
    reps = 150 if rep.tier == "quick" else 1200
    for r in range(reps):
        dt = rng.choice([torch.float32, torch.float64]); d = rng.choice([1, 2, 3]); nb = rng.randint(1, 4)
        grid = G3 if r % 2 else G8
        batches = []
        for _ in range(nb):
            n = rng.choice([1, 1, 2, 3, 0]) if r % 5 else rng.choice([1, 2])
            rows = [rng.grid(d, grid) for _ in range(n)]
            if rows and rng.random() < 0.2:
                rows = [rows[0]] * n                              # repeated observations
            batches.append(T([v for row in rows for v in row], dt, (n, d)))
        split = rng.randint(0, nb)                                # first `split` batches on shard 0, rest on shard 1, merged
        jobs.append((dt, d, batches, split))
    lines = []
    for dt, d, batches, split in jobs:
        ops = [f"u {0 if i < split else 1} obs={enc_tensor(b)}" for i, b in enumerate(batches)]
        lines.append("prog Covariance | " + " | ".join(ops) + " | m 0 1 | o 0")
    outs = run_driver(lines)
    nbad = 0
    for (dt, d, batches, split), line, o in zip(jobs, lines, outs):
        agrees, real, exp = cov_stream_verdict(batches, split)
        model = dec_out(o.split(" | ")[-1])
        rows = [fr(r) for t in batches for r in t]
        rep.count("class:Covariance-tiny"); rep.traces += 1
        rep.case(nontrivial_key=("cov", line) if len(rows) >= 2 and len({tuple(r) for r in rows}) > 1 else None)
        tol = TOL[dt]
        msg = None
        if real[0] != model[0]:
            msg = f"real {real[:2]} vs model {model}"
        elif real[0] == "ok":
            vals = [v for _, dd in model[1] for v in dd]
            scale = max([Fr(1)] + [abs(v) for r in rows for v in r]) ** 2 * 4
            msg = real_vs(real, vals, tol, scale)
        if msg:
            nbad += 1
            replay = {"kind": "cov-stream", "batches": [tdesc(t) for t in batches], "split": split, "real": str(real)[:300], "model": o, "mismatch": msg}
            if agrees is False:
                rep.violation("C07|Covariance|batched-stream|differs-from-definition", f"Covariance gives {real} but the definition gives {exp}", replay)
            else:
                rep.broke("correspondence:class-model:Covariance", f"model and implementation disagree: {msg}", replay)
    rep.streams["covariance-tiny"] = {"cases": len(jobs), "disagreements": nbad}
    # spec oracle of the covariance definition
    sj = [(dt, d, batches) for dt, d, batches, _ in jobs if sum(len(t) for t in batches) >= 2][:60]
    outs = run_driver(["fn spec.covariance obs=" + enc_tensor(torch.cat(b, 0)) for _, _, b in sj])
    for (dt, d, batches), o in zip(sj, outs):
        rows = [fr(r) for t in batches for r in t]
        mean, cov = o_cov(rows)
        m = dec_out(o)
        vals = [v for _, dd in m[1] for v in dd] if m[0] == "ok" else None
        if vals != mean + [v for r in cov for v in r]:
            rep.broke("correspondence:spec-oracle:covariance", f"Lean spec {o} differs from the Python definition", {"rows": [[str(v) for v in r] for r in rows]})
    # Max / Min
    mm = []
    for r in range(reps // 2):
        dt = rng.choice([torch.float32, torch.float64]); nb = rng.randint(1, 4)
        batches = [T(rng.grid(rng.randint(1, 6), G8), dt) for _ in range(nb)]
        if rng.random() < 0.3:
            batches[0] = batches[0].reshape(1, -1)
        mm.append((rng.choice(["Max", "Min"]), batches, rng.randint(0, nb)))
    lines = ["prog " + c + " | " + " | ".join(f"u {0 if i < s else 1} input={enc_tensor(b)}" for i, b in enumerate(bs)) + " | m 0 1 | o 0" for c, bs, s in mm]
    outs = run_driver(lines)
    for (c, bs, s), line, o in zip(mm, lines, outs):
        holds, real, exp = minmax_stream_verdict(c, bs, s)
        allv = [v for t in bs for v in fr(t)]
        model = dec_out(o.split(" | ")[-1])
        rep.count(f"class:{c}-tiny"); rep.traces += 1
        rep.case(nontrivial_key=(c, line) if len(set(allv)) > 1 else None)
        mv = model[1][0][1][0] if model[0] == "ok" else None
        if not holds:
            rep.violation(f"C07|{c}|merged-stream|differs-from-definition", f"{c} gives {real}, the {c.lower()}imum is {exp}",
                          {"kind": "minmax-stream", "class": c, "batches": [tdesc(t) for t in bs], "split": s})
        elif mv != exp:
            rep.broke(f"correspondence:class-model:{c}", f"model {o} vs real {real}", {"driver_line": line})

# ------------------------------------------------------------------ Fréchet: moment bookkeeping and a + b

class _Emb(torch.nn.Module):
    def forward(self, x):
        return x


def fad_capture(d: int, updates):
    """FrechetAudioDistance (identity embedding of dimension d; a waveform row of k·d numbers = k embeddings) fed `updates`
    [(preds, targets)]: the moments compute() hands to gaussian_frechet_distance -> (mu_x, cov_x, mu_y, cov_y)"""
    import torcheval.metrics.audio.fad as fadmod
    captured = []
    orig = fadmod.gaussian_frechet_distance
    fadmod.gaussian_frechet_distance = lambda mx, cx, my, cy: captured.append((mx, cx, my, cy)) or torch.tensor(0.0)
    try:
        m = M.FrechetAudioDistance(lambda w, d=d: w.reshape(-1, d), _Emb(), d)
        for p, t in updates:
            m.update(p, t)
        m.compute()
    finally:
        fadmod.gaussian_frechet_distance = orig
    return captured[0]


def fad_moments_verdict(d: int, updates, side: str, moments=None):
    """the moments of one side (`pred` / `target`) vs the sample mean / unbiased covariance of all its embeddings:
    (agrees, (mu, cov))"""
    mx, cx, my, cy = moments if moments is not None else fad_capture(d, updates)
    mu, cov = (mx, cx) if side == "pred" else (my, cy)
    rows = [fr(r) for u in updates for r in (u[0] if side == "pred" else u[1]).reshape(-1, d)]
    mean, c = o_cov(rows)
    return real_vs(("ok", [mu, cov]), mean + [v for r in c for v in r], 2e-5, 16) is None, (mu, cov)


def fad_streams(rep: Report, rng: Rng):
    jobs = []
    for _ in range(40 if rep.tier == "quick" else 300):
        d = rng.choice([1, 2, 3]); k = rng.choice([1, 2, 3])          # each waveform yields k embeddings of dim d
        nb = rng.randint(1, 3)
        updates = []
        for _ in range(nb):
            n = rng.randint(1, 3)
            p = T(rng.grid(n * k * d, G8), torch.float32, (n, k * d)); t = T(rng.grid(n * k * d, G8), torch.float32, (n, k * d))
            updates.append((p, t))
        if sum(len(u[0].reshape(-1, d)) for u in updates) < 2:
            continue
        moments = fad_capture(d, updates)
        jobs.append(([u[0].reshape(-1, d) for u in updates], (moments[0], moments[1]), (d, updates, "pred", moments)))
        jobs.append(([u[1].reshape(-1, d) for u in updates], (moments[2], moments[3]), (d, updates, "target", moments)))
    lines = ["fn fad.moments_stream embeddings=[" + ";".join(enc_tensor(b) for b in bs) + "]" for bs, _, _ in jobs]
    outs = run_driver(lines)
    nbad = 0
    for (bs, (mu, cov), (d, updates, side, moments)), line, o in zip(jobs, lines, outs):
        model = dec_out(o)
        rows = [fr(r) for b in bs for r in b]
        rep.count("fad.moments"); rep.traces += 1
        rep.case(nontrivial_key=("fad", line) if len({tuple(r) for r in rows}) > 1 else None)
        real = ("ok", [mu, cov])
        msg = f"model {o}" if model[0] != "ok" else real_vs(real, [v for _, dd in model[1] for v in dd], 2e-5, 16)
        if msg:
            nbad += 1
            agrees, _ = fad_moments_verdict(d, updates, side, moments)
            replay = {"kind": "fad-moments", "d": d, "side": side, "updates": [[tdesc(p_), tdesc(t_)] for p_, t_ in updates],
                      "real_mean": mu.tolist(), "real_cov": cov.tolist(), "model": o}
            if not agrees:
                rep.violation("C07|FrechetAudioDistance.compute|moments|differs-from-definition", "FAD moments differ from the sample mean / unbiased covariance", replay)
            else:
                rep.broke("correspondence:fad.moments", msg, replay)
    rep.streams["fad.moments"] = {"cases": len(jobs), "disagreements": nbad}
    # gaussian_frechet_distance = (a + b) − 2c : a + b is exact in the model, c is recomputed in float64
    gj = []
    for _ in range(30 if rep.tier == "quick" else 200):
        d = rng.choice([1, 2, 3])
        A = T(rng.grid(d * d, G3), torch.float64, (d, d)); B = T(rng.grid(d * d, G3), torch.float64, (d, d))
        cx, cy = A.T @ A + torch.eye(d, dtype=torch.float64), B.T @ B + torch.eye(d, dtype=torch.float64)
        gj.append((T(rng.grid(d, G8), torch.float64), cx, T(rng.grid(d, G8), torch.float64), cy))
    outs = run_driver(["fn gaussian_frechet_distance.ab " + enc_args({"mu_x": a, "cov_x": b, "mu_y": c, "cov_y": dd}) for a, b, c, dd in gj])
    for (mx, cx, my, cy), o in zip(gj, outs):
        real = float(gaussian_frechet_distance(mx, cx, my, cy))
        c = float(torch.linalg.eigvals(cx @ cy).sqrt().real.sum())
        m = dec_out(o)
        rep.count("gaussian_frechet_distance.ab"); rep.case(nontrivial_key=("gfd", o))
        ab = float(m[1][0][1][0]) if m[0] == "ok" else math.nan
        if not abs(real + 2 * c - ab) <= 1e-9 * max(1.0, abs(ab)):
            rep.broke("correspondence:gaussian_frechet_distance.ab", f"real + 2c = {real + 2 * c} vs model a+b = {ab}", {"mu_x": mx.tolist(), "cov_x": cx.tolist(), "mu_y": my.tolist(), "cov_y": cy.tolist()})

# ------------------------------------------------------------------ entry points


# ------------------------------------------------------------------ conditioning stream (sampled numerics)

def _softplus(z: float) -> float:
    return max(z, 0.0) + math.log1p(math.exp(-abs(z)))


COND_NE_FORMS = ("binary_normalized_entropy", "BinaryNormalizedEntropy")


def cond_ne_verdict(name, z, y, w, dt):
    """normalized entropy from (saturating) logits, functional or class form, vs the definition evaluated in float64 from the
    very numbers fed to torch: (holds, got, reference)"""
    ww = w or [1.0] * len(z)
    ce = sum(wi * (_softplus(zi) - zi * yi) for zi, yi, wi in zip(z, y, ww)) / sum(ww)
    pr = sum(wi * yi for yi, wi in zip(y, ww)) / sum(ww)
    ref = ce / (-pr * math.log(pr) - (1 - pr) * math.log(1 - pr))
    zt, yt = torch.tensor(z, dtype=dt), torch.tensor(y, dtype=dt)
    wt = torch.tensor(w, dtype=dt) if w else None
    if name == "binary_normalized_entropy":
        got = float(F.binary_normalized_entropy(zt, yt, weight=wt, from_logits=True))
    else:
        m = M.BinaryNormalizedEntropy(from_logits=True); m.update(zt, yt, weight=wt)
        got = float(m.compute().reshape(-1)[0])
    tol = 1e-4 if dt == torch.float32 else 1e-10
    # relative to the value, with an absolute floor on the scale of one sample's cross entropy over the base-rate entropy
    # (O(1)): when every example is confidently RIGHT the value itself is ~1e-6 and float32's log(1+e^-z) noise is relative to 1
    return abs(got - ref) <= tol * abs(ref) + (1e-6 if dt == torch.float32 else 1e-13), got, ref


def cond_cov_reference(batches, dt):
    """exact definition of the covariance of the rows in `batches` (as the float values fed to torch):
    None when there are fewer than 3 rows or a column is constant (no scale to compare against), else (n, d, cov, sd)"""
    ts = [torch.tensor(b, dtype=dt) for b in batches]
    rows = [[Fr(float(v)) for v in row] for t in ts for row in t.tolist()]
    n = len(rows)
    if n < 3:
        return None
    d = len(rows[0])
    mean = [sum(r_[c] for r_ in rows) / n for c in range(d)]
    cov = [[sum((r_[i] - mean[i]) * (r_[j] - mean[j]) for r_ in rows) / (n - 1) for j in range(d)] for i in range(d)]
    sd = [math.sqrt(float(cov[i][i])) for i in range(d)]
    if min(sd) == 0:
        return None
    return n, d, cov, sd


def cond_cov_verdict(batches, split, dt, off, ref):
    """Covariance of data far from the origin (offset `off`), streamed in `batches` and merged at `split`, vs the exact
    definition `ref` = cond_cov_reference(batches, dt): (holds, worst relative entry error, tolerance, cov[0][0] real, cov[0][0] exact)"""
    n, d, cov, sd = ref
    ts = [torch.tensor(b, dtype=dt) for b in batches]
    gm, gc = split_stream(M.Covariance, ts, split).compute()
    # pinned code: error ~ eps·(off/sd) relative to sd_i·sd_j ; one-pass ΣxxT − n·μμT: ~ eps·(off/sd)^2
    eps = 6e-8 if dt == torch.float32 else 1.2e-16
    tol = max(200 * eps * off / min(sd), 1e-6)
    worst = max(abs(float(gc[i][j]) - float(cov[i][j])) / (sd[i] * sd[j]) for i in range(d) for j in range(d))
    return worst <= tol, worst, tol, float(gc[0][0]), float(cov[0][0])


COND_MSE_FORMS = ("mean_squared_error", "MeanSquaredError")


def cond_mse_verdict(name, xs, ys, ws, dt):
    """weighted MSE with TINY positive sample weights (importance weights of order 1e-9: total weight far below the float32
    eps, far above the float64 eps that guards the division): the value must not depend on the scale of the weights.
    (holds, value returned, exact Σw·(x−y)²/Σw evaluated on the very floats fed to torch); `holds` = within the bound PROVED in the
    standard rounding model (TE/Props/C07_Round.lean) — ≈ 1e-6 relative in float32, 2e-15 in float64 for these lengths, where the
    hand-chosen constants were 1e-4 / 1e-9"""
    x, y, w = (torch.tensor(v, dtype=dt) for v in (xs, ys, ws))
    fx, fy, fw = ([Fr(float(v)) for v in t.tolist()] for t in (x, y, w))
    ref = sum(c * (a - b) ** 2 for a, b, c in zip(fx, fy, fw)) / sum(fw)
    n = len(xs)
    if name == "mean_squared_error":
        got = float(F.mean_squared_error(x, y, sample_weight=w))
        # tolerance DERIVED, not chosen: Σ fl(fl(fl(y−x)²)·w) over any tree (n − 1 additions deep at most, 4 roundings per term) divided by
        # Σ w (n − 1 deep), non-negative terms ⇒ the error is relative to the value itself      [TE.C07R.mse_rel_error / ratio_error_exact]
        c = rb_quot_const(U_ROUND[dt], n - 1 + 4, n - 1)
    else:
        m = M.MeanSquaredError(); h = n // 2
        m.update(x[:h], y[:h], sample_weight=w[:h]); m.update(x[h:], y[h:], sample_weight=w[h:])
        got = float(m.compute())
        # the class accumulates in float32 whatever the input dtype (a recorded C19 matter): float32 roundoff there; two updates, each `+=`
        # of a (possibly float64) batch statistic into the float32 state counted as two roundings (add, cast)
        #                                                                   [TE.C07R.stream_terms_error + quot_error, RSum_weaken]
        nb = max(h, n - h)
        c = rb_quot_const(U_ROUND[torch.float32], nb - 1 + 4 + 2 * 2, nb - 1 + 2 * 2)
    holds = math.isfinite(got) and abs(Fr(got) - ref) <= c * ref
    return holds, got, float(ref)


def conditioning_stream(rep: Report, rng: Rng):
    """The theorems are over exact fields; "to within floating-point rounding" is SAMPLED here on the inputs where an
    algebraically equivalent but numerically worse formula would show: saturating logits, data far from the origin
    (|mean| >> std), large magnitudes.  Reference: the definition evaluated in float64 / exact Fractions from the very
    float values fed to torch; tolerance relative to the natural scale, two orders of magnitude above what the pinned
    code achieves (so it does not flap) and far below what a one-pass / unstabilised rewrite produces."""
    reps = 12 if rep.tier == "quick" else 80
    bad = 0
    for r in range(reps):
        # (a) normalized entropy from saturating logits, confidently wrong examples included
        for dt, zs in ((torch.float32, [8, 12, 20, 30]), (torch.float64, [12, 20, 40, 60])):
            n = rng.choice([4, 7, 16])
            z = [rng.choice([-1, 1]) * rng.choice(zs + [0.5, 2.0]) for _ in range(n)]
            y = [rng.choice([0, 1]) for _ in range(n)]
            if sum(y) in (0, n):
                y[0] = 1 - y[0]
            w = [rng.choice([0.5, 1.0, 2.0]) for _ in range(n)] if r % 2 else None
            rep.case(nontrivial_key=("cond-ne", str(dt), tuple(z), tuple(y)), sample=None)
            rep.count("conditioning:normalized-entropy-saturating-logits")
            for name in COND_NE_FORMS:
                holds, got, ref = cond_ne_verdict(name, z, y, w, dt)
                if not holds:
                    bad += 1
                    rep.violation(f"C07|{name}|from_logits|saturating-logits|differs-from-definition",
                                  f"{name}(from_logits=True) on logits {z}, targets {y}, weights {w} ({dt}) returns {got} but the definition "
                                  f"Σw·(softplus(z) − z·y)/Σw over the base-rate entropy is {ref}",
                                  {"kind": "cond-ne", "fn": name, "z": z, "y": y, "w": w, "dtype": str(dt).replace("torch.", ""), "expected": ref, "got": got})
        # (b) covariance of data far from the origin, streamed and merged
        for dt, offs in ((torch.float32, [100.0, 3000.0]), (torch.float64, [1e5, 3e8])):
            d = rng.choice([2, 3]); off = rng.choice(offs)
            nb = rng.randint(2, 4)
            batches = [[[off * (1 + c) + float(rng.choice([-2, -1, -0.5, 0, 0.25, 1, 2, 3])) for c in range(d)] for _ in range(rng.choice([1, 2, 5, 9]))]
                       for _ in range(nb)]
            ref = cond_cov_reference(batches, dt)
            if ref is None:
                continue
            n = ref[0]
            split = rng.randint(1, nb)
            holds, worst, tol, got00, exp00 = cond_cov_verdict(batches, split, dt, off, ref)
            rep.case(nontrivial_key=("cond-cov", str(dt), off, n, d), sample=None)
            rep.count("conditioning:covariance-far-from-origin")
            if not holds:
                bad += 1
                rep.violation("C07|Covariance|far-from-origin|differs-from-definition",
                              f"Covariance ({dt}) on {n} rows offset by {off}: worst entry error {worst:.3g} relative to sd_i·sd_j "
                              f"(tolerance {tol:.3g}); e.g. cov[0][0] = {got00} vs definition {exp00}",
                              {"kind": "cond-cov", "batches": batches, "split": split, "dtype": str(dt).replace("torch.", ""), "off": off})
        # (c) weighted MSE with tiny sample weights
        for dt in (torch.float32, torch.float64):
            n = rng.choice([4, 8])
            xs = [float(rng.choice([0.0, 0.5, 1.0, 1.5, 2.0])) for _ in range(n)]
            ys = [float(rng.choice([0.0, 0.25, 1.0, 3.0])) for _ in range(n)]
            scale = rng.choice([1e-9, 3e-10, 1e-12])
            ws = [scale * rng.choice([1.0, 2.0, 3.0, 5.0]) for _ in range(n)]
            rep.case(nontrivial_key=("cond-mse", str(dt), tuple(xs), tuple(ys), tuple(ws)), sample=None)
            rep.count("conditioning:mse-tiny-weights")
            for name in COND_MSE_FORMS:
                holds, got, ref = cond_mse_verdict(name, xs, ys, ws, dt)
                if not holds:
                    bad += 1
                    rep.violation(f"C07|{name}|sample_weight|tiny-total-weight|differs-from-definition",
                                  f"{name} with sample weights of order {scale} (total {sum(ws):.3g}, {dt}) returns {got} but Σw·(x−y)²/Σw is {ref}",
                                  {"kind": "cond-mse", "fn": name, "x": xs, "y": ys, "w": ws, "dtype": str(dt).replace("torch.", ""), "expected": ref, "got": got})
        if bad > 6:
            break
    rep.streams["conditioning"] = {"rounds": reps, "violations": bad}

# ------------------------------------------------------------------ rounding-model stream (TE/Props/C07_Round.lean)
#
# The Lean theorems bound the error of sums / sums of rounded terms / ratios of such sums in the STANDARD MODEL of
# floating-point arithmetic (every + − × ÷ is the exact operation followed by a rounding with relative error ≤ u), for EVERY
# order of the additions (any binary tree, any per-node rounding).  What ties them to the code is one assumption about the
# trusted base: "torch's + − × ÷ on CPU tensors are correctly rounded IEEE operations (u = 2⁻²⁴ float32, 2⁻⁵³ float64),
# applied in SOME tree order, without overflow / underflow".  This stream MEASURES that assumption on every run: it feeds
# random and adversarial inputs (alternating signs, wide dynamic range, absorption, near-cancellation; lengths 1 … 4096) to
# the real torch.sum / sum / mean / Sum / Mean / mean_squared_error / click_through_rate / weighted_calibration and checks
# the PROVED bound against the exact Fraction value of the definition.

U_ROUND = {torch.float32: Fr(1, 2 ** 24), torch.float64: Fr(1, 2 ** 53)}      # unit roundoff of IEEE round-to-nearest
RM_FNS = ("torch.sum", "sum", "mean", "Sum", "Mean", "mean_squared_error", "click_through_rate", "weighted_calibration")
RM_KINDS = ("uniform", "positive", "alternating", "wide", "absorb", "near-cancel")
RM_SCALARS = (0.1, 0.3, 1 / 3, 0.7, float(2 ** 24 + 1), 1e-3, 2.5, 3.0, 0.5)      # python scalar weights: mostly NOT float32-representable


def rb_gamma(u: Fr, k: int) -> Fr:
    """γ_k = k·u / (1 − k·u)  ≥  (1+u)^k − 1  for k·u < 1        [theorem TE.C07R.pow_bound_gamma]
    (within a factor 2 of it: (1+u)^k − 1 ≤ 2·k·u for 2·k·u ≤ 1  [TE.C07R.pow_bound])"""
    k = max(int(k), 0)
    if not k * u < 1:
        raise ValueError("k·u ≥ 1: outside the hypotheses of pow_bound_gamma")
    return k * u / (1 - k * u)


def rb_sum(u: Fr, n: int, k: int, A: Fr) -> Fr:
    """n addends, each carrying ≤ k roundings of its own, summed in ANY order with any per-node rounding:
    |v − Σf| ≤ γ_d·Σ|f| for any d ≥ depth + k                     [TE.C07R.terms_sum_error_gamma; k = 0: tree_sum_error_any]
    and depth ≤ n − 1 for every tree on n leaves, so d = n − 1 + k  [TE.C07R.depth_le_size, tree_sum_error_n]"""
    return rb_gamma(u, max(n - 1, 0) + k) * A


def rb_quot_const(u: Fr, a: int, b: int) -> Fr:
    """the constant of [TE.C07R.ratio_error_gamma] (algebraic core: [TE.C07R.quot_error]): numerator within γ_a·Σ|f|, denominator
    (non-negative terms, positive total) within γ_b·Σg with γ_b < 1, rounded division:
    |q̂ − Σf/Σg| ≤ (u + (1+u)·(γ_a + γ_b)/(1 − γ_b)) · Σ|f|/Σg        (≤ (5m+1)·u·Σ|f|/Σg for a, b ≤ m, 4·m·u ≤ 1  [TE.C07R.ratio_error])
    a, b = (number of additions on the longest path, at most n − 1) + (roundings per term)."""
    eN, eD = rb_gamma(u, a), rb_gamma(u, b)
    if not eD < 1:
        raise ValueError("γ_b ≥ 1: outside the hypotheses of ratio_error_gamma")
    return u + (1 + u) * (eN + eD) / (1 - eD)


def rm_vec(rng: Rng, n: int, dt, kind: str, E: int = 30) -> torch.Tensor:
    """n values of dtype dt (kinds: see RM_KINDS); |exponents| ≤ E so that no product under/overflows"""
    if kind == "uniform":
        v = [rng.uniform(-4, 4) for _ in range(n)]
    elif kind == "positive":
        v = [rng.uniform(0.01, 1) for _ in range(n)]
    elif kind == "alternating":                                   # Σ ≈ 0, Σ|x| large: heavy cancellation
        m = 2.0 ** rng.randint(0, min(E, 12))
        v = [(-1) ** i * m * (1 + rng.random() / 1024) for i in range(n)]
    elif kind == "wide":                                          # wide dynamic range, mixed signs
        v = [rng.choice([-1, 1]) * 2.0 ** rng.randint(-E, E) * rng.uniform(1, 2) for _ in range(n)]
    elif kind == "absorb":                                        # one huge addend swallows the small ones in a sequential sum
        big = 2.0 ** min(E, 24 if dt == torch.float32 else 53)
        v = [big] + [rng.choice([1.0, 1.0, 0.5, 3.0]) for _ in range(max(n - 2, 0))] + ([-big] if n > 1 else [])
    elif kind == "near-cancel":                                   # x, −x(1+δ) pairs
        v = []
        while len(v) < n:
            x = rng.uniform(1, 2) * 2.0 ** rng.randint(-4, 4)
            v += [x, -x * (1 + rng.random() / 4096)]
        v = v[:n]
    else:
        raise KeyError(kind)
    return torch.tensor(v, dtype=torch.float64).to(dt)


def rm_pos(rng: Rng, n: int, dt, wide: bool) -> torch.Tensor:
    """n positive weights (float32-representable, so that a `.type(torch.float)` on the way is exact)"""
    v = [rng.uniform(1, 2) * 2.0 ** rng.randint(-12, 12) if wide else rng.choice([0.25, 0.5, 1.0, 2.0, 3.0, rng.uniform(0.1, 2)]) for _ in range(n)]
    return torch.tensor(v, dtype=torch.float32).to(dt)


def _scalar_roundings(w, n: int, dt):
    """a PYTHON scalar weight w on its way through _mean_update / _sum_update with an n-element tensor of dtype dt:
    (roundings of the weight itself when it enters a dt tensor operation, roundings of the total weight
    `torch.tensor(float(w) * n)` — the double product, then the cast to the tensor's dtype)"""
    kc = 0 if _exact_in(w, dt) else 1
    kd = (0 if Fr(float(w) * n) == Fr(float(w)) * n else 1) + (0 if dt == torch.float64 or _exact_in(float(w) * n, torch.float32) else 1)
    return kc, kd


def _rm_weight(w, x: torch.Tensor, dt):
    """weight spec of a case (None = the default 1.0 | python scalar | list = tensor) ->
    (argument for torch or None, exact per-element weights, roundings of the weight, roundings of a scalar total weight)"""
    n = x.numel()
    if w is None:
        return None, [Fr(1)] * n, 0, 0
    if isinstance(w, (int, float)):
        kc, kd = _scalar_roundings(w, n, dt)
        return float(w), [Fr(float(w))] * n, kc, kd
    t = torch.tensor(w, dtype=torch.float64).to(dt)
    return t, fr(t), 0, None


def rm_eval(fn: str, dt, d: dict):
    """run the REAL function on the tensors in `d` and return (got: float, ref: Fraction = the definition evaluated exactly on the
    very floats fed to torch, bound: Fraction = the proved bound on |got − ref|).  Raises ValueError outside the hypotheses.
    Weights: None (default), a python scalar (possibly NOT representable in the tensor's dtype: 0.1, 1/3, 2**24+1), or a list (tensor)."""
    u = U_ROUND[dt]
    tens = lambda key: None if d.get(key) is None else torch.tensor(d[key], dtype=torch.float64).to(dt)
    if fn in ("Sum", "Mean"):
        # class accumulators: float64 states, one tree sum per update  [TE.C07R.stream_terms_error, TE.C07R.mean_class_error];
        # float32 batch statistics accumulated by float64 `+=` are admissible for u = u(dt)  [TE.C07R.mixed_stream_error]
        bx = [torch.tensor(b, dtype=torch.float64).to(dt) for b in d["batches"]]
        ws = [_rm_weight(w, x, dt) for w, x in zip(d["weights"], bx)]
        split = d.get("split")
        objs = [getattr(M, fn)(), getattr(M, fn)()]
        for i, (x, (wa, _, _, _)) in enumerate(zip(bx, ws)):
            o = objs[0 if split is None or i < split else 1]
            o.update(x) if wa is None else o.update(x, weight=wa)
        if split is not None:
            objs[0].merge_state([objs[1]])
        got = float(objs[0].compute())
        terms = [wi * xi for x, (_, we, _, _) in zip(bx, ws) for xi, wi in zip(fr(x), we)]
        N, A = sum(terms), sum(abs(t) for t in terms)
        dmax = max(x.numel() for x in bx) - 1
        deep = dmax + len(bx) + (1 if split is not None else 0)       # max batch depth + #updates (+ the merge)
        a = deep + 1 + max(kc for _, _, kc, _ in ws)                    # + one product per term (+ the cast of a scalar weight)
        if fn == "Sum":
            return got, N, rb_gamma(u, a) * A
        D = sum(sum(we) for _, we, _, _ in ws)
        if D <= 0 or any(min(we) < 0 for _, we, _, _ in ws):
            raise ValueError("weights must be non-negative with positive total")
        b = deep + max(kd or 0 for _, _, _, kd in ws)
        return got, N / D, rb_quot_const(u, a, b) * A / D
    x = tens("x"); n = x.numel(); xs = fr(x)
    if fn == "torch.sum":
        return float(torch.sum(x)), sum(xs), rb_sum(u, n, 0, sum(abs(v) for v in xs))
    wa, ws, kc, kd = _rm_weight(d.get("w"), x, dt)
    if fn == "sum":
        terms = [a * b for a, b in zip(ws, xs)]
        got = float(F.sum(x, wa)) if wa is not None else float(F.sum(x))
        return got, sum(terms), rb_sum(u, n, 1 + kc, sum(abs(t) for t in terms))               # [TE.C07R.wsum_error]
    if fn == "mean":
        terms, D = [p * q for p, q in zip(ws, xs)], sum(ws)
        if min(ws) < 0 or D <= 0:
            raise ValueError("weights must be non-negative with positive total")
        if kd is None:                                                                             # tensor weights: Σ fl(w·x) / Σ w
            got, a, b = float(F.mean(x, wa)), n - 1 + 1, n - 1
        else:                                                                                      # fl(ŵ · fl-Σx) / tensor(float(w)·n)
            got, a, b = (float(F.mean(x)) if wa is None else float(F.mean(x, wa))), n - 1 + 1 + kc, kd
        return got, sum(terms) / D, rb_quot_const(u, a, b) * sum(abs(t) for t in terms) / D       # [TE.C07R.wmean_error]
    if isinstance(wa, float):
        raise ValueError(f"{fn} takes a weight tensor")
    ws = None if wa is None else ws; w = wa
    if fn == "mean_squared_error":
        y = tens("y"); ys = fr(y)
        if ws is None:
            got, terms, D, a, b = float(F.mean_squared_error(x, y)), [(q - p) ** 2 for p, q in zip(xs, ys)], Fr(n), n - 1 + 3, 0
        else:
            got = float(F.mean_squared_error(x, y, sample_weight=w))
            terms, D, a, b = [c * (q - p) ** 2 for p, q, c in zip(xs, ys, ws)], sum(ws), n - 1 + 4, n - 1
            if min(ws) < 0 or D < Fr(2) ** -52:
                raise ValueError("weights must be non-negative with a total above the eps guard")
        return got, sum(terms) / D, rb_quot_const(u, a, b) * sum(terms) / D                       # [TE.C07R.mse_rel_error]: relative to the value
    if fn == "click_through_rate":
        # the code casts the weights (and, without weights, the click total) to float32 whatever the input dtype: float32 roundoff
        u = U_ROUND[torch.float32]
        if ws is None:
            got, terms, D, a, b = float(F.click_through_rate(x)), xs, Fr(n), n - 1 + 2, 1
        else:
            got, terms, D, a, b = float(F.click_through_rate(x, w)), [p * q for p, q in zip(ws, xs)], sum(ws), n, n - 1 + 1
            if min(ws) < 0 or D < Fr(2) ** -100:
                raise ValueError("weights must be non-negative, total ≥ 2^-100 (so that `+ tiny` is absorbed)")
        return got, sum(terms) / D, rb_quot_const(u, a, b) * sum(abs(t) for t in terms) / D       # [TE.C07R.wmean_error]
    if fn == "weighted_calibration":
        t = tens("t"); ts = fr(t)
        if ws is None:
            got, num, den = float(F.weighted_calibration(x, t)), xs, ts
        else:
            got, num, den = float(F.weighted_calibration(x, t, w)), [p * q for p, q in zip(ws, xs)], [p * q for p, q in zip(ws, ts)]
        D = sum(den)
        if min(den) < 0 or D <= 0:
            raise ValueError("denominator terms must be non-negative with positive total")
        return got, sum(num) / D, rb_quot_const(u, n, n) * sum(abs(v) for v in num) / D            # [TE.C07R.wratio_error]
    raise KeyError(fn)


def rm_verdict(fn, dt, d):
    """(holds, got, ref, bound, |got − ref| / bound as a float)"""
    got, ref, bound = rm_eval(fn, dt, d)
    if not math.isfinite(got):
        return False, got, ref, bound, math.inf
    err = abs(Fr(got) - ref)
    return err <= bound, got, ref, bound, (float(err / bound) if bound > 0 else (0.0 if err == 0 else math.inf))


def rm_cases(rng: Rng, tier: str):
    """(fn, dtype, data dict, kind, n)"""
    lens = [1, 2, 3, 5, 8, 17, 64, 100, 256, 1000, 4096]
    reps = 1 if tier == "quick" else 6
    tl = lambda t: t.to(torch.float64).tolist()
    for dt in (torch.float32, torch.float64):
        for kind in RM_KINDS:
            for n in lens:
                for _ in range(reps if n <= 256 or tier != "quick" else 1):
                    wide = rng.random() < 0.5
                    x = rm_vec(rng, n, dt, kind, E=40)
                    yield "torch.sum", dt, {"x": tl(x)}, kind, n
                    x = rm_vec(rng, n, dt, kind, E=20)
                    w = rm_pos(rng, n, dt, wide)
                    sw = rm_vec(rng, n, dt, rng.choice(["uniform", "wide"]), E=12)               # signed weights are fine for a SUM
                    yield "sum", dt, {"x": tl(x), "w": tl(rng.choice([w, sw]))}, kind, n
                    yield "mean", dt, {"x": tl(x), "w": tl(w) if rng.random() < 0.7 else None}, kind, n
                    # PYTHON scalar weights, incl. values that are not representable in float32 / not dyadic: the total weight
                    # `float(w)·n` must be as accurate as the working precision (float64 inputs: float64 — a float32 denominator there
                    # was the defect fixed by 075caf0; float32 inputs: the cast of the weight and of the total count as roundings)
                    sc = rng.choice(RM_SCALARS)
                    yield "mean", dt, {"x": tl(x), "w": sc}, kind, n
                    yield "sum", dt, {"x": tl(x), "w": rng.choice(RM_SCALARS)}, kind, n
                    y = rm_vec(rng, n, dt, rng.choice(["uniform", kind]), E=10)
                    x2 = rm_vec(rng, n, dt, kind, E=10) if rng.random() < 0.6 else (y.to(torch.float64) * (1 + 2.0 ** -10) + 2.0 ** -8).to(dt)
                    yield "mean_squared_error", dt, {"x": tl(x2), "y": tl(y), "w": tl(w) if rng.random() < 0.6 else None}, kind, n
                    clicks = torch.tensor([float(rng.random() < 0.3) for _ in range(n)], dtype=dt) if rng.random() < 0.5 else x
                    yield "click_through_rate", dt, {"x": tl(clicks), "w": tl(w) if rng.random() < 0.7 else None}, kind, n
                    tpos = torch.tensor([float(rng.random() < 0.4) for _ in range(n - 1)] + [1.0], dtype=dt) if rng.random() < 0.5 else rm_pos(rng, n, dt, False)
                    yield "weighted_calibration", dt, {"x": tl(x), "t": tl(tpos), "w": tl(w) if rng.random() < 0.7 else None}, kind, n
            # class accumulators: several updates of different sizes, optionally two shards merged
            for _ in range(4 * reps):
                nb = rng.randint(1, 6)
                sizes = [rng.choice([1, 2, 7, 64, 300, 1000]) for _ in range(nb)]
                batches = [rm_vec(rng, k, dt, kind, E=20) for k in sizes]
                weights = [(tl(rm_pos(rng, k, dt, rng.random() < 0.5)) if rng.random() < 0.6 else None) if rng.random() < 0.7 else rng.choice(RM_SCALARS)
                           for k in sizes]
                split = rng.randint(1, nb) if nb > 1 and rng.random() < 0.4 else None
                for c in ("Sum", "Mean"):
                    yield c, dt, {"batches": [tl(b) for b in batches], "weights": weights, "split": split}, kind, sum(sizes)


def rounding_model_stream(rep: Report, rng: Rng):
    worst: dict = {}
    ncase = nbad = 0
    for fn, dt, d, kind, n in rm_cases(rng, rep.tier):
        dn = str(dt).replace("torch.", "")
        try:
            holds, got, ref, bound, ratio = rm_verdict(fn, dt, d)
        except ValueError as e:                                   # generated outside the theorem's hypotheses: not a case
            rep.count("rounding-model:outside-hypotheses"); rep.notes.append(f"rounding-model {fn}: {e}") if len(rep.notes) < 5 else None
            continue
        ncase += 1
        rep.count(f"rounding-model:{fn}"); rep.count(f"rounding-model:kind:{kind}"); rep.count(f"rounding-model:dtype:{dn}")
        rep.count("rounding-model:n:" + ("1" if n == 1 else "2-8" if n <= 8 else "9-256" if n <= 256 else "257-4096" if n <= 4096 else ">4096"))
        rep.case(nontrivial_key=("round", fn, dn, kind, n, repr(got)) if n > 1 and ref != 0 else None,
                 sample={"rounding-model": fn, "dtype": dn, "kind": kind, "n": n, "got": got, "exact": float(ref), "proved_bound": float(bound),
                         "err_over_bound": ratio} if ncase % 997 == 1 else None)
        key = f"{fn}/{dn}"
        worst[key] = max(worst.get(key, 0.0), ratio)
        if holds:
            continue
        nbad += 1
        replay = {"kind": "round-model", "fn": fn, "dtype": dn, "data": d, "got": got, "exact": str(ref), "bound": str(bound)}
        what = (f"{fn} ({dn}, {kind}, n={n}) returns {got!r}; the definition evaluated exactly on the same floats is {float(ref)!r}; "
                f"|difference| = {ratio:.3g} × the bound proved in the standard rounding model ({float(bound):.3g})")
        if fn == "torch.sum":
            # not a torcheval metric: the ASSUMPTION of the trusted base (correctly rounded operations in some tree order) failed
            rep.broke("assumption:torch-cpu-arithmetic-is-the-standard-model", what, replay)
        else:
            rep.violation(f"C07|{fn}|{dn}|outside-proved-rounding-bound", what, replay)
        if nbad > 6:
            break
    rep.streams["rounding-model"] = {"cases": ncase, "outside_bound": nbad,
                                     "worst_error_over_proved_bound": {k: float(f"{v:.3g}") for k, v in sorted(worst.items())}}


# ------------------------------------------------------------------ kernel stream (generated terms vs the real kernels)
# (T) harness/translators/kernels.py translates the private kernels of mean / sum / auc / mean_squared_error / r2_score / psnr from
# their source into terms of TE/Model/TExpr.lean (TE/Gen/KernelsAgg.lean, regenerated here); TE/Props/C07_Kernels.lean proves the
# generated terms equal to the models of TE/Model/Agg.lean; this stream runs the generated terms against the REAL kernels.

KERNEL_MODULES = {"aggregation/mean": "torcheval.metrics.functional.aggregation.mean", "aggregation/sum": "torcheval.metrics.functional.aggregation.sum",
                  "aggregation/auc": "torcheval.metrics.functional.aggregation.auc",
                  "regression/mean_squared_error": "torcheval.metrics.functional.regression.mean_squared_error",
                  "regression/r2_score": "torcheval.metrics.functional.regression.r2_score", "image/psnr": "torcheval.metrics.functional.image.psnr"}
KERNEL_EXACT_TAGS = {"exh", "exh-w", "grid", "dyadic", "err", "empty", "zero-weight", "int-input", "scalar-weight"}


def translate(rep: Report):
    """(T) regenerate lean/TE/Gen/KernelsAgg.lean from the kernels' source (TE.Props.C07_Kernels is proved about it)"""
    from ..translators import kernels
    from ..common import LEAN
    rows = kernels.generate(rep, family="C07")
    props = (LEAN / "TE" / "Props" / "C07_Kernels.lean").read_text()
    for r in rows:
        if r["term"] is not None and f"Gen.Agg.k_{r['id']}" not in props.replace(f"Gen.Agg.k_{r['id']}_", ""):
            rep.broke(f"kernels:{r['id']}", f"kernel {r['func']} is translated but no theorem of TE/Props/C07_Kernels.lean is about Gen.Agg.k_{r['id']}", {})


def kenc(v) -> str:
    """typed argument syntax of the `gen.<kernel>` requests (TE/Driver/Kernels.lean)"""
    from ..common import fq
    if isinstance(v, torch.Tensor):
        return enc_tensor(v)
    if v is None:
        return "none"
    if isinstance(v, bool):
        return "b.true" if v else "b.false"
    if isinstance(v, int):
        return f"i.{v}"
    if isinstance(v, float):
        return "q." + fq(v)
    if isinstance(v, str):
        return "s." + v
    raise TypeError(f"kernel argument {v!r}")


def kernel_rows():
    import importlib
    from ..translators import kernels
    rows = {r["id"]: r for r in kernels.facts(family="C07")}
    for r in rows.values():
        if "fn" not in r:
            try:
                r["fn"] = getattr(importlib.import_module(KERNEL_MODULES[r["module"]]), r["func"], None)
            except Exception:  # noqa: BLE001
                r["fn"] = None
    return rows


def kernel_calls(rows, fn, kw):
    """the kernel calls behind one functional case: [(kernel id, kwargs, real outcome, post)] — update kernel(s) on the case's
    arguments, then the compute kernel on what the REAL update returned; `post` maps the generated term's answer to the value
    to compare (PSNR: the term is run up to `log10`)."""
    out = []

    def add(kid, a, post=None):
        r = rows.get(kid)
        if r is None or r["term"] is None or r.get("fn") is None:
            return None
        if any(isinstance(v, torch.Tensor) and v.ndim > 2 for v in a.values()):
            return None                                     # the driver's tensors have rank <= 2
        real = call_real(r["fn"], **a)
        out.append((kid, a, real, post))
        return real

    if fn in ("mean", "sum"):
        a = {"input": kw["input"], "weight": kw.get("weight", 1.0)}
        if fn == "mean":
            add("mean_update", a), add("mean_compute", a)
        else:
            add("sum_update", a)
    elif fn == "auc":
        x, y, ro = kw["x"], kw["y"], bool(kw.get("reorder", False))
        if x.shape == y.shape:
            add("auc_compute", {"x": x, "y": y, "reorder": ro})
    elif fn == "mean_squared_error":
        mo = kw.get("multioutput", "uniform_average")
        a = {"input": kw["input"], "target": kw["target"], "sample_weight": kw.get("sample_weight")}
        real = add("mean_squared_error_update", a)
        if real is not None and real[0] == "ok":
            add("mse__update", a)
            if mo in ("raw_values", "uniform_average"):
                add("mean_squared_error_compute", {"sum_squared_error": real[1][0], "multioutput": mo, "sum_weight": real[1][1]})
    elif fn == "r2_score":
        mo, p = kw.get("multioutput", "uniform_average"), kw.get("num_regressors", 0)
        a = {"input": kw["input"], "target": kw["target"]}
        real = add("r2_score_update", a)
        if real is not None and real[0] == "ok":
            add("r2__update", a)
            if mo in ("raw_values", "uniform_average", "variance_weighted") and p >= 0:
                b = {"sum_squared_obs": real[1][0], "sum_obs": real[1][1], "rss": real[1][2], "num_obs": real[1][3],
                     "multioutput": mo, "num_regressors": p}
                rc = add("r2_score_compute", b)
                if rc is not None and rc[0] == "ok":
                    add("r2__compute", b)
    elif fn.startswith("peak_signal_noise_ratio"):
        a = {"input": kw["input"], "target": kw["target"]}
        real = add("psnr_update", a)
        if real is not None and real[0] == "ok" and kw["target"].numel() > 0:
            dr = kw.get("data_range")
            if dr is None or dr > 0:
                rng_t = (kw["target"].max() - kw["target"].min()) if dr is None else torch.tensor(dr, dtype=kw["target"].dtype)
                add("psnr_compute", {"sum_square_error": real[1][0], "num_observations": real[1][1], "data_range": rng_t}, "10log10")
    return out


def _post_10log10(model):
    if model[0] != "ok":
        return model
    vals = []
    for shape, data in model[1]:
        vals.append((shape, [(10 * math.log10(a) if a > 0 else (-math.inf if a == 0 else NAN)) if isinstance(a, Fr) else
                             (math.inf if a == math.inf else NAN) for a in data]))
    return ("ok", vals)


def kernel_stream(rep: Report, rng: Rng):
    """the GENERATED term of every translated kernel (request `gen.<kernel>`) against the REAL private kernel function on the same
    arguments: grid / dyadic values whose sums are exact in the working precision, so that the only rounding is the final division
    (tolerance of the dtype, `common.tol_for`).  A disagreement is a broken correspondence between the source and its translation
    (`kernels:<name>`), never a violation by itself."""
    rows = kernel_rows()
    cap = 12000 if rep.tier == "thorough" else 2500
    per_fn = {}
    for fn, kw, tag in all_cases(rng, rep.tier):
        base = "peak_signal_noise_ratio" if fn.startswith("peak_signal_noise_ratio") else fn
        if base not in ("mean", "sum", "auc", "mean_squared_error", "r2_score", "peak_signal_noise_ratio") or tag[0] not in KERNEL_EXACT_TAGS:
            continue
        per_fn.setdefault(base, []).append((fn, kw, tag))
    calls = []
    for base, cs in per_fn.items():
        # an evenly spaced sample over the generators' whole sequence (1-D and 2-D, weighted and unweighted, every dtype) plus
        # every rejected / degenerate case
        keep = max(1, cap // 6)
        stride = max(1, len(cs) // keep)
        for i, (fn, kw, tag) in enumerate(cs):
            if i % stride == 0 or tag[0] in ("err", "empty", "zero-weight"):
                calls += kernel_calls(rows, fn, kw)
    # a ValueError / TypeError of an update kernel comes from its `_input_check`, which the translation skips (C18)
    calls = [c for c in calls if not (c[2][0] == "err" and c[2][1] in ("ValueError", "TypeError") and c[0].endswith("_update")
                                      and c[0] not in ("mean_update", "sum_update"))]
    lines = [f"fn gen.{kid} " + " ".join(f"{k}={kenc(v)}" for k, v in a.items()) for kid, a, _, _ in calls]
    outs = run_driver(lines)
    nbad = {}
    for (kid, a, real, post), line, o in zip(calls, lines, outs):
        rep.count(f"kernel-stream:{kid}")
        if real[0] == "err":
            rep.count(f"kernel-stream:err:{real[1]}")
        rep.case(nontrivial_key=("kernel", line), sample={"request": line[:300], "model": o[:200]} if rep.dist.get(f"kernel-stream:{kid}") == 1 else None)
        rep.traces += 1
        model = dec_out(o)
        if post == "10log10":
            model = _post_10log10(model)
        dt = dtype_of(a)
        msg = outcomes_agree(real, model, tol=None if post is None else 50 * TOL[dt], strict_kind=True)
        if msg is None:
            continue
        nbad[kid] = nbad.get(kid, 0) + 1
        if nbad[kid] <= 3:
            rep.broke(f"kernels:{kid}", f"the term generated from the source of {rows[kid]['module']}.{rows[kid]['func']} and the real function disagree ({msg}) "
                      f"on {line[:400]}", {"kind": "kernel", "kernel": kid, "request": line, "generated": o,
                                           "real": real[1] if real[0] == "err" else [t.tolist() for t in real[1]]})
    untr = [k for k, r in rows.items() if r["term"] is None]
    rep.streams["kernels"] = {"cases": len(calls), "disagreements": sum(nbad.values()), "untranslated": untr,
                              "partial": {k: r["partial"] for k, r in rows.items() if r.get("partial")}}


def run(rep: Report):
    rng = Rng(rep.seed * 1000003 + 7)
    from . import c07_frechet; c07_frechet.run(rep)      # coordinator's module (a dozen cheap cases, first so that no budget starves it)
    check_functional(rep, all_cases(rng, rep.tier), "functional")
    class_programs(rep, rng)
    cov_streams(rep, rng)
    fad_streams(rep, rng)
    conditioning_stream(rep, Rng(rep.seed * 7919 + 13))
    rounding_model_stream(rep, Rng(rep.seed * 104729 + 29))
    kernel_stream(rep, Rng(rep.seed * 1000003 + 777))


def search(rep: Report):
    """a proof obligation or the correspondence broke: look for an input where the real code leaves the
    definition (Fraction oracle only — independent of the Lean model), thorough-size space, capped at 120 s."""
    rng = Rng(rep.seed * 7919 + 707)
    deadline = time.time() + 120
    for fn, kw, tag in all_cases(rng, "thorough"):
        if time.time() > deadline or rep.violations:
            return
        real = real_call(fn, kw)
        if real[0] != "ok":
            continue
        agrees, msg, exp = definition_verdict(fn, kw, real)
        if agrees is False:
            rep.violation(f"C07|{fn}|{config_class(fn, kw)}|differs-from-definition", f"{fn} differs from its definition: {msg}",
                          {"kind": "functional", "case": kw_json(fn, kw), "real": [t.tolist() for t in real[1]], "definition": [str(x) for x in exp]})


def _nothing(reason):
    raise ValueError(f"nothing to replay: {reason}")


def _dtype_of_name(name):
    if name in ("float32", "torch.float32"):
        return torch.float32
    if name in ("float64", "torch.float64"):
        return torch.float64
    _nothing(f"unknown dtype {name!r}")


def _batches(r):
    bs = r.get("batches")
    if not isinstance(bs, list) or not bs or not all(is_tdesc(b) for b in bs) or not isinstance(r.get("split"), int):
        _nothing("stream payload without its batches (shape, dtype, data) and the shard split")
    return [tundesc(b) for b in bs], r["split"]


def replay(payload) -> bool:
    """True iff the property holds on the recorded input; one oracle per payload kind (the one that raised the violation):
    functional -> definition_verdict; cov-stream -> cov_stream_verdict; minmax-stream -> minmax_stream_verdict;
    fad-moments -> fad_moments_verdict; cond-ne -> cond_ne_verdict; cond-cov -> cond_cov_verdict; cond-mse -> cond_mse_verdict;
    round-model -> rm_verdict (the bound proved in TE/Props/C07_Round.lean)."""
    if not isinstance(payload, dict) or payload.get("kind", "failing-input") != "failing-input":
        _nothing(f"payload kind {payload.get('kind') if isinstance(payload, dict) else None!r} carries no concrete input")
    rp = payload.get("replay") or {}
    if isinstance(rp, dict) and rp.get("kind") == "frechet-rank":
        from . import c07_frechet
        return c07_frechet.replay(rp)
    r = payload.get("replay")
    if not isinstance(r, dict) or not r:
        _nothing("the payload carries no replay dict")
    kind = r.get("kind")
    if kind == "functional" or (kind is None and isinstance(r.get("case"), dict)):
        c = r.get("case")
        if not isinstance(c, dict) or c.get("fn") not in ORACLE:
            _nothing("functional payload without a case of a function that has a definition oracle")
        fn, kw = kw_from_json(c)
        real = real_call(fn, kw)
        if real[0] != "ok":
            _nothing(f"the real call raises {real[1]} on the recorded input: the definition oracle only judges returned values")
        agrees, msg, exp = definition_verdict(fn, kw, real)
        if agrees is None:
            _nothing(f"the definition of {fn} is undefined on the recorded input")
        if not agrees:
            print(f"replay: {fn} differs from its definition: {msg}"[:600])
        return bool(agrees)
    if kind == "cov-stream":
        batches, split = _batches(r)
        agrees, real, exp = cov_stream_verdict(batches, split)
        if agrees is None:
            _nothing("fewer than two rows or compute() raised: the covariance definition does not decide")
        if not agrees:
            print(f"replay: Covariance gives {real} but the definition gives {exp}"[:600])
        return bool(agrees)
    if kind == "minmax-stream":
        if r.get("class") not in ("Max", "Min"):
            _nothing("minmax-stream payload without its class (Max / Min)")
        batches, split = _batches(r)
        holds, real, exp = minmax_stream_verdict(r["class"], batches, split)
        if not holds:
            print(f"replay: {r['class']} gives {real}, expected {exp}")
        return bool(holds)
    if kind == "fad-moments":
        ups = r.get("updates")
        if not isinstance(r.get("d"), int) or r.get("side") not in ("pred", "target") or not isinstance(ups, list) or not ups \
                or not all(isinstance(u, list) and len(u) == 2 and all(is_tdesc(x) for x in u) for u in ups):
            _nothing("fad-moments payload without embedding dimension, side and the update() batches")
        updates = [(tundesc(u[0]), tundesc(u[1])) for u in ups]
        try:
            moments = fad_capture(r["d"], updates)
        except Exception as e:  # noqa: BLE001
            _nothing(f"FrechetAudioDistance did not deliver moments on the recorded stream ({e!r})")
        agrees, (mu, cov) = fad_moments_verdict(r["d"], updates, r["side"], moments)
        if not agrees:
            print(f"replay: FAD {r['side']} moments {mu.tolist()} / {cov.tolist()} differ from the sample mean / unbiased covariance")
        return bool(agrees)
    if kind == "cond-ne":
        if r.get("fn") not in COND_NE_FORMS or not isinstance(r.get("z"), list) or not isinstance(r.get("y"), list) or "w" not in r:
            _nothing("cond-ne payload without the form (functional / class), logits, targets and weights")
        holds, got, ref = cond_ne_verdict(r["fn"], r["z"], r["y"], r["w"], _dtype_of_name(r.get("dtype")))
        if not holds:
            print(f"replay: {r['fn']} returns {got}, the definition gives {ref}")
        return bool(holds)
    if kind == "cond-mse":
        if r.get("fn") not in COND_MSE_FORMS or not all(isinstance(r.get(k), list) for k in ("x", "y", "w")):
            _nothing("cond-mse payload without the form and the x / y / w lists")
        holds, got, ref = cond_mse_verdict(r["fn"], r["x"], r["y"], r["w"], _dtype_of_name(r.get("dtype")))
        if not holds:
            print(f"replay: {r['fn']} returns {got}, the definition gives {ref}")
        return bool(holds)
    if kind == "cond-cov":
        if not isinstance(r.get("batches"), list) or not isinstance(r.get("split"), int) or not isinstance(r.get("off"), (int, float)):
            _nothing("cond-cov payload without batches, split and the offset that scales the tolerance")
        dt = _dtype_of_name(r.get("dtype"))
        ref = cond_cov_reference(r["batches"], dt)
        if ref is None:
            _nothing("fewer than 3 rows or a constant column: no scale to compare against")
        holds, worst, tol, _g, _e = cond_cov_verdict(r["batches"], r["split"], dt, r["off"], ref)
        if not holds:
            print(f"replay: worst covariance entry error {worst:.3g} (tolerance {tol:.3g})")
        return bool(holds)
    if kind == "round-model":
        if r.get("fn") not in RM_FNS or not isinstance(r.get("data"), dict):
            _nothing("round-model payload without the function name and the tensors fed to it")
        dt = _dtype_of_name(r.get("dtype"))
        try:
            holds, got, ref, bound, ratio = rm_verdict(r["fn"], dt, r["data"])
        except (ValueError, KeyError, TypeError) as e:
            _nothing(f"the recorded input is outside the hypotheses of the rounding-model theorems ({e!r})")
        if not holds:
            print(f"replay: {r['fn']} returns {got!r}, exact definition {float(ref)!r}: |difference| = {ratio:.3g} × the proved rounding bound {float(bound):.3g}")
        return bool(holds)
    _nothing(f"replay kind {kind!r} is not one of functional / cov-stream / minmax-stream / fad-moments / cond-ne / cond-cov / cond-mse / round-model")
