"""C09 — checkpoint (state_dict→load_state_dict into a fresh instance), pickle, clone_metric
and deepcopy reproduce a metric's present and future behaviour; copies are independent;
state_dict() output is not aliased to live state.
(T) states translator regenerates lean/TE/Gen/States.lean (registered states, plain attributes
written after construction) and Lean decides `restoreSafe` per class. (D) real vs real at
checkpoint positions of random histories with a shared continuation."""
from __future__ import annotations
import copy, pickle, time
import torch
from ..common import Rng, Report, budget, ckey
from ..registry import SPECS, Spec, fresh_cfg, public_cfg, new_metric
from ..engine import observe, same_obs, obs_json, snapshot, snap_equal
from ..hist import f64_ops, grad_ops, random_ops, apply_op, describe_ops, same_step
from ..translators import states as states_tr
from torcheval.metrics.toolkit import clone_metric

LEVEL = "proof"
RULE = ("random history (updates, merges, resets, computes); at sampled (quick) / every (thorough) prefix the object is copied four ways "
        "(state_dict→load_state_dict into a fresh instance, pickle, clone_metric, deepcopy); a shared continuation long enough to wrap "
        "windows is applied to copy and original and compared step by step; independence and state_dict aliasing are checked by mutating "
        "one side; non-trivial = checkpoint after ≥ 1 successful update")
MODELLED = ["device placement", "what pickle/deepcopy do to tensors (torch)"]
ASSUMPTIONS = ["the restored instance is constructed with the same configuration (the documented contract)"]
TRUSTED_EXTRA = ["harness/translators/states.py (AST + runtime attribute diff) producing lean/TE/Gen/States.lean"]

HOW = ["load_state_dict", "pickle", "clone_metric", "deepcopy"]


def translate(rep: Report):
    states_tr.generate(rep)


def make_copy(how, m, spec, cfg):
    if how == "load_state_dict":
        n = new_metric(spec, cfg)
        n.load_state_dict(m.state_dict())
        return n
    if how == "pickle":
        return pickle.loads(pickle.dumps(m))
    if how == "clone_metric":
        return clone_metric(m)
    return copy.deepcopy(m)


def replay_prefix(spec, cfg, ops):
    m = new_metric(spec, cfg)
    n = 0
    for op in ops:
        r = apply_op(m, op, spec, cfg)
        if op[0] == "u" and r[1] is None:
            n += 1
    return m, n


def examine(spec: Spec, cfg: dict, how: str, hist, cont):
    """the property's oracle on one checkpoint: `hist` is replayed on a fresh instance, the object is copied by `how`,
    `cont` is applied to copy and original.  None when the property holds, else (signature, what, replay dict).
    Used by the sweep and by replay()."""
    return _examine(spec, cfg, how, hist, cont)[0]


def _examine(spec: Spec, cfg: dict, how: str, hist, cont):
    """(verdict, number of successful updates in `hist`)."""
    orig, nupd = replay_prefix(spec, cfg, hist)

    def bad(sig, what, **extra):
        return (sig, what, {"class": spec.name, "cfg": public_cfg(cfg), "how": how, "history": describe_ops(hist),
                            "continuation": describe_ops(cont), **extra}), nupd
    # state_dict() must not alias live state
    before = snapshot(orig)
    sd = orig.state_dict()
    for v in sd.values():
        ts = [v] if isinstance(v, torch.Tensor) else (list(v) if isinstance(v, list) else (list(v.values()) if isinstance(v, dict) else []))
        for t in ts:
            if t.numel() and t.dtype != torch.bool:
                t.add_(1)
    if not snap_equal(before, snapshot(orig)):
        return bad(f"C09|{spec.name}|state_dict-aliases-live-state", f"{spec.name}: mutating the tensors returned by state_dict() changed the metric",
                   check="state_dict-alias")
    try:
        cp = make_copy(how, orig, spec, cfg)
    except Exception as e:  # noqa: BLE001
        return bad(f"C09|{spec.name}|{how}|copy-raises", f"{spec.name}: {how} raised {e!r}", check="copy")
    # The recorded windowed findings are "the ring-buffer cursor is a plain attribute, so a restored instance has it back at its
    # construction default 0".  A restore that leaves the cursor anywhere else and still differs is another defect (e.g. an override
    # that re-derives the cursor wrongly) and gets its own signature, so that the recorded finding cannot mask it.
    cur_o, cur_c = getattr(orig, "next_inserted", None), getattr(cp, "next_inserted", None)
    differs = "differs-after-restore"
    if how == "load_state_dict" and isinstance(cur_c, int) and cur_c != 0 and cur_c != cur_o:
        differs = "cursor-restored-to-a-wrong-slot"
    o0, c0 = observe(orig), observe(cp)
    if not same_obs(o0, c0, 0.0 if how != "load_state_dict" else 0.0):
        return bad(f"C09|{spec.name}|{how}|{differs}",
                   f"{spec.name}{public_cfg(cfg)}: compute() right after {how}: original {obs_json(o0)}, copy {obs_json(c0)}",
                   check="compute-after-restore")
    # independence: run the continuation on the copy first, the original must not move
    before = snapshot(orig)
    cres = [apply_op(cp, op, spec, cfg) for op in cont]
    if not snap_equal(before, snapshot(orig)):
        return bad(f"C09|{spec.name}|{how}|copy-not-independent", f"{spec.name}: operating on the {how} copy changed the original",
                   check="independence")
    for k, op in enumerate(cont):
        ro = apply_op(orig, op, spec, cfg)
        if not same_step(ro, cres[k], 0.0):
            return bad(f"C09|{spec.name}|{how}|{differs}",
                       f"{spec.name}{public_cfg(cfg)}: step {k} of the continuation after {how}: original {ro if ro[0] != 'o' else obs_json(ro[1])}, copy {cres[k] if cres[k][0] != 'o' else obs_json(cres[k][1])}",
                       check="continuation", failed_step=k)
    return None, nupd


def one(rep: Report, rng: Rng, spec: Spec, cfg0: dict, all_prefixes: bool):
    cfg = fresh_cfg(cfg0)
    win = cfg.get("max_num_updates") or cfg.get("max_num_samples") or 0
    ops = random_ops(rng, spec, cfg, rng.randint(1, 7 if not win else 2 * win + 2))
    cont = random_ops(rng, spec, cfg, rng.randint(2, 4) if not win else 2 * win + 2, allow_reset=False) + [("o",)]
    # dtype variants: states whose dtype follows the data must survive a restore with their dtype AND value
    dmode = rng.choice(["f32", "f32", "f64", "f64-history-only", "grad"])
    rep.count(f"dtype-mode:{dmode}")
    if dmode == "grad":
        # arguments still attached to an autograd graph (non-leaf, requires_grad): same values, but a metric that keeps the
        # tensor itself cannot be deep-copied / cloned (and keeps the graph alive)
        ops = grad_ops(ops)
    elif dmode != "f32":
        ops = f64_ops(ops)
        if dmode == "f64":
            cont = f64_ops(cont, salt=2)
    positions = list(range(len(ops) + 1)) if all_prefixes else sorted(set(rng.sample(range(len(ops) + 1), min(2, len(ops) + 1))))
    for p in positions:
        how = rng.choice(HOW) if not all_prefixes else HOW[p % 4]
        v, nupd = _examine(spec, cfg, how, ops[:p], cont)
        rep.count(f"how:{how}"); rep.count(f"class:{spec.name}")
        rep.case(nontrivial_key=(spec.name, repr(public_cfg(cfg)), how, ckey(ops[:p]), ckey(cont)) if nupd else None,
                 sample={"class": spec.name, "cfg": public_cfg(cfg), "checkpoint_after": p, "how": how, "continuation": len(cont)} if rep.evaluations % 503 == 0 else None)
        if v is not None:
            rep.violation(*v)
            return


def sweep(rep, rng, reps, deadline, all_prefixes):
    for spec in SPECS:
        for cfg0 in spec.configs:
            for _ in range(reps):
                if time.time() > deadline:
                    rep.notes.append("budget exhausted"); return
                one(rep, rng, spec, cfg0, all_prefixes)


def windowed_after_merge(rep: Report, rng: Rng):
    """directed stream: a windowed metric whose target has WRAPPED (more updates than the window) absorbs a source, is then
    checkpointed through state_dict()/load_state_dict() (and the other copy methods) and continued — the cursor after a merge is
    `sum of the live leads mod N`, not `total_updates mod N`, so a restore that re-derives it from the counters is wrong only here."""
    for spec in SPECS:
        if spec.kind != "window":
            continue
        for cfg0 in spec.configs:
            cfg = fresh_cfg(cfg0)
            win = cfg.get("max_num_updates") or cfg.get("max_num_samples") or 0
            if not win:
                continue
            for extra in (1, 2, win + 1):
                for nsrc in (1, 2):
                    ops = [("u", spec.gen(rng, cfg, rng.choice(spec.sizes))) for _ in range(win + extra)]
                    ops.append(("m", [[spec.gen(rng, cfg, rng.choice(spec.sizes)) for _ in range(rng.randint(1, 2))] for _ in range(nsrc)]))
                    cont = random_ops(rng, spec, cfg, 2 * win + 2, allow_reset=False, allow_merge=False) + [("o",)]
                    for how in HOW:
                        v, nupd = _examine(spec, cfg, how, ops, cont)
                        rep.count(f"how:{how}"); rep.count("stream:windowed-after-merge")
                        rep.case(nontrivial_key=(spec.name, repr(public_cfg(cfg)), how, ckey(ops), ckey(cont)))
                        if v is not None:
                            rep.violation(*v)


from torcheval.metrics import Metric as _Metric


class Bag(_Metric):
    """user-defined metric that uses every state kind the base class allows (tensor, list of tensors, dict of tensors, int, float)
    — the library ships none with a dict state, but `Metric._add_state` / reset() / to() / state_dict() support it.  Module-level so
    that the class itself is picklable."""
    def __init__(self, device=None):
        super().__init__(device=device)
        self._add_state("total", torch.tensor(0.0))
        self._add_state("items", [])
        self._add_state("by_key", {})
        self._add_state("calls", 0)
        self._add_state("mass", 0.0)

    @torch.inference_mode()
    def update(self, key, x):
        self.total += x.sum()
        self.items.append(x.detach())
        self.by_key[key] = self.by_key.get(key, torch.tensor(0.0)) + x.sum()
        self.calls += 1
        self.mass += float(x.abs().sum())
        return self

    @torch.inference_mode()
    def compute(self):
        keys = sorted(self.by_key)
        return (self.total, torch.cat(self.items) if self.items else torch.empty(0), torch.stack([self.by_key[k] for k in keys]) if keys else torch.empty(0),
                torch.tensor(self.calls), torch.tensor(self.mass))

    @torch.inference_mode()
    def merge_state(self, metrics):
        for m in metrics:
            self.total += m.total
            self.items.extend(t.clone() for t in m.items)
            for k, v in m.by_key.items():
                self.by_key[k] = self.by_key.get(k, torch.tensor(0.0)) + v
            self.calls += m.calls
            self.mass += m.mass
        return self


class BagWithCallable(Bag):
    """the same metric configured with a callable that only exists in this process (a lambda, as `FrechetAudioDistance(preproc=…)` or any
    user metric may hold): such an object cannot be pickled by anybody, but clone_metric / deepcopy / state_dict must still work"""
    def __init__(self, device=None):
        super().__init__(device=device)
        self.post = lambda t: t + 0.0

    @torch.inference_mode()
    def compute(self):
        return tuple(self.post(t) for t in super().compute())


def _user_metrics():
    return [Bag, BagWithCallable]


def user_defined(rep: Report, rng: Rng):
    """every copy method at every point of short histories (update / merge / reset / to(device)) of user-defined metrics holding
    all allowed state kinds: the copy computes what the original computes, now and after a shared continuation."""
    for cls in _user_metrics():
        for rep_i in range(12 if rep.tier == "quick" else 60):
            ops = [rng.choice(["u", "u", "u", "r", "m", "to"]) for _ in range(rng.randint(1, 6))]
            batches = [(rng.choice(["a", "b", "c"]), torch.tensor([float(rng.choice([0.25, 0.5, 1.0, 2.0])) for _ in range(rng.randint(1, 3))])) for _ in range(12)]
            how = HOW[rep_i % 4]
            if cls is BagWithCallable and how == "pickle":
                how = "clone_metric"

            def play(m, ops_, start=0):
                k = start
                for op in ops_:
                    if op == "u":
                        m.update(*batches[k % len(batches)]); k += 1
                    elif op == "r":
                        m.reset()
                    elif op == "to":
                        m.to("cpu")
                    else:
                        src = cls(); src.update(*batches[(k + 3) % len(batches)]); m.merge_state([src]); k += 1
                return k
            orig = cls()
            k = play(orig, ops)
            rep.case(nontrivial_key=("user-defined", cls.__name__, how, tuple(ops), rep_i)); rep.count("stream:user-defined"); rep.count(f"how:{how}")
            replay_d = {"kind": "user-defined", "class": cls.__name__, "ops": ops, "how": how, "batches": [[b[0], b[1].tolist()] for b in batches]}
            try:
                if how == "load_state_dict":
                    cp = cls(); cp.load_state_dict(orig.state_dict())
                elif how == "pickle":
                    cp = pickle.loads(pickle.dumps(orig))
                elif how == "clone_metric":
                    cp = clone_metric(orig)
                else:
                    cp = copy.deepcopy(orig)
            except Exception as e:  # noqa: BLE001
                rep.violation(f"C09|user-defined:{cls.__name__}|{how}|copy-raises",
                              f"user-defined metric with tensor/list/dict/int/float states after {ops}: {how} raised {e!r}"[:400], replay_d)
                continue
            cont = ["u", "m", "u"]
            play(orig, cont, k); play(cp, cont, k)
            a, b = orig.compute(), cp.compute()
            if not all(x.shape == y.shape and torch.equal(x, y) for x, y in zip(a, b)):
                rep.violation(f"C09|user-defined:{cls.__name__}|{how}|differs-after-restore",
                              f"user-defined metric after {ops} copied by {how}: original computes {[t.tolist() for t in a]}, copy {[t.tolist() for t in b]}"[:400], replay_d)


def run(rep: Report):
    user_defined(rep, Rng(rep.seed * 1000003 + 78))
    windowed_after_merge(rep, Rng(rep.seed * 1000003 + 77))
    sweep(rep, Rng(rep.seed * 1000003 + 9), 8 if rep.tier == "quick" else 12, time.time() + budget(rep.tier, 70, 800), rep.tier == "thorough")


def search(rep: Report):
    windowed_after_merge(rep, Rng(rep.seed * 13 + 5))
    sweep(rep, Rng(rep.seed * 7 + 909), 10, time.time() + 120, True)


# ------------------------------------------------------------------ replay

def ops_from_describe(lst):
    """inverse of hist.describe_ops (also after a JSON round trip)."""
    from ..registry import Batch
    out = []
    for op in lst:
        if op[0] == "u":
            out.append(("u", Batch.from_describe(op[1])))
        elif op[0] == "m":
            out.append(("m", [[Batch.from_describe(b) for b in bl] for bl in op[1]]))
        else:
            out.append((op[0],))
    return out


def replay(payload) -> bool:
    """True iff the property holds on the recorded checkpoint: history, copy method and continuation are rebuilt and judged
    by `examine` (the sweep's oracle: the original object against its copy, step by step)."""
    rp = payload.get("replay") or {}
    if rp.get("kind") == "user-defined":
        raise ValueError("nothing to replay here: user-defined cases are re-run by the check's user-defined stream (deterministic per seed)")
    if payload.get("kind", "failing-input") != "failing-input" or not {"class", "cfg", "how", "history"} <= set(rp):
        raise ValueError(f"nothing to replay: payload kind {payload.get('kind')!r} carries no checkpoint (class, cfg, how, history)")
    from ..registry import BY_NAME
    spec = BY_NAME[rp["class"]]
    if rp["how"] not in HOW:
        raise ValueError(f"nothing to replay: unknown copy method {rp['how']!r}")
    v = examine(spec, dict(rp["cfg"]), rp["how"], ops_from_describe(rp["history"]), ops_from_describe(rp.get("continuation") or []))
    if v is not None:
        print(f"replay: {v[0]}: {v[1]}"[:600])
        return False, v[0]          # the runner prints KNOWN-FINDING and exits 0 when this exact signature is recorded
    return True
