"""C17 — metamorphic invariances: strictly increasing score maps, positive weight scaling, duplication of the
whole data set, consistent renaming of the classes.

Correspondence (the only check on LARGE inputs): the real functional AND the real class form are run on `x` and
on `T(x)` (n = 2 000 … 20 000 samples) and the two executions are compared with each other.  The same pairs are
run through the compiled Lean model at n <= 600 (exact rationals): model(x) vs model(T(x)) must satisfy the
relation EXACTLY (this is the instance of the C17 theorems), and model(x) vs real(x) within float tolerance
(this ties the theorem's model to the code on exactly the relation proved).

Every case is regenerated from (site, kind, cfg, n, seed, transformation) alone: that dictionary is the replay.
"""
from __future__ import annotations
import math, time
from dataclasses import dataclass, field
from fractions import Fraction as Fr
from typing import Any, Callable
import torch
from ..common import (Rng, Report, dec_out, enc_args, flat_out, run_driver, budget, err_kind, DriverError)
import torcheval.metrics as M
import torcheval.metrics.functional as F
from torcheval.metrics.statistical import Wasserstein1D
from torcheval.metrics.functional.statistical.wasserstein import wasserstein_1d

LEVEL = "proof"
RULE = ("real-vs-real metamorphic pairs, functional and class form (class: the stream cut into 3 unequal batches), n in "
        "{2000,3000,5000} (quick) / {2000,5000,10000,20000} (thorough). Scores on the grid k/1024 with a pool of 8..1025 distinct "
        "values (tie fraction recorded), logits on k/64 in [-8,8]; strictly increasing maps computed in float32 and VERIFIED on the "
        "generated values (distinct stay distinct and ordered, range kept) else the case is skipped: x/2, (x+1)/2, x^2, (3x+1)/4, "
        "x^3, sqrt x on [0,1]; 2x-3, x/8+5, x^3, exp x on logits; weight scales are powers of two (exact in float: 2, 1/4, 1024, "
        "2^-12; Wasserstein: a different factor per distribution); duplication = cat([x,x]) / the same stream fed twice; "
        "relabelling = uniformly random permutation of C in {3,5,10} classes applied to labels and to label-predictions or to the "
        "logit columns (rows made tie-free at the maximum for arg-max metrics). Tolerances: monotone maps, weight scaling and "
        "relabelling leave every intermediate float identical up to exact power-of-two factors / reordering of <= C summands, so "
        "1e-6 relative (exact equality is counted separately); duplication changes float32 sums of up to 40000 grid terms: 2e-5 "
        "relative (1e-4 for R2 / perplexity / PSNR / normalized entropy whose final step amplifies the rounding of the sums). "
        "NaN == NaN. non-trivial = distinct (site, cfg, kind, transformation, n, seed).  Model pairs: n in {150,300,600} (thorough: also 1200; "
        "Wasserstein <= 200: its model sorts by insertion).")
MODELLED = ["IEEE rounding (compared with the tolerances justified in RULE; the theorems are exact over the rationals)",
            "click_through_rate adds finfo.tiny to the denominator: exact homogeneity is proved for eps = 0 "
            "(TE.C17.ctr_weight_scale), the model with eps > 0 is compared at 1e-30 relative",
            "mean_squared_error clamps |sum_weight| at float64 eps: weight totals stay far above it (TE.C17.mse_weight_scale_clamp_witness)",
            "torch.topk / torch.sort tie order: retrieval and top-k multilabel inputs are tie-free, or tied items share their label"]
ASSUMPTIONS = ["binary labels are 0/1, multiclass labels in [0,C), weights finite and (Wasserstein) positive",
               "scores finite; maps strictly increasing on the generated float32 values (checked per case)",
               "binned metrics are excluded (multiclass_binned_auroc is a C06 finding); RetrievalRecall/RetrievalPrecision classes are "
               "excluded (C03/C08 findings on pruning / empty-target policy): the functionals are used",
               "R2 with num_regressors > 0 and un-normalized confusion matrices / Sum / Covariance are not ratio metrics (not claimed)"]

# ----------------------------------------------------------------------------- deterministic tensors

def tgen(seed: int) -> torch.Generator:
    g = torch.Generator()
    g.manual_seed(int(seed) % (2 ** 63 - 1))
    return g


def gridf(g, shape, den=1024, pool=None, lo=0):
    """values (lo + k)/den, k uniform over a pool of `pool` distinct numerators in [0, den]; exact in float32."""
    if pool is not None and pool < den + 1:
        vals = torch.randperm(den + 1, generator=g)[:pool]
        k = vals[torch.randint(0, pool, shape, generator=g)]
    else:
        k = torch.randint(0, den + 1, shape, generator=g)
    return (k + lo).to(torch.float32) / den


def labels01(g, shape, p=0.5):
    return (torch.rand(shape, generator=g) < p).to(torch.int64)


def classes(g, n, C):
    return torch.randint(0, C, (n,), generator=g)


def wgrid(g, shape, zeros=False):
    vals = torch.tensor([0.5, 1.0, 2.0, 3.0, 0.125, 1.5] + ([0.0] if zeros else []), dtype=torch.float32)
    return vals[torch.randint(0, len(vals), shape, generator=g)]


def tiefree_rows(g, n, L, den=1024):
    """(n, L) rows whose entries are pairwise distinct (a random permutation of L distinct levels, jittered)."""
    perm = torch.argsort(torch.rand((n, L), generator=g), dim=1)
    step = den // L
    k = perm * step + torch.randint(0, step, (n, L), generator=g)
    return k.to(torch.float32) / den


def tiefree_vec(g, shape):
    n = 1
    for s in shape:
        n *= s
    k = torch.randperm(65536, generator=g)[:n]          # n <= 2 * 20000 < 65536; k/65536 is exact in float32
    return (k.to(torch.float32) / 65536).reshape(shape)


def grouped_scores(g, shape, groups=40):
    """tie-heavy scores whose tied items share the label (top-k result independent of the tie order)."""
    gid = torch.randint(0, groups, shape, generator=g)
    glab = (torch.rand((groups,), generator=g) < 0.4).to(torch.int64)
    return gid.to(torch.float32) / groups, glab[gid]


SENT_WORDS = ["a", "b", "c", "the", "cat", "sat", "on", "mat"]


def sentences(g, n, lo=1, hi=6):
    lens = torch.randint(lo, hi + 1, (n,), generator=g).tolist()
    idx = torch.randint(0, len(SENT_WORDS), (sum(lens),), generator=g).tolist()
    out, o = [], 0
    for ln in lens:
        out.append(" ".join(SENT_WORDS[j] for j in idx[o:o + ln]))
        o += ln
    return out

# ----------------------------------------------------------------------------- strictly increasing maps

MAPS01 = {
    "half": lambda x: x * 0.5,
    "shift": lambda x: (x + 1.0) * 0.5,
    "square": lambda x: x * x,
    "aff34": lambda x: x * 0.75 + 0.25,
    "cube": lambda x: x * x * x,
    "sqrt": lambda x: torch.sqrt(x),
    # exact power-of-two squeezes: order and ties are kept exactly, but distinct scores end up 2^-30 .. 2^-52 apart —
    # an "equal up to noise" tie test (an absolute tolerance instead of != 0) shows only here
    "squeeze30": lambda x: x * 2.0 ** -30,
    "squeeze22": lambda x: x * 2.0 ** -22,
}
MAPSR = {
    "aff": lambda x: x * 2.0 - 3.0,
    "affsmall": lambda x: x * 0.125 + 5.0,
    "cube": lambda x: x * x * x,
    "exp": lambda x: torch.exp(x),
    "half": lambda x: x * 0.5,
    "squeeze30": lambda x: x * 2.0 ** -30,
}


def map_fn(name, domain):
    return (MAPS01 if domain == "01" else MAPSR)[name]


def strict_ok(x: torch.Tensor, f, domain) -> bool:
    """`f` is strictly increasing on the float32 values occurring in x (equal inputs map to equal outputs by
    determinism of the elementwise kernel), finite, and keeps [0,1] when that is the documented domain."""
    u = torch.unique(x.reshape(-1))          # sorted ascending
    fu = f(u)
    if not torch.isfinite(fu).all():
        return False
    if u.numel() > 1 and not bool((fu[1:] > fu[:-1]).all()):
        return False
    if domain == "01" and (float(fu.min()) < 0.0 or float(fu.max()) > 1.0):
        return False
    # the kernel applied to the full tensor agrees with the kernel applied to the unique values
    idx = torch.searchsorted(u, x.reshape(-1))
    return bool((f(x).reshape(-1) == fu[idx]).all())

# ----------------------------------------------------------------------------- sites

@dataclass
class Site:
    name: str
    gen: Callable[[torch.Generator, int, dict], dict]          # tensors (and lists) by argument name
    fn: Callable[[dict, dict], Any]                             # functional(tensors, cfg)
    dims: dict                                                  # argument -> sample dim (for cat / chunk)
    cfgs: list
    mk: Callable[[dict], Any] | None = None                     # class constructor
    upd: Callable[[Any, dict], Any] | None = None               # class update with a chunk
    post: Callable[[Any], Any] | None = None                    # post-processing of compute() (per-sample -> mean …)
    model: str | None = None                                    # driver request name
    margs: Callable[[dict, dict], dict] | None = None           # driver arguments
    kinds: tuple = ()
    score: str = "input"
    domain: str = "01"
    weights: tuple = ()
    out: str = "same"          # same | curve | rp
    tol_dup: float = 2e-5
    mtol: float = 2e-5         # model vs real
    nmax: int = 20000
    relabel: str = ""          # "" | labels | logits | logits-argmax
    perclass: Callable[[dict], str] | None = None   # cfg -> "vec" | "mat" | "lists" | "" (layout of per-class outputs)


def _k(cfg, *names):
    return {k: cfg[k] for k in names if k in cfg}


def g_bin(score="grid"):
    def gen(g, n, cfg):
        t = cfg.get("num_tasks", 1)
        shape = (n,) if t == 1 else (t, n)
        if score == "tiefree":
            x = tiefree_vec(g, shape)
            y = labels01(g, shape, 0.35)
        elif score == "grouped":
            x, y = grouped_scores(g, shape)
        else:
            x = gridf(g, shape, pool=cfg.get("_pool"))
            y = labels01(g, shape, cfg.get("_p", 0.5))
        d = {"input": x, "target": y}
        if cfg.get("_w"):
            d["weight"] = wgrid(g, shape, zeros=True)
        return d
    return gen


def g_mc(kind="grid"):
    def gen(g, n, cfg):
        C = cfg["num_classes"]
        if kind == "labels":
            x = classes(g, n, C)
        elif kind == "logits":
            x = gridf(g, (n, C), den=64, pool=cfg.get("_pool", 24), lo=0) * 16.0 - 8.0
        elif kind == "logits-uniqmax":
            x = gridf(g, (n, C), den=64, pool=cfg.get("_pool", 24)) * 16.0 - 8.0
            j = torch.randint(0, C, (n,), generator=g)
            x[torch.arange(n), j] = 9.0 + gridf(g, (n,), den=64)          # a unique maximum per row, the rest tie-heavy
        else:
            x = gridf(g, (n, C), pool=cfg.get("_pool", 64))
        # one class absent from the labels in some configurations
        lab = classes(g, n, C - 1) if cfg.get("_absent") else classes(g, n, C)
        return {"input": x, "target": lab}
    return gen


def g_ml(tiefree=False):
    def gen(g, n, cfg):
        L = cfg.get("num_labels", cfg.get("_L", 4))
        x = tiefree_rows(g, n, L) if tiefree else gridf(g, (n, L), pool=cfg.get("_pool", 64))
        return {"input": x, "target": labels01(g, (n, L), 0.4)}
    return gen


def g_rank(g, n, cfg):
    C = cfg.get("_C", 8)
    return {"input": gridf(g, (n, C), den=64, pool=cfg.get("_pool", 12)) * 16.0 - 8.0, "target": classes(g, n, C)}


def g_vals_w(g, n, cfg):
    return {"input": gridf(g, (n,), den=8, pool=None, lo=-8) * 1.0 + gridf(g, (n,), den=8) * 2.0, "weight": wgrid(g, (n,), zeros=True)}


def g_reg(g, n, cfg):
    d = cfg.get("_d", 1)
    shape = (n,) if d == 1 else (n, d)
    out = {"input": gridf(g, shape, den=8, lo=-8) * 3.0, "target": gridf(g, shape, den=8, lo=-8) * 3.0}
    if cfg.get("_w"):
        out["sample_weight"] = wgrid(g, (n,))
    return out


def g_ne(g, n, cfg):
    t = cfg.get("num_tasks", 1)
    shape = (n,) if t == 1 else (t, n)
    if cfg.get("from_logits"):
        x = gridf(g, shape, den=8, lo=-16) * 2.0
    else:
        x = (gridf(g, shape, den=64, pool=None) * 62.0 + 1.0) / 64.0
    return {"input": x, "target": labels01(g, shape, 0.3).to(torch.float32), "weight": wgrid(g, shape)}


def g_wass(g, n, cfg):
    m = max(2, (n * 3) // 4)
    d = {"x": gridf(g, (n,), den=64, pool=40) * 4.0, "y": gridf(g, (m,), den=64, pool=40) * 4.0 + 0.5}
    if cfg.get("_w", True):
        d["x_weights"] = wgrid(g, (n,))
        d["y_weights"] = wgrid(g, (m,))
    return d


def g_ctr(g, n, cfg):
    t = cfg.get("num_tasks", 1)
    shape = (n,) if t == 1 else (t, n)
    return {"input": labels01(g, shape, 0.3), "weights": wgrid(g, shape, zeros=True)}


def g_wc(g, n, cfg):
    t = cfg.get("num_tasks", 1)
    shape = (n,) if t == 1 else (t, n)
    return {"input": (gridf(g, shape, den=64) * 62.0 + 1.0) / 64.0, "target": labels01(g, shape, 0.4).to(torch.float32),
            "weight": wgrid(g, shape, zeros=True)}


def g_ppl(g, n, cfg):
    S, V = 3, 5
    return {"input": gridf(g, (n, S, V), den=8, lo=-8) * 2.0, "target": torch.randint(0, V, (n, S), generator=g)}


def g_psnr(g, n, cfg):
    return {"input": gridf(g, (n, 2, 2), den=16), "target": gridf(g, (n, 2, 2), den=16)}


def g_text(g, n, cfg):
    return {"input": sentences(g, n), "target": sentences(g, n)}


def _avgcfgs(extra, avgs=("micro", "macro", "weighted", None), Cs=(3, 5, 10)):
    out = []
    for a in avgs:
        for C in Cs:
            out.append({"average": a, "num_classes": C, **extra})
    return out


def _pc_avg(cfg):
    return "vec" if cfg.get("average", "x") is None else ""


def _wkw(d, *names):
    return {k: d[k] for k in names if k in d}


def _sites() -> dict:
    S: list[Site] = []
    ALL = ("mono", "dup")
    d0 = {"input": -1, "target": -1, "weight": -1}
    r0 = {"input": 0, "target": 0}
    # ---------------- curves
    S += [
        Site("binary_auroc", g_bin(), lambda d, c: F.binary_auroc(d["input"], d["target"], num_tasks=c.get("num_tasks", 1), weight=d.get("weight")),
             d0, [{"_pool": 8}, {"_pool": 64, "_w": True}, {"_pool": 1025, "_w": True, "num_tasks": 2}, {"_pool": 16, "_p": 0.05}],
             mk=lambda c: M.BinaryAUROC(num_tasks=c.get("num_tasks", 1)), upd=lambda m, d: m.update(d["input"], d["target"], d.get("weight")),
             model="binary_auroc", margs=lambda d, c: {**d, **_k(c, "num_tasks")}, kinds=("mono", "dup", "scale"), weights=("weight",)),
        Site("multiclass_auroc", g_mc(), lambda d, c: F.multiclass_auroc(d["input"], d["target"], **_k(c, "num_classes", "average")), r0,
             _avgcfgs({"_pool": 32}, ("macro", None), (3, 5)) + [{"num_classes": 4, "average": None, "_absent": True, "_pool": 8}],
             mk=lambda c: M.MulticlassAUROC(**_k(c, "num_classes", "average")), upd=lambda m, d: m.update(d["input"], d["target"]),
             model="multiclass_auroc", margs=lambda d, c: {**d, **_k(c, "num_classes", "average")}, kinds=("mono", "dup", "relabel"),
             relabel="logits", perclass=_pc_avg),
        Site("binary_auprc", g_bin(), lambda d, c: F.binary_auprc(d["input"], d["target"], num_tasks=c.get("num_tasks", 1)), d0,
             [{"_pool": 8}, {"_pool": 128}, {"_pool": 1025, "num_tasks": 2}, {"_pool": 16, "_p": 0.03}],
             mk=lambda c: M.BinaryAUPRC(num_tasks=c.get("num_tasks", 1)), upd=lambda m, d: m.update(d["input"], d["target"]),
             model="binary_auprc", margs=lambda d, c: {**d, **_k(c, "num_tasks")}, kinds=ALL),
        Site("multiclass_auprc", g_mc(), lambda d, c: F.multiclass_auprc(d["input"], d["target"], **_k(c, "num_classes", "average")), r0,
             _avgcfgs({"_pool": 32}, ("macro", None), (3, 5)),
             mk=lambda c: M.MulticlassAUPRC(**_k(c, "num_classes", "average")), upd=lambda m, d: m.update(d["input"], d["target"]),
             model="multiclass_auprc", margs=lambda d, c: {**d, **_k(c, "num_classes", "average")}, kinds=("mono", "dup", "relabel"),
             relabel="logits", perclass=_pc_avg),
        Site("multilabel_auprc", g_ml(), lambda d, c: F.multilabel_auprc(d["input"], d["target"], **_k(c, "num_labels", "average")), r0,
             [{"num_labels": 3, "average": "macro", "_pool": 16}, {"num_labels": 5, "average": None, "_pool": 200}],
             mk=lambda c: M.MultilabelAUPRC(**_k(c, "num_labels", "average")), upd=lambda m, d: m.update(d["input"], d["target"]),
             model="multilabel_auprc", margs=lambda d, c: {**d, **_k(c, "num_labels", "average")}, kinds=ALL),
        Site("binary_precision_recall_curve", g_bin(), lambda d, c: F.binary_precision_recall_curve(d["input"], d["target"]), d0,
             [{"_pool": 8}, {"_pool": 100}, {"_pool": 1025}, {"_pool": 12, "_p": 0.0}],
             mk=lambda c: M.BinaryPrecisionRecallCurve(), upd=lambda m, d: m.update(d["input"], d["target"]),
             model="binary_precision_recall_curve", margs=lambda d, c: dict(d), kinds=ALL, out="curve"),
        Site("multiclass_precision_recall_curve", g_mc(), lambda d, c: F.multiclass_precision_recall_curve(d["input"], d["target"], num_classes=c["num_classes"]), r0,
             [{"num_classes": 3, "_pool": 16}, {"num_classes": 5, "_pool": 64}],
             mk=lambda c: M.MulticlassPrecisionRecallCurve(num_classes=c["num_classes"]), upd=lambda m, d: m.update(d["input"], d["target"]),
             model="multiclass_precision_recall_curve", margs=lambda d, c: {**d, **_k(c, "num_classes")}, kinds=("mono", "dup", "relabel"), out="curve",
             relabel="logits", perclass=lambda c: "lists"),
        Site("multilabel_precision_recall_curve", g_ml(), lambda d, c: F.multilabel_precision_recall_curve(d["input"], d["target"], num_labels=c["num_labels"]), r0,
             [{"num_labels": 3, "_pool": 16}, {"num_labels": 4, "_pool": 300}],
             mk=lambda c: M.MultilabelPrecisionRecallCurve(num_labels=c["num_labels"]), upd=lambda m, d: m.update(d["input"], d["target"]),
             model="multilabel_precision_recall_curve", margs=lambda d, c: {**d, **_k(c, "num_labels")}, kinds=ALL, out="curve"),
        Site("binary_recall_at_fixed_precision", g_bin(), lambda d, c: F.binary_recall_at_fixed_precision(d["input"], d["target"], min_precision=c["min_precision"]), d0,
             [{"min_precision": p, "_pool": q} for p, q in ((0.5, 8), (0.75, 64), (0.875, 1025), (0.0, 16), (1.0, 32))],
             mk=lambda c: M.BinaryRecallAtFixedPrecision(min_precision=c["min_precision"]), upd=lambda m, d: m.update(d["input"], d["target"]),
             model="binary_recall_at_fixed_precision", margs=lambda d, c: {**d, **_k(c, "min_precision")}, kinds=ALL, out="rp"),
        Site("multilabel_recall_at_fixed_precision", g_ml(), lambda d, c: F.multilabel_recall_at_fixed_precision(d["input"], d["target"], num_labels=c["num_labels"], min_precision=c["min_precision"]), r0,
             [{"num_labels": 3, "min_precision": 0.5, "_pool": 16}, {"num_labels": 4, "min_precision": 0.75, "_pool": 128}],
             mk=lambda c: M.MultilabelRecallAtFixedPrecision(num_labels=c["num_labels"], min_precision=c["min_precision"]), upd=lambda m, d: m.update(d["input"], d["target"]),
             model="multilabel_recall_at_fixed_precision", margs=lambda d, c: {**d, **_k(c, "num_labels", "min_precision")}, kinds=ALL, out="rp"),
    ]
    # ---------------- ranking
    S += [
        Site("hit_rate", g_rank, lambda d, c: F.hit_rate(d["input"], d["target"], k=c.get("k")), r0,
             [{"k": None, "_C": 6}, {"k": 1, "_pool": 4}, {"k": 3, "_pool": 12}, {"k": 5, "_C": 20, "_pool": 30}],
             mk=lambda c: M.HitRate(k=c.get("k")), upd=lambda m, d: m.update(d["input"], d["target"]),
             model="hit_rate", margs=lambda d, c: {**d, "k": c.get("k")}, kinds=("mono",), domain="R"),
        Site("reciprocal_rank", g_rank, lambda d, c: F.reciprocal_rank(d["input"], d["target"], k=c.get("k")), r0,
             [{"k": None, "_C": 6, "_pool": 5}, {"k": 1, "_pool": 4}, {"k": 3, "_pool": 12}, {"k": 5, "_C": 20, "_pool": 30}],
             mk=lambda c: M.ReciprocalRank(k=c.get("k")), upd=lambda m, d: m.update(d["input"], d["target"]),
             model="reciprocal_rank", margs=lambda d, c: {**d, "k": c.get("k")}, kinds=("mono",), domain="R"),
        Site("hit_rate.mean", g_rank, lambda d, c: F.hit_rate(d["input"], d["target"], k=c.get("k")).mean(), r0, [{"k": 2}, {"k": 4, "_C": 12}],
             mk=lambda c: M.HitRate(k=c.get("k")), upd=lambda m, d: m.update(d["input"], d["target"]), post=lambda r: r.mean(), kinds=("dup",), domain="R"),
        Site("reciprocal_rank.mean", g_rank, lambda d, c: F.reciprocal_rank(d["input"], d["target"], k=c.get("k")).mean(), r0, [{"k": None}, {"k": 3}],
             mk=lambda c: M.ReciprocalRank(k=c.get("k")), upd=lambda m, d: m.update(d["input"], d["target"]), post=lambda r: r.mean(), kinds=("dup",), domain="R"),
    ]
    for nm, f in (("retrieval_precision", F.retrieval_precision), ("retrieval_recall", F.retrieval_recall)):
        for sc in ("tiefree", "grouped"):
            S.append(Site(f"{nm}[{sc}]", g_bin(sc),
                          (lambda f: lambda d, c: f(d["input"], d["target"], k=c.get("k"), limit_k_to_size=c.get("limit_k_to_size", False), num_tasks=c.get("num_tasks", 1)))(f), d0,
                          [{"k": 10}, {"k": 100, "limit_k_to_size": True}, {"k": None}, {"k": 7, "num_tasks": 2}, {"k": 30000, "limit_k_to_size": True}],
                          model=nm, margs=lambda d, c: {**d, **_k(c, "k", "limit_k_to_size", "num_tasks")}, kinds=("mono",)))
    # ---------------- accuracy family on logits / scores
    S += [
        Site("multiclass_accuracy[logits]", g_mc("logits"), lambda d, c: F.multiclass_accuracy(d["input"], d["target"], **_k(c, "average", "num_classes", "k")), r0,
             [{"average": a, "num_classes": C, "k": k} for a in ("micro", "macro", None) for (C, k) in ((5, 1), (5, 2), (10, 3), (10, 5))],
             mk=lambda c: M.MulticlassAccuracy(**_k(c, "average", "num_classes", "k")), upd=lambda m, d: m.update(d["input"], d["target"]),
             model="multiclass_accuracy", margs=lambda d, c: {**d, **_k(c, "average", "num_classes", "k")}, kinds=ALL, domain="R"),
        Site("multiclass_accuracy[topk,relabel]", g_mc("logits"), lambda d, c: F.multiclass_accuracy(d["input"], d["target"], **_k(c, "average", "num_classes", "k")), r0,
             [{"average": a, "num_classes": C, "k": k} for a in ("micro", "macro", None) for (C, k) in ((5, 2), (10, 3))],
             mk=lambda c: M.MulticlassAccuracy(**_k(c, "average", "num_classes", "k")), upd=lambda m, d: m.update(d["input"], d["target"]),
             model="multiclass_accuracy", margs=lambda d, c: {**d, **_k(c, "average", "num_classes", "k")}, kinds=("relabel",), domain="R",
             relabel="logits", perclass=_pc_avg),
        Site("topk_multilabel_accuracy", g_ml(True), lambda d, c: F.topk_multilabel_accuracy(d["input"], d["target"], **_k(c, "criteria", "k")), r0,
             [{"criteria": cr, "k": k, "_L": L} for cr, k, L in (("exact_match", 2, 4), ("hamming", 2, 6), ("overlap", 3, 8), ("contain", 3, 5), ("belong", 2, 8))],
             mk=lambda c: M.TopKMultilabelAccuracy(**_k(c, "criteria", "k")), upd=lambda m, d: m.update(d["input"], d["target"]),
             model="topk_multilabel_accuracy", margs=lambda d, c: {**d, **_k(c, "criteria", "k")}, kinds=ALL),
    ]
    for nm, f, cls in (("multiclass_precision", F.multiclass_precision, M.MulticlassPrecision), ("multiclass_recall", F.multiclass_recall, M.MulticlassRecall),
                       ("multiclass_f1_score", F.multiclass_f1_score, M.MulticlassF1Score)):
        fn = (lambda f: lambda d, c: f(d["input"], d["target"], **_k(c, "average", "num_classes")))(f)
        mk = (lambda cls: lambda c: cls(**_k(c, "average", "num_classes")))(cls)
        ma = lambda d, c: {**d, **_k(c, "average", "num_classes")}
        S.append(Site(f"{nm}[logits]", g_mc("logits"), fn, r0, _avgcfgs({}, Cs=(5,)), mk=mk, upd=lambda m, d: m.update(d["input"], d["target"]),
                      model=nm, margs=ma, kinds=ALL, domain="R"))
        S.append(Site(f"{nm}[labels]", g_mc("labels"), fn, r0, _avgcfgs({}) + _avgcfgs({"_absent": True}, Cs=(4,)), mk=mk, upd=lambda m, d: m.update(d["input"], d["target"]),
                      model=nm, margs=ma, kinds=("dup", "relabel"), relabel="labels", perclass=_pc_avg))
        S.append(Site(f"{nm}[logits-argmax]", g_mc("logits-uniqmax"), fn, r0, _avgcfgs({}, Cs=(5,)), mk=mk, upd=lambda m, d: m.update(d["input"], d["target"]),
                      model=nm, margs=ma, kinds=("relabel",), domain="R", relabel="logits", perclass=_pc_avg))
    S += [
        Site("multiclass_accuracy[labels]", g_mc("labels"), lambda d, c: F.multiclass_accuracy(d["input"], d["target"], **_k(c, "average", "num_classes")), r0,
             _avgcfgs({}, ("micro", "macro", None)) + [{"average": None, "num_classes": 4, "_absent": True}],
             mk=lambda c: M.MulticlassAccuracy(**_k(c, "average", "num_classes")), upd=lambda m, d: m.update(d["input"], d["target"]),
             model="multiclass_accuracy", margs=lambda d, c: {**d, **_k(c, "average", "num_classes")}, kinds=("dup", "relabel"), relabel="labels", perclass=_pc_avg),
        Site("multiclass_accuracy[logits-argmax]", g_mc("logits-uniqmax"), lambda d, c: F.multiclass_accuracy(d["input"], d["target"], **_k(c, "average", "num_classes")), r0,
             _avgcfgs({}, ("micro", "macro", None), (5,)),
             mk=lambda c: M.MulticlassAccuracy(**_k(c, "average", "num_classes")), upd=lambda m, d: m.update(d["input"], d["target"]),
             model="multiclass_accuracy", margs=lambda d, c: {**d, **_k(c, "average", "num_classes")}, kinds=("relabel",), domain="R", relabel="logits", perclass=_pc_avg),
        Site("multiclass_confusion_matrix[normalized]", g_mc("labels"), lambda d, c: F.multiclass_confusion_matrix(d["input"], d["target"], c["num_classes"], normalize=c.get("normalize")), r0,
             [{"num_classes": C, "normalize": nz} for C in (3, 5, 10) for nz in ("all", "pred", "true")],
             mk=lambda c: M.MulticlassConfusionMatrix(c["num_classes"], normalize=c.get("normalize")), upd=lambda m, d: m.update(d["input"], d["target"]),
             model="multiclass_confusion_matrix", margs=lambda d, c: {**d, "num_classes": c["num_classes"], "normalize": c.get("normalize") or "none"},
             kinds=("dup", "relabel"), relabel="labels", perclass=lambda c: "mat"),
        Site("multiclass_confusion_matrix[counts]", g_mc("labels"), lambda d, c: F.multiclass_confusion_matrix(d["input"], d["target"], c["num_classes"]), r0,
             [{"num_classes": C} for C in (3, 5, 10)],
             mk=lambda c: M.MulticlassConfusionMatrix(c["num_classes"]), upd=lambda m, d: m.update(d["input"], d["target"]),
             model="multiclass_confusion_matrix", margs=lambda d, c: {**d, "num_classes": c["num_classes"], "normalize": "none"},
             kinds=("relabel",), relabel="labels", perclass=lambda c: "mat"),
        Site("binary_confusion_matrix", g_bin(), lambda d, c: F.binary_confusion_matrix(d["input"], d["target"], normalize=c.get("normalize")), d0,
             [{"normalize": nz, "_pool": 16} for nz in ("all", "pred", "true")],
             mk=lambda c: M.BinaryConfusionMatrix(normalize=c.get("normalize")), upd=lambda m, d: m.update(d["input"], d["target"]),
             model="binary_confusion_matrix", margs=lambda d, c: {**d, "normalize": c.get("normalize") or "none"}, kinds=("dup",)),
    ]
    for nm, f, cls in (("binary_accuracy", F.binary_accuracy, M.BinaryAccuracy), ("binary_precision", F.binary_precision, M.BinaryPrecision),
                       ("binary_recall", F.binary_recall, M.BinaryRecall), ("binary_f1_score", F.binary_f1_score, M.BinaryF1Score)):
        S.append(Site(nm, g_bin(), (lambda f: lambda d, c: f(d["input"], d["target"], threshold=c.get("threshold", 0.5)))(f), d0,
                      [{"_pool": 8}, {"threshold": 0.25, "_pool": 64}, {"threshold": 0.75, "_pool": 1025}],
                      mk=(lambda cls: lambda c: cls(threshold=c.get("threshold", 0.5)))(cls), upd=lambda m, d: m.update(d["input"], d["target"]),
                      model=nm, margs=lambda d, c: {**d, **_k(c, "threshold")}, kinds=("dup", "monothr")))
    S.append(Site("multilabel_accuracy", g_ml(), lambda d, c: F.multilabel_accuracy(d["input"], d["target"], **_k(c, "threshold", "criteria")), r0,
                  [{"criteria": cr, "threshold": t, "_pool": 16} for cr, t in (("exact_match", 0.5), ("hamming", 0.25), ("overlap", 0.5), ("contain", 0.75), ("belong", 0.5))],
                  mk=lambda c: M.MultilabelAccuracy(**_k(c, "threshold", "criteria")), upd=lambda m, d: m.update(d["input"], d["target"]),
                  model="multilabel_accuracy", margs=lambda d, c: {**d, **_k(c, "threshold", "criteria")}, kinds=("dup", "monothr")))
    # ---------------- weighted / aggregation / regression
    S += [
        Site("mean", g_vals_w, lambda d, c: F.mean(d["input"], d["weight"]), {"input": 0, "weight": 0}, [{}],
             mk=lambda c: M.Mean(), upd=lambda m, d: m.update(d["input"], weight=d["weight"]),
             model="mean", margs=lambda d, c: dict(d), kinds=("scale", "dup"), weights=("weight",)),
        Site("mean_squared_error", g_reg, lambda d, c: F.mean_squared_error(d["input"], d["target"], sample_weight=d.get("sample_weight"), multioutput=c.get("multioutput", "uniform_average")),
             {"input": 0, "target": 0, "sample_weight": 0}, [{"_w": True}, {"_w": True, "_d": 3, "multioutput": "raw_values"}, {"_w": True, "_d": 2}],
             mk=lambda c: M.MeanSquaredError(multioutput=c.get("multioutput", "uniform_average")), upd=lambda m, d: m.update(d["input"], d["target"], sample_weight=d.get("sample_weight")),
             model="mean_squared_error", margs=lambda d, c: {**d, **_k(c, "multioutput")}, kinds=("scale", "dup"), weights=("sample_weight",)),
        Site("mean_squared_error[unweighted]", g_reg, lambda d, c: F.mean_squared_error(d["input"], d["target"], multioutput=c.get("multioutput", "uniform_average")),
             {"input": 0, "target": 0}, [{}, {"_d": 3, "multioutput": "raw_values"}],
             mk=lambda c: M.MeanSquaredError(multioutput=c.get("multioutput", "uniform_average")), upd=lambda m, d: m.update(d["input"], d["target"]),
             model="mean_squared_error", margs=lambda d, c: {**d, **_k(c, "multioutput")}, kinds=("dup",)),
        Site("r2_score", g_reg, lambda d, c: F.r2_score(d["input"], d["target"], multioutput=c.get("multioutput", "uniform_average")), {"input": 0, "target": 0},
             [{}, {"_d": 3, "multioutput": "raw_values"}, {"_d": 2, "multioutput": "variance_weighted"}],
             mk=lambda c: M.R2Score(multioutput=c.get("multioutput", "uniform_average")), upd=lambda m, d: m.update(d["input"], d["target"]),
             model="r2_score", margs=lambda d, c: {**d, **_k(c, "multioutput")}, kinds=("dup",), tol_dup=1e-4, mtol=1e-4),
        Site("binary_normalized_entropy", g_ne, lambda d, c: F.binary_normalized_entropy(d["input"], d["target"], weight=d["weight"], num_tasks=c.get("num_tasks", 1), from_logits=c.get("from_logits", False)),
             d0, [{}, {"num_tasks": 2}, {"from_logits": True}],
             mk=lambda c: M.BinaryNormalizedEntropy(from_logits=c.get("from_logits", False), num_tasks=c.get("num_tasks", 1)), upd=lambda m, d: m.update(d["input"], d["target"], weight=d["weight"]),
             model="binary_normalized_entropy", margs=lambda d, c: {**d, **_k(c, "num_tasks", "from_logits")}, kinds=("scale", "dup"), weights=("weight",), tol_dup=1e-4, mtol=2e-4),
        Site("wasserstein_1d", g_wass, lambda d, c: wasserstein_1d(d["x"], d["y"], d.get("x_weights"), d.get("y_weights")),
             {"x": 0, "y": 0, "x_weights": 0, "y_weights": 0}, [{}],
             mk=lambda c: Wasserstein1D(), upd=lambda m, d: m.update(d["x"], d["y"], d.get("x_weights"), d.get("y_weights")),
             model="wasserstein_1d", margs=lambda d, c: dict(d), kinds=("scale", "dup"), weights=("x_weights", "y_weights"), tol_dup=1e-4, mtol=1e-4),
        Site("click_through_rate", g_ctr, lambda d, c: F.click_through_rate(d["input"], d["weights"], num_tasks=c.get("num_tasks", 1)), {"input": -1, "weights": -1},
             [{}, {"num_tasks": 2}],
             mk=lambda c: M.ClickThroughRate(num_tasks=c.get("num_tasks", 1)), upd=lambda m, d: m.update(d["input"], d["weights"]),
             model="click_through_rate", margs=lambda d, c: {**d, **_k(c, "num_tasks")}, kinds=("scale", "dup"), weights=("weights",)),
        Site("weighted_calibration", g_wc, lambda d, c: F.weighted_calibration(d["input"], d["target"], d["weight"], num_tasks=c.get("num_tasks", 1)), d0,
             [{}, {"num_tasks": 2}],
             mk=lambda c: M.WeightedCalibration(num_tasks=c.get("num_tasks", 1)), upd=lambda m, d: m.update(d["input"], d["target"], d["weight"]),
             model="weighted_calibration", margs=lambda d, c: {**d, **_k(c, "num_tasks")}, kinds=("scale", "dup"), weights=("weight",)),
        Site("perplexity", g_ppl, lambda d, c: F.perplexity(d["input"], d["target"], ignore_index=c.get("ignore_index")), r0, [{}, {"ignore_index": 1}],
             mk=lambda c: M.Perplexity(ignore_index=c.get("ignore_index")), upd=lambda m, d: m.update(d["input"], d["target"]), kinds=("dup",), tol_dup=1e-4, nmax=5000),
        Site("peak_signal_noise_ratio", g_psnr, lambda d, c: F.peak_signal_noise_ratio(d["input"], d["target"], data_range=c.get("data_range")), r0, [{}, {"data_range": 2.0}],
             mk=lambda c: M.PeakSignalNoiseRatio(data_range=c.get("data_range")), upd=lambda m, d: m.update(d["input"], d["target"]), kinds=("dup",), tol_dup=1e-4),
    ]
    for nm, f, cls in (("word_error_rate", F.word_error_rate, M.WordErrorRate), ("word_information_preserved", F.word_information_preserved, M.WordInformationPreserved),
                       ("word_information_lost", F.word_information_lost, M.WordInformationLost)):
        S.append(Site(nm, g_text, (lambda f: lambda d, c: f(d["input"], d["target"]))(f), r0, [{}],
                      mk=(lambda cls: lambda c: cls())(cls), upd=lambda m, d: m.update(d["input"], d["target"]), kinds=("dup",), nmax=2000))
    return {s.name: s for s in S}


SITES = _sites()

# ----------------------------------------------------------------------------- transformations of an input dict

def cat2(s: Site, d: dict) -> dict:
    out = {}
    for k, v in d.items():
        if isinstance(v, torch.Tensor) and k in s.dims:
            out[k] = torch.cat([v, v], dim=s.dims[k])
        elif isinstance(v, list):
            out[k] = v + v
        else:
            out[k] = v
    return out


def chunks(s: Site, d: dict, cuts=(0.23, 0.61)) -> list:
    """the stream as 3 unequal batches along the sample dimension."""
    n = None
    for k, v in d.items():
        if isinstance(v, torch.Tensor) and k in s.dims:
            n = v.shape[s.dims[k]]
            break
        if isinstance(v, list):
            n = len(v)
            break
    b = [0, max(1, int(n * cuts[0])), max(2, int(n * cuts[1])), n]
    sizes = {}
    for k, v in d.items():
        if isinstance(v, torch.Tensor) and k in s.dims:
            sizes[k] = v.shape[s.dims[k]]
    out = []
    for i in range(3):
        c = {}
        for k, v in d.items():
            if isinstance(v, torch.Tensor) and k in s.dims:
                m = sizes[k]
                lo, hi = (b[i] * m) // n, (b[i + 1] * m) // n           # tensors of another length (Wasserstein's y) are cut proportionally
                if i == 2:
                    hi = m
                c[k] = v.narrow(s.dims[k] % v.ndim, lo, hi - lo)
            elif isinstance(v, list):
                c[k] = v[b[i]:b[i + 1]]
            else:
                c[k] = v
        out.append(c)
    return [c for c in out if all((not isinstance(v, torch.Tensor)) or k not in s.dims or v.shape[s.dims[k] % v.ndim] > 0 for k, v in c.items())]


def run_fn(s: Site, d: dict, cfg: dict):
    try:
        return ("ok", flat_out(s.fn(d, cfg)))
    except Exception as e:  # noqa: BLE001
        return ("err", err_kind(e), repr(e)[:160])


def run_cls(s: Site, stream: list, cfg: dict):
    try:
        m = s.mk(cfg)
        for c in stream:
            s.upd(m, c)
        r = m.compute()
        if s.post:
            r = s.post(r)
        return ("ok", flat_out(r))
    except Exception as e:  # noqa: BLE001
        return ("err", err_kind(e), repr(e)[:160])

# ----------------------------------------------------------------------------- relations between two outcomes

def _vals(t):
    if isinstance(t, torch.Tensor):
        return t.reshape(-1).to(torch.float64).tolist()
    return list(t[1])          # model tensor (shape, data)


def _shape(t):
    return tuple(t.shape) if isinstance(t, torch.Tensor) else tuple(t[0])


def num_eq(a, b, tol):
    """tol = None: exact (model side, Fractions / nan / inf); else relative-absolute float tolerance. NaN == NaN."""
    fa, fb = float(a), float(b)
    if math.isnan(fa) or math.isnan(fb):
        return math.isnan(fa) and math.isnan(fb)
    if math.isinf(fa) or math.isinf(fb):
        return fa == fb
    if tol is None:
        return a == b
    return abs(fa - fb) <= tol * max(1.0, abs(fa), abs(fb))


def vec_eq(a, b, tol, what=""):
    va, vb = _vals(a), _vals(b)
    if _shape(a) != _shape(b):
        return f"{what}shape {_shape(a)} vs {_shape(b)}"
    for i, (x, y) in enumerate(zip(va, vb)):
        if not num_eq(x, y, tol):
            return f"{what}[{i}] {float(x)!r} vs {float(y)!r}"
    return None


def apply_map_vals(f, vals):
    """the float32 kernel on (exact) float32 values given as floats / Fractions."""
    if not vals:
        return []
    t = torch.tensor([float(v) for v in vals], dtype=torch.float32)
    return f(t).to(torch.float64).tolist()


def relate(kind: str, a, b, tol, ctx: dict):
    """a = outcome on x, b = outcome on T(x); returns None or a message."""
    if a[0] == "err" or b[0] == "err":
        if a[0] == b[0] and a[1] == b[1]:
            return None
        return f"outcome {a[:2] if a[0]=='err' else 'ok'} vs {b[:2] if b[0]=='err' else 'ok'}"
    A, B = a[1], b[1]
    if len(A) != len(B):
        return f"{len(A)} output tensors vs {len(B)}"
    if kind == "same":
        for j, (x, y) in enumerate(zip(A, B)):
            m = vec_eq(x, y, tol, f"out{j}")
            if m:
                return m
        return None
    if kind in ("curve", "rp"):
        f = ctx["f"]
        third = len(A) // 3 if kind == "curve" else len(A) // 2
        nv = 2 * third if kind == "curve" else third
        for j in range(nv):
            m = vec_eq(A[j], B[j], tol, f"value{j}")
            if m:
                return m
        for j in range(nv, len(A)):
            ta, tb = _vals(A[j]), _vals(B[j])
            if len(ta) != len(tb):
                return f"thresholds{j}: {len(ta)} vs {len(tb)} points"
            fa = apply_map_vals(f, ta)
            for i, (u, v, w) in enumerate(zip(ta, fa, tb)):
                if float(v) == float(w):
                    continue
                # recall@precision: `abs(max(thresholds ++ [-1]))` is 1 when only the appended point qualifies
                if kind == "rp" and float(u) == 1.0 and float(w) == 1.0:
                    continue
                return f"thresholds{j}[{i}]: f({float(u)!r}) = {float(v)!r} but got {float(w)!r}"
        return None
    if kind == "perm":                 # relabelling; ctx: sigma (list), layout
        sg, layout, C = ctx["sigma"], ctx["layout"], len(ctx["sigma"])
        if layout == "":
            return relate("same", a, b, tol, ctx)
        if layout == "vec":
            va, vb = _vals(A[0]), _vals(B[0])
            if len(va) != C or len(vb) != C:
                return f"per-class vector of length {len(va)}/{len(vb)}, C={C}"
            for c in range(C):
                if not num_eq(va[c], vb[sg[c]], tol):
                    return f"class {c} -> {sg[c]}: {float(va[c])!r} vs {float(vb[sg[c]])!r}"
            return None
        if layout == "mat":
            va, vb = _vals(A[0]), _vals(B[0])
            if len(va) != C * C or len(vb) != C * C:
                return f"matrix of {len(va)}/{len(vb)} entries, C={C}"
            for t in range(C):
                for p in range(C):
                    if not num_eq(va[t * C + p], vb[sg[t] * C + sg[p]], tol):
                        return f"cm[{t}][{p}]={float(va[t*C+p])!r} vs cm'[{sg[t]}][{sg[p]}]={float(vb[sg[t]*C+sg[p]])!r}"
            return None
        if layout == "lists":             # k groups of C tensors (precision list, recall list, thresholds list)
            if len(A) % C:
                return f"{len(A)} tensors, C={C}"
            for grp in range(len(A) // C):
                for c in range(C):
                    m = vec_eq(A[grp * C + c], B[grp * C + sg[c]], tol, f"list{grp} class {c}->{sg[c]} ")
                    if m:
                        return m
            return None
    raise ValueError(kind)

# ----------------------------------------------------------------------------- cases

def mkcase(site, kind, ci, n, seed, **t):
    return {"site": site, "kind": kind, "cfg": ci, "n": n, "seed": seed, **t}


def transform(s: Site, cfg: dict, d: dict, case: dict):
    """-> (d', cfg', relation kind, ctx, tol) or None when the precondition of the relation fails (case skipped)."""
    kind = case["kind"]
    if kind in ("mono", "monothr"):
        f = map_fn(case["map"], s.domain)
        x = d[s.score]
        chk = x if kind == "mono" else torch.cat([x.reshape(-1), torch.tensor([cfg.get("threshold", 0.5)], dtype=x.dtype)])
        if not strict_ok(chk, f, s.domain):
            return None
        d2 = dict(d)
        d2[s.score] = f(x)
        cfg2 = dict(cfg)
        if kind == "monothr":
            cfg2["threshold"] = float(f(torch.tensor([cfg.get("threshold", 0.5)], dtype=x.dtype))[0])
        return d2, cfg2, s.out, {"f": f}, 1e-6
    if kind == "scale":
        cs = case["c"]
        d2 = dict(d)
        for k, c in zip(s.weights, cs):
            if k in d2:
                d2[k] = d2[k] * float(c)
        return d2, cfg, ("same" if s.out == "same" else s.out), {"f": lambda t: t}, 1e-6
    if kind == "dup":
        return cat2(s, d), cfg, s.out, {"f": lambda t: t}, s.tol_dup
    if kind == "relabel":
        sg = case["sigma"]
        C = len(sg)
        st = torch.tensor(sg, dtype=torch.int64)
        inv = torch.empty(C, dtype=torch.int64)
        inv[st] = torch.arange(C)
        d2 = dict(d)
        d2["target"] = st[d["target"]]
        if s.relabel == "labels":
            d2["input"] = st[d["input"]]
        else:
            d2["input"] = d["input"][:, inv]              # new column sigma(c) holds old column c
        return d2, cfg, "perm", {"sigma": sg, "layout": s.perclass(cfg) if s.perclass else ""}, 1e-6
    raise ValueError(kind)


def public(cfg):
    return {k: v for k, v in cfg.items() if not k.startswith("_")}


def case_input(case: dict):
    """(site, configuration, generated input dict) of a case: the input is a pure function of (site generator, cfg, n, seed)"""
    s = SITES[case["site"]]
    cfg = s.cfgs[case["cfg"]]
    return s, cfg, s.gen(tgen(case["seed"]), case["n"], cfg)


def fingerprint(d: dict) -> str:
    """content hash of a generated input (tensor dtype, shape and bytes; sentences as text): recorded with a violation so that a
    replay can tell that it regenerated exactly the input that failed"""
    import hashlib
    h = hashlib.sha1()
    for k in sorted(d):
        v = d[k]
        if isinstance(v, torch.Tensor):
            h.update(f"{k}|{v.dtype}|{tuple(v.shape)}|".encode())
            h.update(v.detach().contiguous().cpu().numpy().tobytes())
        else:
            h.update(f"{k}|{v!r}|".encode())
    return h.hexdigest()[:16]


def violation_payload(case: dict, where: str):
    """replay dict of a broken relation: the case (site, kind, cfg index, n, seed, transformation), the configuration it
    indexes (so that a reordered table is noticed) and the fingerprint of the generated input"""
    s, cfg, d = case_input(case)
    return {"kind": "metamorphic-case", "case": case, "where": where, "cfg": dict(cfg), "fingerprint": fingerprint(d)}


def eval_case(case: dict, with_model=False):
    """-> dict(skipped=bool, problems=[(level, signature-suffix, message)], stats)"""
    s, cfg, d = case_input(case)
    tr = transform(s, cfg, d, case)
    if tr is None:
        return {"skipped": True, "problems": [], "stats": {}}
    d2, cfg2, rel, ctx, tol = tr
    problems = []
    stats = {}
    x = d.get(s.score)
    if isinstance(x, torch.Tensor) and x.dtype.is_floating_point:
        u = torch.unique(x).numel()
        stats["distinct"] = u
        stats["tiefrac"] = 1.0 - u / max(1, x.numel())
    # functional
    a, b = run_fn(s, d, cfg), run_fn(s, d2, cfg2)
    m = relate(rel, a, b, tol, ctx)
    stats["exact"] = m is None and relate(rel, a, b, 0.0, ctx) is None
    stats["err"] = a[0] == "err"
    if m:
        problems.append(("real", "functional", m))
    if a[0] == "err":
        problems.append(("harness", "functional", f"the real code raised on a generated valid input: {a[1:]}"))
    # class form
    if s.mk is not None:
        st1 = chunks(s, d)
        if case["kind"] == "dup":
            st2 = st1 + st1                                  # the same stream fed twice
        else:
            st2 = chunks(s, d2)
        ca, cb = run_cls(s, st1, cfg), run_cls(s, st2, cfg2)
        m = relate(rel, ca, cb, tol, ctx)
        if m:
            problems.append(("real", "class", m))
        if ca[0] == "err":
            problems.append(("harness", "class", f"the real class raised on a generated valid stream: {ca[1:]}"))
    if with_model and s.model:
        la = "fn " + s.model + " " + enc_args(s.margs(d, public(cfg)))
        lb = "fn " + s.model + " " + enc_args(s.margs(d2, public(cfg2)))
        try:
            oa, ob = run_driver([la, lb], timeout=300)
        except (DriverError, Exception) as e:  # noqa: BLE001
            problems.append(("infra", "driver", repr(e)[:200]))
            return {"skipped": False, "problems": problems, "stats": stats}
        ma, mb = dec_out(oa), dec_out(ob)
        if ma[0] == "bad" or mb[0] == "bad":
            problems.append(("model", "protocol", f"{ma[1] if ma[0]=='bad' else mb[1]}"))
        else:
            ma2 = ma if ma[0] == "ok" else ("err", ma[1])
            mb2 = mb if mb[0] == "ok" else ("err", mb[1])
            # click_through_rate: the model keeps the code's `+ finfo.tiny` in the denominator (TE.C17.ctr_weight_scale_eps)
            mtol = 1e-30 if s.model == "click_through_rate" else None
            m = relate(rel, ma2, mb2, mtol, ctx)
            if m:
                problems.append(("model", "model(x) vs model(T x)", m))
            # model(x) vs real(x), model(Tx) vs real(Tx)
            for tag, real, mod in (("x", a, ma2), ("T(x)", b, mb2)):
                if real[0] == "err" or mod[0] == "err":
                    if real[0] != mod[0]:
                        problems.append(("model", f"model vs real on {tag}", f"real {real[:2] if real[0]=='err' else 'ok'} / model {mod[:2] if mod[0]=='err' else 'ok'}"))
                    continue
                mm = relate("same", real, mod, s.mtol, ctx)
                if mm:
                    problems.append(("model", f"model vs real on {tag}", mm))
        stats["model_line"] = la[:300]
    return {"skipped": False, "problems": problems, "stats": stats}

# ----------------------------------------------------------------------------- case enumeration

SCALES = [(2.0, 2.0), (0.25, 0.25), (1024.0, 1024.0), (2.0 ** -12, 2.0 ** -12), (8.0, 0.5), (0.125, 64.0)]
# far-off (exact, power-of-two) factors for the sites whose definition is homogeneous of degree 0 in the weights with NO clamp in the
# code that is meant to bite (MSE / weighted calibration / normalized entropy clamp their denominators at eps by design: witness
# theorems in TE/Props/C17).  click_through_rate adds finfo.tiny = 2^-126 to the denominator: by TE.C17.ctr_weight_scale_eps the
# run on c·w is the run on w with tiny/c, still < 2^-80 for c = 2^-40 — a guard of eps-size instead of tiny-size shows here.
FAR_SCALES = {"click_through_rate": [(2.0 ** -40, 2.0 ** -40), (2.0 ** 40, 2.0 ** 40), (2.0 ** -30, 2.0 ** -30)],
              "mean": [(2.0 ** -40, 2.0 ** -40), (2.0 ** 40, 2.0 ** 40)],
              "binary_auroc": [(2.0 ** -40, 2.0 ** -40), (2.0 ** 30, 2.0 ** 30)],
              "wasserstein_1d": [(2.0 ** -40, 2.0 ** -40), (2.0 ** 40, 2.0 ** 40)]}


def perm_of(rng: Rng, C):
    sg = list(range(C))
    while True:
        rng.shuffle(sg)
        if C == 1 or sg != list(range(C)):
            return list(sg)


def gen_cases(rng: Rng, sizes, reps: int, only_model=False):
    """deterministic list of cases: every site x cfg x kind, `reps` (transformation, size, seed) draws each."""
    out = []
    for name in sorted(SITES):
        s = SITES[name]
        if only_model and not s.model:
            continue
        for ci, cfg in enumerate(s.cfgs):
            for kind in s.kinds:
                for r in range(reps):
                    n = min(rng.choice(sizes), s.nmax)
                    seed = rng.randrange(1 << 40)
                    if kind in ("mono", "monothr"):
                        maps = sorted(MAPS01 if s.domain == "01" else MAPSR)
                        out.append(mkcase(name, kind, ci, n, seed, map=maps[(r + ci + rng.randrange(len(maps))) % len(maps)]))
                    elif kind == "scale":
                        for sc in SCALES + FAR_SCALES.get(name, []):      # every factor, a fresh data set each
                            out.append(mkcase(name, kind, ci, min(rng.choice(sizes), s.nmax), rng.randrange(1 << 40), c=list(sc)))
                    elif kind == "dup":
                        out.append(mkcase(name, kind, ci, n, seed))
                    elif kind == "relabel":
                        out.append(mkcase(name, kind, ci, n, seed, sigma=perm_of(rng, cfg["num_classes"])))
    return out


def signature(case, where):
    t = case.get("map") or ("c=" + "x".join(str(c) for c in case["c"]) if "c" in case else case["kind"])
    return f"C17|{case['site']}.{where}|{case['kind']}:{t}|relation-broken"


def describe(case):
    s = SITES[case["site"]]
    return f"{case['site']} cfg={public(s.cfgs[case['cfg']])} kind={case['kind']} n={case['n']} seed={case['seed']} " + \
        ", ".join(f"{k}={case[k]}" for k in ("map", "c", "sigma") if k in case)


def run_cases(rep: Report, cases, deadline, with_model, stream):
    n_done = n_skip = n_bad = 0
    for case in cases:
        if time.time() > deadline:
            rep.notes.append(f"{stream}: budget exhausted after {n_done} of {len(cases)} cases")
            break
        try:
            res = eval_case(case, with_model=with_model)
        except Exception as e:  # noqa: BLE001  (a bug of this harness must not masquerade as a result)
            n_bad += 1
            rep.broke(f"harness-exception:{case['site']}:{case['kind']}", f"{describe(case)}: {e!r}"[:400], {"case": case})
            continue
        if res["skipped"]:
            n_skip += 1
            rep.count(f"skipped-precondition:{case['kind']}")
            continue
        n_done += 1
        st = res["stats"]
        rep.count(f"{stream}:kind:{case['kind']}")
        rep.count(f"{stream}:n:{case['n']}")
        rep.count(f"{stream}:site:{case['site']}")
        if "map" in case:
            rep.count(f"{stream}:map:{case['map']}")
        if "c" in case:
            rep.count(f"{stream}:scale:" + "x".join(str(c) for c in case["c"]))
        if "sigma" in case:
            rep.count(f"{stream}:classes:{len(case['sigma'])}")
        if "distinct" in st:
            dd = st["distinct"]
            rep.count(f"{stream}:distinct-scores:" + ("<=8" if dd <= 8 else "<=64" if dd <= 64 else "<=1025" if dd <= 1025 else ">1025"))
            tf = st["tiefrac"]
            rep.count(f"{stream}:tie-fraction:" + ("0" if tf == 0 else "<0.5" if tf < 0.5 else "<0.99" if tf < 0.99 else ">=0.99"))
        if st.get("exact"):
            rep.count(f"{stream}:bitwise-equal-functional")
        if st.get("err"):
            rep.count(f"{stream}:real-raises")
        rep.case(nontrivial_key=(stream, case["site"], case["cfg"], case["kind"], case.get("map"), str(case.get("c")), str(case.get("sigma")), case["n"], case["seed"]),
                 sample={"case": describe(case), "model": st.get("model_line")} if n_done % 97 == 1 else None)
        rep.traces += 1
        for level, where, msg in res["problems"]:
            n_bad += 1
            if level == "real":
                rep.violation(signature(case, where), f"{describe(case)}: {where} result on x and on T(x) violate the relation: {msg}", violation_payload(case, where))
            elif level == "harness":
                rep.broke(f"generator:{case['site']}:{where}", f"{describe(case)}: {msg}", {"case": case})
            elif level == "model":
                pre = "correspondence" if where.startswith("model vs real") or where == "protocol" else "theorem-instance"
                rep.broke(f"{pre}:{case['site']}:{case['kind']}:{where}", f"{describe(case)}: {msg}", {"case": case})
            else:
                rep.notes.append(f"driver problem on {describe(case)}: {msg}")
        if n_bad > 30:
            break
    rep.streams[stream] = {"cases": n_done, "skipped_precondition": n_skip, "problems": n_bad}



# ----------------------------------------------------------------------------- extra streams (real vs real)

def extra_inputs(kind: str, name: str, seed: int) -> dict:
    """the concrete data of one deterministic extra case (tensors with their dtype; scalar weights as the python float / int they are)"""
    g = torch.Generator().manual_seed(seed)
    if kind == "fine-scale":
        n, C = 400, 8
        j = torch.stack([torch.randperm(64, generator=g)[:C] for _ in range(n)]).to(torch.float64)
        x = 0.5 + j * 2.0 ** -40
        tgt = torch.randint(0, C, (n,), generator=g)
        y01 = torch.randint(0, 2, (n,), generator=g)
        return {"x": x, "tgt": tgt, "y01": y01}
    if kind == "mixed-weight-scale":
        T = 2 if name.endswith("[tasks=2]") else 1
        shape = (300,) if T == 1 else (T, 300)
        ups = []
        for i in range(4):
            x = torch.randint(1, 8, shape, generator=g).float() / 8
            y = torch.randint(0, 2, shape, generator=g).float()
            w = (torch.randint(1, 5, shape, generator=g).float()) if i % 2 == 0 else [2.0, 3][i // 2]
            ups.append((x, y, w))
        return {"ups": ups}
    if kind == "int-input-scale":
        n = 200
        return {"x": torch.randint(0, 50, (n,), generator=g), "w": torch.randint(1, 5, (n,), generator=g).to(torch.float32)}
    if kind == "narrow-relabel":
        n, C = 300, 20
        return {"pred": torch.randint(0, C, (n,), generator=g), "tgt": torch.randint(0, C, (n,), generator=g), "sigma": torch.randperm(C, generator=g)}
    if kind == "big-dup":
        # an evaluation set large enough that #positives x #negatives of a one-vs-rest problem passes 2^31 once it is duplicated
        # (50 000 samples, one class holding half): integer products / cumulative counts in a narrow dtype wrap only here
        n, C = 50_000, 3
        x = torch.rand(n, C, generator=g)
        tgt = torch.where(torch.rand(n, generator=g) < 0.5, torch.zeros(n, dtype=torch.int64), torch.randint(1, C, (n,), generator=g))
        x[torch.arange(n), tgt] += 0.4
        return {"x": x, "tgt": tgt}
    raise ValueError(kind)


def extra_verdict(kind: str, name: str, inp: dict) -> tuple[bool, str]:
    """(holds, description) of one extra case on its concrete data (`extra_inputs`, or the data recorded with a violation).
    kind "fine-scale": float64 scores 0.5 + j·2^-40 (distinct, far below float32 resolution) against the exact zoom
        x ↦ (x − 0.5)·2^30, a strictly increasing map — a rank metric that rounds its scores to float32 first collapses the
        former to ties but not the latter.
    kind "mixed-weight-scale": a class metric whose updates alternate tensor weights and plain float / int weights; every
        weight is then multiplied by c — a per-update scalar weight that is silently dropped (it cancels within ONE call)
        breaks the invariance only across accumulated updates."""
    if kind == "fine-scale":
        x, tgt, y01 = inp["x"], inp["tgt"], inp["y01"]
        z = (x - 0.5) * 2.0 ** 30
        assert bool(((x[:, :, None] < x[:, None, :]) == (z[:, :, None] < z[:, None, :])).all())
        fns = {"hit_rate": lambda s: F.hit_rate(s, tgt, k=3), "reciprocal_rank": lambda s: F.reciprocal_rank(s, tgt),
               "HitRate": lambda s: M.HitRate(k=2).update(s, tgt).compute(), "ReciprocalRank": lambda s: M.ReciprocalRank(k=4).update(s, tgt).compute(),
               "multiclass_accuracy[k=3]": lambda s: F.multiclass_accuracy(s, tgt, k=3),
               "binary_auroc": lambda s: F.binary_auroc(s[:, 0], y01), "binary_auprc": lambda s: F.binary_auprc(s[:, 0], y01),
               "retrieval_precision": lambda s: F.retrieval_precision(s[:, 0], y01, k=50)}
        a, b = fns[name](x), fns[name](z)
        ok = torch.equal(a.to(torch.float64), b.to(torch.float64))
        return ok, f"{name} on float64 scores 0.5 + j·2^-40 gives {a.reshape(-1)[:6].tolist()}…, on their zoom (x−0.5)·2^30 {b.reshape(-1)[:6].tolist()}… (mean {float(a.double().mean()):.6f} vs {float(b.double().mean()):.6f})"
    if kind == "int-input-scale":
        # values held in an INTEGER tensor (counts, lengths), weights a float tensor: multiplying every weight by a power of two must not
        # change the weighted mean — also when the scaled weights are no longer integers
        x, w = inp["x"], inp["w"]
        f = {"mean": lambda ww: F.mean(x, ww), "Mean": lambda ww: M.Mean().update(x, weight=ww).compute()}[name]
        a = f(w).double()
        for c in (0.25, 0.125, 2.0 ** -10, 8.0):
            b = f(w * c).double()
            if not torch.allclose(a, b, rtol=1e-6, atol=0):
                return False, f"{name} of an int64 tensor with float weights gives {a.item()}, with all weights × {c} it gives {b.item()}"
        return True, f"{name}: invariant under weight scaling on integer-typed values"
    if kind == "narrow-relabel":
        # class ids stored in a narrow integer dtype, 20 classes: renaming the classes permutes rows and columns of the confusion matrix
        pred, tgt, sg = inp["pred"], inp["tgt"], inp["sigma"]
        C = int(sg.numel())
        dt = {"uint8": torch.uint8, "int8": torch.int8, "int16": torch.int16}[name.split("[")[1].rstrip("]")]
        # (only the labels are narrow: with BOTH arguments narrow the function refuses the dtype — "indices must be an int64 tensor")
        a = F.multiclass_confusion_matrix(pred, tgt.to(dt), num_classes=C)
        b = F.multiclass_confusion_matrix(sg[pred], sg[tgt].to(dt), num_classes=C)
        ok = bool(torch.equal(a.double(), b.double()[sg][:, sg]))
        return ok, f"multiclass_confusion_matrix on {dt} class ids, 20 classes: relabelled result is {'the permuted matrix' if ok else 'NOT the permuted matrix'} (total {int(a.sum())} vs {int(b.sum())}, diagonal {int(a.diag().sum())} vs {int(b.diag().sum())})"
    if kind == "big-dup":
        x, tgt = inp["x"], inp["tgt"]
        y01 = (tgt == 0).long()
        fns = {"multiclass_auroc": lambda s, t: F.multiclass_auroc(s, t, num_classes=3, average=None),
               "multiclass_auprc": lambda s, t: F.multiclass_auprc(s, t, num_classes=3, average=None),
               "binary_auroc": lambda s, t: F.binary_auroc(s[:, 0], (t == 0).long()),
               "binary_auprc": lambda s, t: F.binary_auprc(s[:, 0], (t == 0).long())}
        a = fns[name](x, tgt).double()
        b = fns[name](torch.cat([x, x]), torch.cat([tgt, tgt])).double()
        ok = bool(torch.allclose(a, b, rtol=1e-5, atol=1e-6))
        return ok, f"{name} on 50 000 samples gives {a.reshape(-1).tolist()}, on the same set taken twice {b.reshape(-1).tolist()}"
    if kind == "mixed-weight-scale":
        T = 2 if name.endswith("[tasks=2]") else 1
        base = name.split("[")[0]
        ups = inp["ups"]

        def run(c):
            if base in ("WeightedCalibration", "WindowedWeightedCalibration"):
                m = M.WeightedCalibration(num_tasks=T) if base == "WeightedCalibration" else M.WindowedWeightedCalibration(num_tasks=T, max_num_updates=3)
                for x, y, w in ups:
                    m.update(x, y, w * c)
            else:
                m = M.ClickThroughRate(num_tasks=T) if base == "ClickThroughRate" else M.WindowedClickThroughRate(num_tasks=T, max_num_updates=3)
                for x, y, w in ups:
                    m.update(y.long(), w * c)
            r = m.compute()
            return torch.cat([t.reshape(-1).double() for t in (r if isinstance(r, tuple) else (r,))])
        a = run(1)
        for c in (4, 0.25, 2 ** 10):
            b = run(c)
            if not torch.allclose(a, b, rtol=1e-9, atol=0):
                return False, f"{name}: four updates with weights (tensor, 2.0, tensor, 3) give {a.tolist()}, all weights × {c} give {b.tolist()}"
        return True, f"{name}: invariant under weight scaling"
    raise ValueError(kind)


def extra_case(kind: str, name: str, seed: int) -> tuple[bool, str]:
    """one deterministic extra case; returns (holds, description)."""
    return extra_verdict(kind, name, extra_inputs(kind, name, seed))


def _tdesc(t: torch.Tensor):
    return {"shape": list(t.shape), "dtype": str(t.dtype).replace("torch.", ""), "data": t.reshape(-1).tolist()}


def _tundesc(d):
    return torch.tensor(d["data"], dtype=getattr(torch, d["dtype"])).reshape(tuple(d["shape"]))


def extra_inputs_json(inp: dict) -> dict:
    if "ups" in inp:
        return {"ups": [[_tdesc(x), _tdesc(y), (_tdesc(w) if isinstance(w, torch.Tensor) else w)] for x, y, w in inp["ups"]]}
    return {k: _tdesc(v) for k, v in inp.items()}


def extra_inputs_from_json(j: dict) -> dict:
    if "ups" in j:
        return {"ups": [(_tundesc(x), _tundesc(y), (_tundesc(w) if isinstance(w, dict) else w)) for x, y, w in j["ups"]]}
    return {k: _tundesc(v) for k, v in j.items()}


EXTRA = ([("fine-scale", n) for n in ("hit_rate", "reciprocal_rank", "HitRate", "ReciprocalRank", "multiclass_accuracy[k=3]", "binary_auroc", "binary_auprc", "retrieval_precision")]
         + [("int-input-scale", n) for n in ("mean", "Mean")]
         + [("narrow-relabel", n) for n in ("multiclass_confusion_matrix[uint8]", "multiclass_confusion_matrix[int8]", "multiclass_confusion_matrix[int16]")]
         + [("big-dup", n) for n in ("multiclass_auroc", "multiclass_auprc", "binary_auroc", "binary_auprc")]
         + [("mixed-weight-scale", n) for n in ("WeightedCalibration", "WeightedCalibration[tasks=2]", "WindowedWeightedCalibration", "ClickThroughRate", "ClickThroughRate[tasks=2]", "WindowedClickThroughRate")])


def extra_streams(rep: Report):
    for kind, name in EXTRA:
        for r in range((2 if rep.tier == "quick" else 8) if kind != "big-dup" else 1):
            seed = rep.seed * 7919 + 31 * r + 5
            try:
                inp = extra_inputs(kind, name, seed)
                ok, what = extra_verdict(kind, name, inp)
            except Exception as e:  # noqa: BLE001
                rep.broke(f"harness-exception:{kind}:{name}", repr(e)[:300], {"case": {"extra": kind, "name": name, "seed": seed}})
                continue
            rep.case(nontrivial_key=("extra", kind, name, seed), sample=None)
            rep.count(f"extra:{kind}")
            if not ok:
                rep.violation(f"C17|{name}|{kind}|relation-broken", what,
                              {"kind": "extra-case", "case": {"extra": kind, "name": name, "seed": seed},
                               "inputs": extra_inputs_json(inp) if kind != "big-dup" else None})     # big-dup: regenerated from the seed
                break

def run(rep: Report):
    thorough = rep.tier == "thorough"
    t0 = time.time()
    # model pairs first (small n): theorem instances + model-vs-real on exactly the relation proved
    mrng = Rng(rep.seed * 1000003 + 1717)
    mcases = gen_cases(mrng, (150, 300, 600, 1200) if thorough else (150, 300, 600), 4 if thorough else 1, only_model=True)
    # Wasserstein's model is quadratic: keep it small
    for c in mcases:
        if c["site"] == "wasserstein_1d":
            c["n"] = min(c["n"], 200)
    run_cases(rep, mcases, t0 + budget(rep.tier, 35, 300), True, "model")
    rng = Rng(rep.seed * 1000003 + 17)
    sizes = (2000, 5000, 10000, 20000) if thorough else (2000, 3000, 5000)
    cases = gen_cases(rng, sizes, 20 if thorough else 3)
    run_cases(rep, cases, t0 + budget(rep.tier, 75, 800), False, "real")
    extra_streams(rep)


def search(rep: Report):
    """same real-vs-real oracle, more cases and more sizes (capped)."""
    rng = Rng(rep.seed * 7919 + 1700)
    cases = gen_cases(rng, (500, 2000, 5000, 10000, 20000), 3)
    run_cases(rep, cases, time.time() + 120, False, "search")


def _nothing(reason):
    raise ValueError(f"nothing to replay: {reason}")


def replay(payload) -> bool:
    """True iff the metamorphic relation holds on the recorded case (functional AND class form on x and T(x), real code only).
    The input (2 000 … 20 000 samples) is not stored: it is a pure function of (site generator, configuration, n, seed); the
    payload carries the configuration and a content fingerprint of the input that failed, and a replay that does not regenerate
    exactly that input refuses to answer.  The verdict is `eval_case`, the function of the sweep and of search()."""
    if not isinstance(payload, dict):
        _nothing("payload is not a dict")
    if "replay" in payload or "property" in payload:
        if payload.get("kind", "failing-input") != "failing-input":
            _nothing(f"payload kind {payload.get('kind')!r} carries no concrete input")
        rp = payload.get("replay")
    else:
        rp = payload
    if not isinstance(rp, dict) or not rp:
        _nothing("the payload carries no replay dict")
    case = rp.get("case")
    if rp.get("kind") == "extra-case" or (isinstance(case, dict) and "extra" in case):
        # extra streams: the recorded data (tensors with dtype, scalar weights as python numbers) through `extra_verdict`;
        # payloads without the data regenerate it from (kind, name, seed)
        if not isinstance(case, dict) or (case.get("extra"), case.get("name")) not in EXTRA:
            _nothing(f"unknown extra case {case!r}")
        if isinstance(rp.get("inputs"), dict):
            inp = extra_inputs_from_json(rp["inputs"])
        elif isinstance(case.get("seed"), int):
            inp = extra_inputs(case["extra"], case["name"], case["seed"])
        else:
            _nothing("extra case without recorded data or seed")
        ok, what = extra_verdict(case["extra"], case["name"], inp)
        if not ok:
            print("replay:", what[:500])
        return ok
    if rp.get("kind", "metamorphic-case") != "metamorphic-case":
        _nothing(f"replay kind {rp.get('kind')!r} is not a metamorphic case")
    if not isinstance(case, dict) or not all(k in case for k in ("site", "kind", "cfg", "n", "seed")):
        _nothing("the payload carries no case (site, kind, cfg, n, seed, transformation)")
    if case["site"] not in SITES:
        _nothing(f"unknown site {case['site']!r}")
    s = SITES[case["site"]]
    if not isinstance(case["cfg"], int) or not (0 <= case["cfg"] < len(s.cfgs)):
        _nothing(f"configuration index {case['cfg']!r} is outside the table of {case['site']}")
    need = {"mono": "map", "monothr": "map", "scale": "c", "relabel": "sigma", "dup": None}
    if case["kind"] not in need or (need[case["kind"]] and need[case["kind"]] not in case):
        _nothing(f"transformation of kind {case['kind']!r} is not described in the case")
    if "cfg" in rp and dict(s.cfgs[case["cfg"]]) != rp["cfg"]:
        _nothing(f"configuration #{case['cfg']} of {case['site']} is now {s.cfgs[case['cfg']]}, the case was recorded with {rp['cfg']}")
    if "fingerprint" in rp:
        fp = fingerprint(case_input(case)[2])
        if fp != rp["fingerprint"]:
            _nothing(f"the regenerated input (fingerprint {fp}) is not the recorded one ({rp['fingerprint']}): generator or torch RNG changed")
    res = eval_case(case, with_model=False)
    if res["skipped"]:
        _nothing("the precondition of the relation (strictly increasing map on the generated values) does not hold: case skipped")
    real = [(where, msg) for level, where, msg in res["problems"] if level == "real"]
    if not real and any(level == "harness" for level, _, _ in res["problems"]):
        _nothing("the real code raises on the recorded valid input: the relation between f(x) and f(T x) is undecided")
    for where, msg in real:
        print(f"replay: {signature(case, where)}: {msg}"[:500])
    return not real
