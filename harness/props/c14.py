"""C14 — failure atomicity and memory safety of update() and functional calls.

Fault enumeration in a child process, two catalogues:
  (1) shape/type faults: valid history ∘ one malformed call from a fixed catalogue ∘ valid
      continuation, for every registry class/config and functional twin;
  (2) index faults (index-range safety): for every entry point that the regenerated inventory of
      index sites (harness/translators/indexsites.py → lean/TE/Gen/IndexSites.lean) shows to be fed
      by user labels / scores / k — labels -1, -C, C, C+1, 2^31, -2^63 in one element of the label
      argument, NaN / ±inf in one score that is bucketed by searchsorted on its way to histc / an
      index, k ∈ {0, -1, n+1, 2^31}.
Observed: exit status of the worker (native crash), per-case timeout (hang), state_dict and plain
attributes before/after a raising update(), the continuation against a twin that never saw the
fault.  A faulty call that RETURNS NORMALLY satisfies the property (C14: "either return normally or raise");
for index faults such calls are counted and their distinct (entry, fault) pairs are listed in the
evidence notes (`accepted_out_of_range_inputs`) — the value they return is a matter of C04/C06/C18.
Violations are only: a signal / crash / hang of the child, an exception followed by a changed
state_dict()/cursor or by a continuation that differs from the twin, and (Lean, `unchecked_kernels_are_guarded`)
a kernel of the `unchecked` kind reached by an unguarded user index.
Lean: validate-then-mutate ordering decided over the regenerated update() table; "a failed update
leaves the state untouched" for the class models; index-kernel semantics, `idx_in_range_*` for all
inputs on the typed models, and decided obligations over the regenerated inventory."""
from __future__ import annotations
import json, os, queue, subprocess, sys, threading, time
from ..common import Report, VERIF, REPO, budget
from ..translators import atomicity as atom_tr
from ..translators import indexsites as index_tr

LEVEL = "proof"
RULE = ("(1) fault catalogue {drop/add/resize a dim, size-1, empty, 0-dim, bool/int/float64/half dtype, label −1, label 10^6, NaN, inf, None, str, "
        "list, missing positional, extra kwarg} applied to one argument of a valid grid-valued call, injected after 0–2 valid updates, "
        "followed by 2 valid updates + compute on the object and on a twin; every registry class × config and every functional twin; "
        "(2) index faults: for every (entry point, argument) that the regenerated index-site inventory marks as reaching an index kernel "
        "(plus the class-label argument of every Multiclass* metric and `indexes` of the retrieval classes): labels {-1,-C,C,C+1,2^31,-2^63}, "
        "scores {NaN,+inf,-inf} where searchsorted buckets them, k ∈ {0,-1,n+1,2^31}; class (history ∘ fault ∘ continuation) and functional; "
        "non-trivial = distinct (class/functional, config, fault) whose faulty call raised")
MODELLED = ["native memory safety inside torch kernels cannot be shown by this technique; only crashes/hangs that actually occur are observed",
            "index-site inventory: intra-function data flow + call graph over the AST (classification rules trusted, kernel behaviours probed on the installed torch); "
            "slice bounds are sums of shapes, modular cursors and min(): assumed non-negative (negative bounds would follow Python slice semantics)",
            "integer-level entry models (checkLabels/confusionI/scatterAddI/aurocWrites in TE/Model/Index.lean) are not linked into the driver: they are tied to the code "
            "by the inventory translator (presence of the checks) and by the index-fault enumeration (observed raising), not by the differential correspondence",
            "a NaN score has no textbook value: the memory-optimised binned forms (searchsorted) count it as above every threshold, the vectorized forms (>=) as below; "
            "recorded in the input distribution, not a violation"]
ASSUMPTIONS = ["a shape/type fault that the real code accepts and answers normally is not a violation of this property (it may be one of C18)",
               "an index fault (out-of-range label, NaN/±inf score, out-of-range k) that the real code accepts and answers normally is not a violation either: "
               "all unguarded index sites are of the wrapping / dropping kernel kinds, which cannot leave the buffer (TE.C14.kernel_keeps_extent, "
               "kernel_defined_unless_unchecked); the accepted (entry, fault) pairs are listed in the notes (accepted_out_of_range_inputs)",
               "the value comparisons recorded for k > n, ±inf and NaN (equals-k=n, as-above-all-thresholds, …) are descriptive counts of the input distribution, not oracles of this property"]
TRUSTED_EXTRA = ["harness/translators/atomicity.py (AST statement order of update()) producing lean/TE/Gen/Atomicity.lean",
                 "harness/translators/indexsites.py (AST index-site inventory + empirical kernel probe) producing lean/TE/Gen/IndexSites.lean"]
CASE_TIMEOUT = 20.0


def translate(rep: Report):
    atom_tr.generate(rep)
    index_tr.generate(rep)


def generate():
    """regenerate both Gen files of C14 (used by setup)."""
    atom_tr.generate()
    index_tr.generate()

# ------------------------------------------------------------------ the oracle (shared by the sweep and by replay)


def judge(case, d) -> list[tuple[str, str]]:
    """violations [(signature, what)] of one finished case (`d` = the worker's `done` record)."""
    kind, name, ci, fault, cseed = case
    out = []
    if kind in ("cls", "fn"):
        if d.get("state_changed"):
            out.append((f"C14|{name}.update|{fault}|state-changed-by-failed-call",
                        f"{name}.update raised {d['raised']} on fault {fault} but state_dict()/attributes changed"))
        elif d.get("continuation_differs"):
            out.append((f"C14|{name}.update|{fault}|continuation-differs-after-failed-call",
                        f"{name}: after a failed update ({fault}): {d['continuation_differs']}"))
        return out
    entry = d.get("entry", name)
    fam, rest = fault.split(":", 1)
    fname = rest.rsplit("@", 1)[0]
    if d.get("state_changed"):
        out.append((f"C14|{entry}|{fam}:{fname}|state-changed-by-failed-call",
                    f"{entry} raised {d['raised']} on {fam} {fname} but state_dict()/attributes changed"))
    elif d.get("continuation_differs"):
        out.append((f"C14|{entry}|{fam}:{fname}|continuation-differs-after-failed-call", f"{entry}: after a failed call ({fam} {fname}): {d['continuation_differs']}"))
    # a call that RETURNS NORMALLY on an out-of-range label / score / k satisfies C14 ("either return normally or
    # raise"): the value it returns is a matter of C04/C06/C18.  It is counted (`account`), never a violation.
    return out


def worker_cmd(*args):
    return [sys.executable, "-m", "harness.props.c14_worker", *args]


def worker_env():
    return dict(os.environ, PYTHONPATH=f"{VERIF}:{REPO}", PYTHONWARNINGS="ignore", TE_REPO=str(REPO))


def describe_case(case):
    """the recipe (concrete content: class, configuration, history, faulty call, continuation — every tensor with dtype and
    shape) of a case whose worker died or hung before it could report it; generated in a fresh child WITHOUT running the fault.
    None when the child cannot produce it."""
    try:
        p = subprocess.run(worker_cmd("--describe", json.dumps(case)), cwd=str(VERIF), env=worker_env(), capture_output=True, text=True, timeout=120)
    except subprocess.TimeoutExpired:
        return None
    for line in p.stdout.split("\n"):
        try:
            x = json.loads(line)
        except json.JSONDecodeError:
            continue
        if "described" in x:
            return x.get("recipe")
    return None


def account(rep: Report, case, d):
    """input-distribution histogram of one finished case."""
    kind, fault = case[0], case[3]
    if kind in ("cls", "fn"):
        rep.count(f"fault:{fault}"); rep.count("raised" if d.get("raised") else "accepted")
        if d.get("raised"):
            rep.count(f"err:{d['raised']}")
        return
    fam, rest = fault.split(":", 1)
    fname = rest.rsplit("@", 1)[0]
    if d.get("raised"):
        outcome = "raised:" + str(d["raised"]) + ("@" + d["at"] if d.get("at") else "")
    else:
        outcome = "returned" + (":" + str(d["oracle"]) if d.get("oracle") else "") + ("|compute-" + d["compute"] if d.get("compute") else "")
    rep.count(f"idx:{fam}:{fname}:{outcome}")
    kinds = "+".join(d.get("kinds", []) or ["?"])
    if d.get("raised"):
        rep.count(f"index-fault:raised:{kinds}")
    else:
        rep.count(f"index-fault:returned-normally:{kinds}")
        acc = rep.__dict__.setdefault("_accepted", {})
        key = (d.get("entry", case[1]), f"{fam}:{fname}")
        info = acc.setdefault(key, {"n": 0, "compute": set(), "cfgs": []})
        info["n"] += 1
        if d.get("compute"):
            info["compute"].add(d["compute"])
        c = json.dumps(d.get("cfg", {}), sort_keys=True, default=str)
        if c not in info["cfgs"] and len(info["cfgs"]) < 4:
            info["cfgs"].append(c)


def accepted_note(rep: Report):
    """distinct (entry, fault) pairs of index faults that the real code accepted and answered normally."""
    acc = rep.__dict__.get("_accepted", {})
    rows = []
    for (entry, fault), info in sorted(acc.items()):
        after = ("; compute() afterwards: " + ",".join(sorted(info["compute"]))) if info["compute"] else ""
        rows.append(f"{entry} <- {fault} (x{info['n']}, configs {' '.join(info['cfgs'])}{after})")
    rep.notes.append(f"accepted_out_of_range_inputs ({len(rows)} distinct (entry, fault) pairs; returning normally satisfies C14, the returned value is a matter "
                     f"of C04/C06/C18; `compute() afterwards: raises` = update() cached the input and compute() raises until reset()): " + " || ".join(rows))


def drive(rep: Report, seed: int, tier: str, deadline: float):
    env = worker_env()
    start, skip = 0, []
    while True:
        p = subprocess.Popen(worker_cmd(str(seed), tier, str(start), ",".join(map(str, skip))),
                             cwd=str(VERIF), env=env, stdout=subprocess.PIPE, stderr=subprocess.DEVNULL, text=True)
        inflight = None
        last = time.time()
        finished = False
        cur = start
        # the worker's lines are pumped into a queue by a reader thread: a `start` line that is already sitting in the pipe
        # buffer is seen at once, so a case that then hangs is attributed to the case in flight (select() on the raw fd
        # does not see lines that the text layer has already buffered)
        lines_q: queue.Queue = queue.Queue()

        def pump(stream=p.stdout, q=lines_q):
            try:
                for ln in stream:
                    q.put(ln)
            except ValueError:
                pass
            q.put(None)
        threading.Thread(target=pump, daemon=True).start()
        while True:
            if time.time() > deadline:
                p.kill(); rep.notes.append("budget exhausted before the catalogue was complete"); return
            try:
                line = lines_q.get(timeout=1.0)
            except queue.Empty:
                if inflight is not None and time.time() - last > CASE_TIMEOUT:
                    p.kill()
                    rep.violation(f"C14|{inflight[1]}|{inflight[3]}|hang", f"{inflight[1]} fault {inflight[3]}: no answer within {CASE_TIMEOUT}s",
                                  {"kind": "fault-case", "case": inflight, "recipe": describe_case(inflight), "seed": seed, "tier": tier})
                    break
                continue
            if line is None:            # end of the worker's output: it finished or died
                break
            last = time.time()
            try:
                d = json.loads(line)
            except json.JSONDecodeError:
                continue
            if "start" in d:
                inflight = d["case"]; cur = d["start"]
            elif "done" in d:
                case = inflight; inflight = None
                start = d["done"] + 1
                if d.get("skip"):
                    continue
                account(rep, case, d)
                rep.case(nontrivial_key=(case[0], case[1], case[2], case[3]) if d.get("raised") else None,
                         sample={"case": case, "result": {k: v for k, v in d.items() if k != "detail"}} if rep.evaluations % 499 == 0 else None)
                if d.get("harness_error"):
                    rep.notes.append(f"harness error in {case}: {d['harness_error']}"[:200])
                for sig, what in judge(case, d):
                    rep.violation(sig, what, {"kind": "fault-case", "case": case, "recipe": d.get("detail"), "seed": seed, "tier": tier,
                                              "observed": {k: v for k, v in d.items() if k != "detail"}})
            elif "finished" in d:
                finished = True
        rc = p.wait()
        if finished:
            return
        if inflight is not None:
            if rc not in (0, -9):
                rep.violation(f"C14|{inflight[1]}|{inflight[3]}|interpreter-crash",
                              f"{inflight[1]} fault {inflight[3]}: worker process died with status {rc}",
                              {"kind": "fault-case", "case": inflight, "recipe": describe_case(inflight), "exit_status": rc, "seed": seed, "tier": tier})
            skip.append(cur); start = cur + 1
        else:
            if rc != 0:
                rep.notes.append(f"worker exited with {rc} outside a case")
            return


CRASH_PRELUDE = ("import sys; sys.path.insert(0, %r); import torch\n"
                 "from torcheval.metrics.functional.frechet import gaussian_frechet_distance as g\n")
# covariance faults for the one native kernel that dies instead of raising on this tree (torch.linalg.eigvals on a non-finite
# matrix): every way a non-finite matrix can reach it — non-finite inputs (everywhere / only off the diagonal / only on it) and
# FINITE inputs whose product overflows the working precision.  name -> (signature class, code building c and calling g)
CRASH_CASES = [
    ("nan-everywhere", "non-finite-covariance", "c = torch.full((2, 2), float('nan')); print(g(torch.zeros(2), c, torch.zeros(2), c))\n"),
    ("nan-off-diagonal", "non-finite-covariance", "c = torch.eye(3); c[0, 1] = c[1, 0] = float('nan'); print(g(torch.zeros(3), c, torch.zeros(3), torch.eye(3)))\n"),
    ("nan-off-diagonal-second", "non-finite-covariance", "c = torch.eye(3, dtype=torch.float64); c[0, 2] = c[2, 0] = float('nan'); print(g(torch.zeros(3, dtype=torch.float64), torch.eye(3, dtype=torch.float64), torch.zeros(3, dtype=torch.float64), c))\n"),
    ("inf-on-diagonal", "non-finite-covariance", "c = torch.eye(2); c[1, 1] = float('inf'); print(g(torch.zeros(2), c, torch.zeros(2), c))\n"),
    ("minus-inf-off-diagonal", "non-finite-covariance", "c = torch.eye(2); c[0, 1] = c[1, 0] = -float('inf'); print(g(torch.zeros(2), c, torch.zeros(2), torch.eye(2)))\n"),
    ("huge-finite-float32", "overflowing-covariance-product", "c = 3e38 * torch.eye(3); c[0, 1] = c[1, 0] = 1e38; print(g(torch.zeros(3), c, torch.zeros(3), c))\n"),
    ("huge-finite-float64", "overflowing-covariance-product", "c = 1e200 * torch.eye(3, dtype=torch.float64); c[0, 1] = c[1, 0] = 1e199; z = torch.zeros(3, dtype=torch.float64); print(g(z, c, z, c))\n"),
    ("huge-times-small", "overflowing-covariance-product", "c = 3e38 * torch.eye(2); d = torch.full((2, 2), 4.0); print(g(torch.zeros(2), c, torch.zeros(2), d))\n"),
    ("huge-means", "overflowing-means", "c = torch.eye(2); print(g(torch.full((2,), 3e38), c, torch.full((2,), -3e38), c))\n"),
    ("empty", "zero-sized", "print(g(torch.zeros(0), torch.zeros(0, 0), torch.zeros(0), torch.zeros(0, 0)))\n"),
]
CRASH_CODE = CRASH_PRELUDE + CRASH_CASES[0][2]      # (kept for replay files written by earlier versions)


def run_code(code: str):
    try:
        p = subprocess.run([sys.executable, "-c", code], capture_output=True, text=True, timeout=120)
        return p.returncode
    except subprocess.TimeoutExpired:
        return "timeout"


def crash_probe(rep: Report):
    """native crashes of torch.linalg.eigvals (non-finite matrix): each case runs in a child process; any exit status other than
    0 (returned) or 1 (Python exception) is an interpreter crash."""
    for name, sigclass, body in CRASH_CASES:
        code = (CRASH_PRELUDE % str(REPO)) + body
        rc = run_code(code)
        rep.case(nontrivial_key=("crash-probe", "gaussian_frechet_distance", name))
        rep.count(f"crash-probe:{name}:exit={rc}")
        if rc not in (0, 1):
            rep.violation(f"C14|gaussian_frechet_distance|{sigclass}|interpreter-crash",
                          f"gaussian_frechet_distance, covariance fault {name}: the interpreter dies instead of raising (exit status {rc})"
                          + (" (also FrechetAudioDistance.compute() with < 2 embeddings)" if name == "nan-everywhere" else ""),
                          {"kind": "code", "code": code, "exit_status": rc})


# the unguarded index sites of TE/Props/C14.lean (`unguardedSites`), each with a minimal concrete input:
# what the real code does there is printed into the evidence notes on every run (child process).
UNGUARDED = [
    ("binary_binned_precision_recall_curve target=2 (histc code lands in a foreign bin)",
     "from torcheval.metrics.functional import binary_binned_precision_recall_curve as f\n"
     "a = f(torch.tensor([0.0, 0.6]), torch.tensor([2, 1]), threshold=torch.tensor([0.0, 0.5]))\n"
     "b = f(torch.tensor([0.6]), torch.tensor([1]), threshold=torch.tensor([0.0, 0.5]))\n"
     "print('with the sample (score 0.0, target 2):', [t.tolist() for t in a], ' without it:', [t.tolist() for t in b])"),
    ("multiclass_binned_precision_recall_curve(optimization='memory') target=-1 wraps to the last class; 'vectorized' raises",
     "from torcheval.metrics.functional import multiclass_binned_precision_recall_curve as f\n"
     "x = torch.tensor([[0.9, 0.1, 0.0], [0.1, 0.8, 0.1]]); t = torch.tensor([0.0, 0.5])\n"
     "m = f(x, torch.tensor([0, -1]), num_classes=3, threshold=t, optimization='memory')\n"
     "w = f(x, torch.tensor([0, 2]), num_classes=3, threshold=t, optimization='memory')\n"
     "print('target -1:', [[u.tolist() for u in p] for p in m[:2]], ' target 2:', [[u.tolist() for u in p] for p in w[:2]])\n"
     "try:\n    f(x, torch.tensor([0, -1]), num_classes=3, threshold=t, optimization='vectorized'); print('vectorized returned')\n"
     "except Exception as e:\n    print('vectorized raises', type(e).__name__)"),
    ("multilabel_binned_precision_recall_curve(optimization='memory') target=2",
     "from torcheval.metrics.functional import multilabel_binned_precision_recall_curve as f\n"
     "x = torch.tensor([[0.1, 0.7]]); t = torch.tensor([0.0, 0.5])\n"
     "print('target [2,1]:', [[u.tolist() for u in p] for p in f(x, torch.tensor([[2, 1]]), num_labels=2, threshold=t, optimization='memory')[:2]],\n"
     "      ' target [0,1]:', [[u.tolist() for u in p] for p in f(x, torch.tensor([[0, 1]]), num_labels=2, threshold=t, optimization='memory')[:2]])"),
    ("perplexity target=-1 reads the LAST vocabulary entry",
     "from torcheval.metrics.functional import perplexity as f\n"
     "x = torch.tensor([[[0.0, 0.0, 2.0]]])\n"
     "print('target -1:', float(f(x, torch.tensor([[-1]]))), ' target 2:', float(f(x, torch.tensor([[2]]))), ' target 0:', float(f(x, torch.tensor([[0]]))))\n"
     "try:\n    f(x, torch.tensor([[-4]])); print('target -4 returned')\nexcept Exception as e:\n    print('target -4 raises', type(e).__name__)"),
]


def unguarded_demo(rep: Report):
    for title, body in UNGUARDED:
        code = "import sys; sys.path.insert(0, %r); import torch\n" % str(REPO) + body
        try:
            p = subprocess.run([sys.executable, "-c", code], capture_output=True, text=True, timeout=120,
                               env=dict(os.environ, PYTHONWARNINGS="ignore"))
            outp = (p.stdout.strip().split("\n")[-3:] if p.stdout.strip() else [p.stderr.strip()[-200:]])
            rep.notes.append(f"unguarded site — {title}: exit {p.returncode}: " + " | ".join(outp)[:400])
            rep.case(nontrivial_key=("unguarded-demo", title))
            if p.returncode not in (0, 1):
                rep.violation(f"C14|{title.split(' ')[0]}|unguarded-index-site|interpreter-crash", f"{title}: exit status {p.returncode}", {"kind": "code", "code": code, "exit_status": p.returncode})
        except subprocess.TimeoutExpired:
            rep.violation(f"C14|{title.split(' ')[0]}|unguarded-index-site|hang", f"{title}: no answer within 120 s", {"kind": "code", "code": code})


def run(rep: Report):
    crash_probe(rep)
    unguarded_demo(rep)
    atom_tr.crosscheck(rep)
    drive(rep, rep.seed, rep.tier, time.time() + budget(rep.tier, 100, 900))
    accepted_note(rep)


def search(rep: Report):
    drive(rep, rep.seed + 7, "thorough", time.time() + 120)


def _nothing(reason):
    raise ValueError(f"nothing to replay: {reason}")


def run_worker_once(args, what):
    """one worker child for a single case: its `done` record, or False when it hangs / dies (the property fails)"""
    try:
        p = subprocess.run(worker_cmd(*args), cwd=str(VERIF), env=worker_env(), capture_output=True, text=True, timeout=CASE_TIMEOUT * 3)
    except subprocess.TimeoutExpired:
        print(f"replay: {what} hangs")
        return False
    if p.returncode != 0:
        print(f"replay: the worker died with status {p.returncode} on {what}")
        return False
    d = None
    for line in p.stdout.split("\n"):
        try:
            x = json.loads(line)
        except json.JSONDecodeError:
            continue
        if "done" in x:
            d = x
    if d is None or d.get("harness_error"):
        raise RuntimeError(f"replay: no result from the worker ({(d or {}).get('harness_error', p.stderr[-200:])})")
    return d


def replay(payload) -> bool:
    """True iff the property holds on the replayed input (the real code at TE_REPO).
    `kind: code`       -> the recorded program (native crash / hang probe) is re-run in a child process;
    `kind: fault-case` -> the recorded RECIPE (class, configuration, history, faulty call, continuation — every tensor with dtype
                          and shape) is run again in a worker child through `c14_worker.run_recipe`, the very observation of the
                          sweep, and judged by `judge`; a child that hangs or dies fails the property.  Payloads without a
                          recipe (recorded before it was part of the payload) are regenerated from their case seed."""
    if not isinstance(payload, dict) or payload.get("kind", "failing-input") != "failing-input":
        _nothing("the payload names a proof obligation / correspondence stream that no longer checks, not a concrete input")
    r = payload.get("replay")
    if not isinstance(r, dict) or not r:
        _nothing("the payload carries no replay dict")
    kind = r.get("kind") or ("code" if "code" in r else "fault-case" if "case" in r else None)
    if kind == "code":
        if not isinstance(r.get("code"), str):
            _nothing("code payload without the program text")
        # native crash / hang probes: the recorded program is re-run in a child process
        code = r["code"].replace(repr("/repo"), repr(str(REPO)))
        m = __import__("re").search(r"sys\.path\.insert\(0, ('[^']*')\)", code)
        if m:
            code = code.replace(m.group(1), repr(str(REPO)), 1)
        return run_code(code) in (0, 1)
    if kind != "fault-case":
        _nothing(f"replay kind {kind!r} is neither a probe program nor a fault case")
    case = r.get("case")
    if not (isinstance(case, list) and len(case) == 5 and case[0] in ("cls", "fn", "icls", "ifn")):
        _nothing("the payload carries no fault case [kind, class, config index, fault, seed]")
    rc = r.get("recipe") if isinstance(r.get("recipe"), dict) else (r.get("detail") if isinstance(r.get("detail"), dict) and "mode" in r["detail"] else None)
    if rc is not None:
        if not all(k in rc for k in ("mode", "class", "cfg", "history", "faulty_call", "continuation")) or rc["faulty_call"] is None:
            _nothing("the recorded recipe is incomplete")
        import tempfile
        with tempfile.NamedTemporaryFile("w", suffix=".json", prefix="c14_recipe_", delete=False) as f:
            json.dump(rc, f)
            path = f.name
        try:
            d = run_worker_once(("--recipe", path), f"the recorded {rc['class']} recipe")
        finally:
            os.unlink(path)
    else:
        print("replay: no recipe in the payload (old format): regenerating the case from its seed")
        d = run_worker_once(("--one", json.dumps(case)), "the regenerated case")
    if d is False:
        return False
    found = judge(case, d)
    for sig, what in found:
        print(f"replay: {sig}: {what}")
    return not found
