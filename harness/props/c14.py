"""C14 — failure atomicity and memory safety of update() and functional calls.
Fault enumeration in a child process: valid history ∘ one malformed call from a fixed
catalogue ∘ valid continuation, for every registry class/config and functional twin.
Observed: exit status of the worker (native crash), per-case timeout (hang), state_dict and
plain attributes before/after a raising update(), and the continuation against a twin that
never saw the fault.  Lean: validate-then-mutate ordering decided over the regenerated
update() effect table; "a failed update leaves the state untouched" for the class models."""
from __future__ import annotations
import json, os, select, subprocess, sys, time
from ..common import Report, VERIF, REPO, budget
from ..translators import atomicity as atom_tr

LEVEL = "fault_enumeration"
RULE = ("fault catalogue {drop/add/resize a dim, size-1, empty, 0-dim, bool/int/float64/half dtype, label −1, label 10^6, NaN, inf, None, str, "
        "list, missing positional, extra kwarg} applied to one argument of a valid grid-valued call, injected after 0–2 valid updates, "
        "followed by 2 valid updates + compute on the object and on a twin; every registry class × config and every functional twin; "
        "non-trivial = distinct (class/functional, config, fault) whose faulty call raised")
MODELLED = ["native memory safety inside torch kernels cannot be shown by this technique; only crashes/hangs that actually occur are observed"]
ASSUMPTIONS = ["a fault that the real code accepts and answers normally is not a violation of this property (it may be one of C18)"]
TRUSTED_EXTRA = ["harness/translators/atomicity.py (AST statement order of update()) producing lean/TE/Gen/Atomicity.lean"]
CASE_TIMEOUT = 20.0


def translate(rep: Report):
    atom_tr.generate(rep)


def drive(rep: Report, seed: int, tier: str, deadline: float):
    env = dict(os.environ, PYTHONPATH=f"{VERIF}:{REPO}", PYTHONWARNINGS="ignore")
    start, skip = 0, []
    total = None
    while True:
        p = subprocess.Popen([sys.executable, "-m", "harness.props.c14_worker", str(seed), tier, str(start), ",".join(map(str, skip))],
                             cwd=str(VERIF), env=env, stdout=subprocess.PIPE, stderr=subprocess.DEVNULL, text=True)
        inflight = None
        last = time.time()
        finished = False
        while True:
            if time.time() > deadline:
                p.kill(); rep.notes.append("budget exhausted before the catalogue was complete"); return
            r, _, _ = select.select([p.stdout], [], [], 1.0)
            if not r:
                if p.poll() is not None:
                    break
                if inflight is not None and time.time() - last > CASE_TIMEOUT:
                    p.kill()
                    rep.violation(f"C14|{inflight[1]}|{inflight[3]}|hang", f"{inflight[1]} fault {inflight[3]}: no answer within {CASE_TIMEOUT}s", {"case": inflight, "seed": seed, "tier": tier})
                    break
                continue
            line = p.stdout.readline()
            if not line:
                if p.poll() is not None:
                    break
                continue
            last = time.time()
            try:
                d = json.loads(line)
            except json.JSONDecodeError:
                continue
            if "start" in d:
                inflight = d["case"]; cur = d["start"]
            elif "done" in d:
                case = inflight; inflight = None
                start = d["done"] + 1
                if d.get("skip"):
                    continue
                rep.count(f"fault:{case[3]}"); rep.count("raised" if d.get("raised") else "accepted")
                if d.get("raised"):
                    rep.count(f"err:{d['raised']}")
                rep.case(nontrivial_key=(case[0], case[1], case[2], case[3]) if d.get("raised") else None,
                         sample={"case": case, "result": {k: v for k, v in d.items() if k != "detail"}} if rep.evaluations % 499 == 0 else None)
                if d.get("harness_error"):
                    rep.notes.append(f"harness error in {case}: {d['harness_error']}"[:200])
                if d.get("state_changed"):
                    rep.violation(f"C14|{case[1]}.update|{case[3]}|state-changed-by-failed-call",
                                  f"{case[1]}.update raised {d['raised']} on fault {case[3]} but state_dict()/attributes changed", d.get("detail", {}))
                elif d.get("continuation_differs"):
                    rep.violation(f"C14|{case[1]}.update|{case[3]}|continuation-differs-after-failed-call",
                                  f"{case[1]}: after a failed update ({case[3]}): {d['continuation_differs']}", d.get("detail", {}))
            elif "finished" in d:
                finished = True; total = d["finished"]
        rc = p.wait()
        if finished:
            return
        if inflight is not None:
            if rc not in (0, -9):
                rep.violation(f"C14|{inflight[1]}|{inflight[3]}|interpreter-crash",
                              f"{inflight[1]} fault {inflight[3]}: worker process died with status {rc}", {"case": inflight, "exit_status": rc, "seed": seed, "tier": tier})
            skip.append(cur); start = cur + 1
        else:
            if rc != 0:
                rep.notes.append(f"worker exited with {rc} outside a case")
            return


def crash_probe(rep: Report):
    """the one native crash known on this tree: torch.linalg.eigvals on a non-finite matrix."""
    code = ("import sys; sys.path.insert(0, %r); import torch\n"
            "from torcheval.metrics.functional.frechet import gaussian_frechet_distance as g\n"
            "c = torch.full((2, 2), float('nan')); print(g(torch.zeros(2), c, torch.zeros(2), c))\n") % str(REPO)
    try:
        p = subprocess.run([sys.executable, "-c", code], capture_output=True, text=True, timeout=120)
        rc = p.returncode
    except subprocess.TimeoutExpired:
        rc = "timeout"
    rep.case(nontrivial_key=("crash-probe", "gaussian_frechet_distance"))
    if rc not in (0, 1):
        rep.violation("C14|gaussian_frechet_distance|non-finite-covariance|interpreter-crash",
                      f"gaussian_frechet_distance with a NaN covariance (also FrechetAudioDistance.compute() with < 2 embeddings) kills the interpreter: exit status {rc}",
                      {"code": code, "exit_status": rc})


def run(rep: Report):
    crash_probe(rep)
    drive(rep, rep.seed, rep.tier, time.time() + budget(rep.tier, 100, 900))


def search(rep: Report):
    drive(rep, rep.seed + 7, "thorough", time.time() + 120)
