"""C16 — multi-task / multi-class / multi-label / multi-query / multi-output results decompose into single slices.

For every metric with a num_tasks / num_classes / num_labels / num_queries / multi-output dimension
(functional and class forms) heterogeneous slices are generated — rows that differ in tie structure, number of
distinct scores and degeneracy (all-ties row, all-positive row, all-negative row, zero-weight row, ordinary row) so
that leakage across rows WOULD change a result — and three things are compared:

  (a) oracle, real vs real: the real multi call against the stack of the real single-slice calls
      (averaged results: against the stated average of the real per-slice results);
  (b) relation, real vs real: replacing the data of slice j must leave every other slice's result unchanged;
  (c) correspondence: the real multi call against the Lean model through the driver — the *vectorised*
      models of TE/Model/Multi.lean (`multi.*` requests) where the code is one tensor program over all rows,
      the existing family models elsewhere.

Every case is a JSON payload `{fam, …}`; `evaluate(payload)` re-runs it, `replay` is `evaluate(...).ok`."""
from __future__ import annotations
import json, math, time
from fractions import Fraction as Fr
import torch
from ..common import (G5, Rng, Report, call_real, dec_out, enc_args, ft, it, outcomes_agree, run_driver, budget, sha)
from ..engine import tensors_close, observe
import torcheval.metrics as M
import torcheval.metrics.functional as F

LEVEL = "proof"
RULE = ("slices (tasks / classes / labels / queries / outputs) are drawn from distinct profiles — constant scores (all ties), "
        "two score levels, all-distinct scores, all-positive, all-negative, zero weights, some zero weights, ordinary — on "
        "float-exact grids (multiples of 1/8, weights in {0,1/2,1,2,3}); 2..5 slices, 1..9 samples per slice (streams of 1..7 "
        "updates for classes, longer than the window for windowed classes, mixed `indexes` incl. absent queries for retrieval); "
        "non-trivial = a case whose slices have pairwise different profiles and at least one degenerate slice")
MODELLED = ["IEEE rounding of the final float divisions / means (compared with tolerance 1e-6 real-vs-real, 2e-5 against the exact model; "
            "normalized entropy 1e-4)",
            "torch.sort / torch.topk tie order: retrieval inputs are tie-free per query; AUROC / PR-curve results are proved "
            "independent of the tie order (C05)",
            "`sort(dim=-1)`, `cumsum(-1)`, `diff`, `flip`, `F.pad`, `trapz` are row-wise by torch's definition and modelled as maps over rows; "
            "the flat boolean-mask selection, `masked_scatter_`, `split(sizes)`, `sum(-1)`, `sum(dim=0)` are modelled on flat data"]
ASSUMPTIONS = ["inputs are valid for the single-slice call (finite scores, 0/1 labels, probabilities in [0,1] unless from_logits)",
               "a slice on which the single-slice call itself raises is not compared (counted as `single-raises`)",
               "multiclass accuracy with average=None: a class without samples is NaN in the multi call and is not compared with the "
               "binary recall's 0 convention"]

TOL = 1e-6
G8 = [Fr(i, 8) for i in range(0, 9)]
# binned metrics also see logits: scores below the first and above the last threshold (bucket −1 of one task must not
# spill into a neighbouring task's bins when tasks are laid out side by side in one histogram)
GBIN = [Fr(-1, 2), Fr(-1, 8)] + G8 + [Fr(9, 8)]
G16 = [Fr(i, 16) for i in range(1, 16)]
W5 = [Fr(0), Fr(1, 2), Fr(1), Fr(2), Fr(3)]
PROB = [Fr(1, 8), Fr(1, 4), Fr(1, 2), Fr(3, 4), Fr(7, 8)]
LOGIT = [Fr(-1), Fr(0), Fr(1, 2), Fr(2)]
THR5 = [0.0, 0.25, 0.5, 0.75, 1.0]
THR3 = [0.0, 0.5, 1.0]

# ------------------------------------------------------------------ tensors <-> json

def tj(t: torch.Tensor):
    return {"s": list(t.shape), "t": str(t.dtype).replace("torch.", ""), "d": t.reshape(-1).tolist()}


def jt(j) -> torch.Tensor:
    return torch.tensor(j["d"], dtype=getattr(torch, j["t"])).reshape(j["s"])


def is_t(v):
    return isinstance(v, dict) and set(v) == {"s", "t", "d"}


def dec(v):
    return jt(v) if is_t(v) else v


def outs_json(o):
    if o[0] == "ok":
        return [t.tolist() for t in o[1]]
    return {"raised": o[1], "msg": o[2] if len(o) > 2 else ""}

# ------------------------------------------------------------------ heterogeneous slices

PROFILES = [            # (scores, labels, weights)
    ("const", "mixed", "ones"), ("distinct", "pos", "ones"), ("grid", "mixed", "mixed"), ("two", "neg", "ones"),
    ("distinct", "mixed", "zero"), ("two", "mixed", "somezero"), ("grid", "pos", "mixed"), ("const", "neg", "mixed"),
    ("distinct", "mixed", "ones"),
]
DEGENERATE = {"const", "pos", "neg", "zero"}


def scores(rng: Rng, n, kind, grid=G8):
    if kind == "const":
        return [rng.choice(grid)] * n
    if kind == "two":
        a, b = rng.sample(grid, 2)
        return [rng.choice([a, b]) for _ in range(n)]
    if kind == "distinct" and n <= len(grid):
        return rng.sample(grid, n)
    return [rng.choice(grid) for _ in range(n)]


def labels(rng: Rng, n, kind):
    if kind == "pos":
        return [1] * n
    if kind == "neg":
        return [0] * n
    l = [rng.choice([0, 1]) for _ in range(n)]
    if n >= 2 and len(set(l)) == 1:
        l[rng.randrange(n)] = 1 - l[0]
    return l


def weights(rng: Rng, n, kind):
    if kind == "ones":
        return [Fr(1)] * n
    if kind == "zero":
        return [Fr(0)] * n
    w = [rng.choice(W5[1:]) for _ in range(n)]
    if kind == "somezero" and n >= 2:
        w[rng.randrange(n)] = Fr(0)
    return w


def pick_profiles(rng: Rng, k):
    """k pairwise different profiles, at least one with a degenerate component."""
    while True:
        ps = rng.sample(PROFILES, k) if k <= len(PROFILES) else [rng.choice(PROFILES) for _ in range(k)]
        if any(set(p) & DEGENERATE for p in ps):
            return ps


def rows_tensor(rows, dtype):
    if dtype == "i64":
        return torch.tensor([[int(v) for v in r] for r in rows], dtype=torch.int64)
    return torch.tensor([[float(v) for v in r] for r in rows], dtype=torch.float64 if dtype == "f64" else torch.float32)

# ------------------------------------------------------------------ comparison

class Res:
    def __init__(self):
        self.ok = True
        self.relation = None
        self.what = ""
        self.real = None          # outcome of the real multi call (for the correspondence)
        self.lines = []           # [(driver line, real outcome, tol)]
        self.progs = []           # [Prog] (class correspondence)
        self.notes = []
        self.site = ""
        self.cfg = ""
        self.sig = None           # full signature override (known-finding families)

    def fail(self, relation, what):
        if self.ok:
            self.ok, self.relation, self.what = False, relation, what


def close(a: torch.Tensor, b: torch.Tensor, tol=TOL):
    return tensors_close(a.reshape(-1), b.reshape(-1), tol, shape=False) and a.numel() == b.numel()


def flat(o):
    return o[1] if o[0] == "ok" else None


def expect(res: Res, real, expected: list, relation, label, tol=TOL):
    """real outcome vs list of expected tensors."""
    if real[0] != "ok":
        res.fail(relation, f"{label}: multi call raised {real[1]} ({real[2][:80]}) while every slice call returned")
        return
    got = real[1]
    if len(got) != len(expected):
        res.fail(relation, f"{label}: multi call returned {len(got)} tensors, slices give {len(expected)}")
        return
    for j, (g, e) in enumerate(zip(got, expected)):
        if not close(g, e, tol):
            res.fail(relation, f"{label}: output {j}: multi {g.reshape(-1).tolist()} vs slices {e.reshape(-1).tolist()}")
            return


def stack(ts):
    return torch.stack([t.reshape(()) if t.numel() == 1 else t for t in ts])


def singles_ok(res: Res, singles, real):
    """True when every single call returned.  A raising slice makes the case incomparable unless the multi call raised too."""
    bad = [s for s in singles if s[0] != "ok"]
    if not bad:
        return True
    res.notes.append("single-raises")
    return False


def assemble(singles, per_slice: int, stacked: bool):
    """expected flat outputs of the multi call from the flat outputs of the slice calls: the first `per_slice` outputs are
    per slice (stacked into one tensor each, or listed slice after slice), the remaining ones are shared."""
    outs = [s[1] for s in singles]
    exp = []
    for j in range(per_slice):
        if stacked:
            exp.append(stack([o[j] for o in outs]))
        else:
            exp.extend(o[j] for o in outs)
    exp.extend(outs[0][per_slice:])
    return exp

# ================================================================== family: rows (functionals with num_tasks)

def call_rowfn(fn, t: dict, p: dict, T):
    nt = {} if T is None else {"num_tasks": T}
    if fn == "binary_auroc":
        return call_real(F.binary_auroc, t["input"], t["target"], weight=t.get("weight"), **nt)
    if fn == "binary_auprc":
        return call_real(F.binary_auprc, t["input"], t["target"], **nt)
    if fn in ("binary_binned_auroc", "binary_binned_auprc"):
        return call_real(getattr(F, fn), t["input"], t["target"], threshold=p["threshold"], **nt)
    if fn == "binary_normalized_entropy":
        return call_real(F.binary_normalized_entropy, t["input"], t["target"], weight=t.get("weight"),
                         from_logits=p.get("from_logits", False), **nt)
    if fn == "click_through_rate":
        w = t["weights"] if "weights" in t else p.get("weights", 1.0)
        return call_real(F.click_through_rate, t["input"], w, **nt)
    if fn == "weighted_calibration":
        w = t["weight"] if "weight" in t else p.get("weight", 1.0)
        return call_real(F.weighted_calibration, t["input"], t["target"], w, **nt)
    if fn in ("retrieval_precision", "retrieval_recall"):
        return call_real(getattr(F, fn), t["input"], t["target"], k=p.get("k"), limit_k_to_size=p.get("limit_k_to_size", False), **nt)
    if fn == "auc":
        return call_real(F.auc, t["x"], t["y"], reorder=p.get("reorder", True))
    raise KeyError(fn)


ROW_MODEL = {"binary_auroc": "multi.binary_auroc", "binary_auprc": "binary_auprc", "binary_binned_auroc": "binary_binned_auroc",
             "binary_binned_auprc": "binary_binned_auprc", "binary_normalized_entropy": "binary_normalized_entropy",
             "click_through_rate": "multi.click_through_rate", "weighted_calibration": "multi.weighted_calibration",
             "retrieval_precision": "retrieval_precision", "retrieval_recall": "retrieval_recall", "auc": "auc"}
ROW_PER_SLICE = {"binary_binned_auroc": 1, "binary_binned_auprc": 1}       # (values, thresholds): thresholds shared


def row_model_line(fn, t, p, T):
    kw = dict(t)
    for k, v in p.items():
        kw[k] = torch.tensor(v, dtype=torch.float32) if k == "threshold" else v
    if fn != "auc":
        kw["num_tasks"] = T
    return f"fn {ROW_MODEL[fn]} " + enc_args(kw)


def ev_rows(pl) -> Res:
    res = Res()
    fn, p = pl["fn"], pl["p"]
    t = {k: jt(v) for k, v in pl["t"].items()}
    T = next(iter(t.values())).shape[0]
    res.site = fn
    res.cfg = ",".join(sorted([k for k in t if k in ("weight", "weights")] + [f"{k}={v}" for k, v in p.items() if k != "threshold"])) or "plain"
    real = call_rowfn(fn, t, p, T)
    res.real = real
    singles = [call_rowfn(fn, {k: v[i] for k, v in t.items()}, p, None) for i in range(T)]
    if singles_ok(res, singles, real):
        per = ROW_PER_SLICE.get(fn)
        exp = assemble(singles, per if per else len(singles[0][1]), True)
        expect(res, real, exp, "slice-differs-from-single", f"{fn}(num_tasks={T})",
               tol=1e-5 if fn == "binary_normalized_entropy" else TOL)     # float32 log sums: reduction order may differ
    # independence: replace row j, the other rows' results must not move
    if res.ok and real[0] == "ok" and "alt" in pl:
        j = pl["altj"]
        t2 = {k: v.clone() for k, v in t.items()}
        for k, v in pl["alt"].items():
            t2[k][j] = jt(v)
        real2 = call_rowfn(fn, t2, p, T)
        if real2[0] == "ok":
            keep = [i for i in range(T) if i != j]
            a, b = real[1][0], real2[1][0]
            if a.shape[:1] == (T,) and b.shape == a.shape and not close(a[keep], b[keep]):
                res.fail("slice-depends-on-other-slice", f"{fn}: replacing row {j} changed rows {keep}: {a.tolist()} -> {b.tolist()}")
    tol = 1e-4 if fn == "binary_normalized_entropy" else None
    res.lines.append((row_model_line(fn, t, p, T), real, tol))
    return res


def gen_rows(rng: Rng, tier):
    fns = ["binary_auroc", "binary_auroc", "binary_auprc", "binary_binned_auroc", "binary_binned_auprc", "binary_normalized_entropy",
           "click_through_rate", "weighted_calibration", "retrieval_precision", "retrieval_recall", "auc"]
    while True:
        fn = rng.choice(fns)
        T = rng.choice([2, 3, 3, 4] if tier == "quick" else [2, 3, 4, 5])
        n = rng.choice([1, 2, 3, 4, 6, 9])
        profs = pick_profiles(rng, T + 1)
        p, cols = {}, {}

        def build(make):
            """make(profile) -> dict argname -> row ; returns dict argname -> list of rows and the alternative row"""
            rows = [make(pr) for pr in profs]
            return {k: [r[k] for r in rows[:T]] for k in rows[0]}, rows[T]
        dt = {}
        if fn in ("binary_auroc", "binary_auprc", "binary_binned_auroc", "binary_binned_auprc"):
            weighted = fn == "binary_auroc" and rng.random() < 0.6

            bgrid = GBIN if (fn.startswith("binary_binned") and rng.random() < 0.5) else G8

            def make(pr):
                r = {"input": scores(rng, n, pr[0], bgrid), "target": labels(rng, n, pr[1])}
                if weighted:
                    r["weight"] = weights(rng, n, pr[2])
                return r
            dt = {"input": "f32", "target": "i64", "weight": "f32"}
            if fn.startswith("binary_binned"):
                p["threshold"] = rng.choice([THR5, THR3, [0.0, 0.25, 0.25, 1.0]])
        elif fn == "binary_normalized_entropy":
            fl = rng.random() < 0.3
            weighted = rng.random() < 0.5
            p["from_logits"] = fl

            def make(pr):
                r = {"input": scores(rng, n, pr[0], LOGIT if fl else PROB), "target": labels(rng, n, pr[1])}
                if weighted:
                    r["weight"] = weights(rng, n, pr[2])
                return r
            dt = {"input": "f32", "target": "f32", "weight": "f32"}
        elif fn == "click_through_rate":
            mode = rng.choice(["tensor", "tensor", "scalar", "none"])
            if mode == "scalar":
                p["weights"] = float(rng.choice(W5[1:]))

            def make(pr):
                r = {"input": labels(rng, n, pr[1])}
                if mode == "tensor":
                    r["weights"] = weights(rng, n, pr[2])
                return r
            dt = {"input": "i64", "weights": "f32"}
        elif fn == "weighted_calibration":
            mode = rng.choice(["tensor", "tensor", "scalar"])
            if mode == "scalar":
                p["weight"] = float(rng.choice(W5[1:]))

            def make(pr):
                r = {"input": scores(rng, n, pr[0], PROB), "target": labels(rng, n, pr[1])}
                if mode == "tensor":
                    r["weight"] = weights(rng, n, pr[2])
                return r
            dt = {"input": "f32", "target": "f32", "weight": "f32"}
        elif fn in ("retrieval_precision", "retrieval_recall"):
            n = rng.choice([1, 2, 3, 5, 8])
            p["k"] = rng.choice([None, 1, 2, 3, 10])
            p["limit_k_to_size"] = bool(p["k"] is not None and rng.random() < 0.4)

            def make(pr):
                return {"input": rng.sample(G16, n), "target": labels(rng, n, pr[1])}      # tie-free per row (topk)
            dt = {"input": "f32", "target": "i64"}
        else:   # auc
            n = rng.choice([2, 3, 4, 6])
            p["reorder"] = rng.random() < 0.7

            def make(pr):
                return {"x": rng.sample(G16, n), "y": scores(rng, n, pr[0])}               # tie-free x per row
            dt = {"x": "f32", "y": "f32"}
        cols, alt = build(make)
        pl = {"fam": "rows", "fn": fn, "p": p, "t": {k: tj(rows_tensor(v, dt[k])) for k, v in cols.items()},
              "alt": {k: tj(rows_tensor([v], dt[k])[0]) for k, v in alt.items()}, "altj": rng.randrange(T),
              "profiles": ["/".join(pr) for pr in profs[:T]]}
        yield pl

# ================================================================== family: cols (multiclass / multilabel functionals)

COLS = {   # fn: (kind, single fn, per-slice outputs, stacked?, model request)
    "multiclass_auroc": ("mc", "binary_auroc", 1, True, "multi.multiclass_auroc"),
    "multiclass_auprc": ("mc", "binary_auprc", 1, True, "multiclass_auprc"),
    "multiclass_precision_recall_curve": ("mc", "binary_precision_recall_curve", 3, False, "multi.multiclass_precision_recall_curve"),
    "multilabel_auprc": ("ml", "binary_auprc", 1, True, "multilabel_auprc"),
    "multilabel_precision_recall_curve": ("ml", "binary_precision_recall_curve", 3, False, "multilabel_precision_recall_curve"),
    "multilabel_recall_at_fixed_precision": ("ml", "binary_recall_at_fixed_precision", 2, False, "multilabel_recall_at_fixed_precision"),
    "multiclass_binned_auroc": ("mc", "binary_binned_auroc", 1, True, "multiclass_binned_auroc"),
    "multiclass_binned_auprc": ("mc", "binary_binned_auprc", 1, True, "multiclass_binned_auprc"),
    "multilabel_binned_auprc": ("ml", "binary_binned_auprc", 1, True, "multilabel_binned_auprc"),
    "multiclass_binned_precision_recall_curve": ("mc", "binary_binned_precision_recall_curve", 2, False, "multiclass_binned_precision_recall_curve"),
    "multilabel_binned_precision_recall_curve": ("ml", "binary_binned_precision_recall_curve", 2, False, "multilabel_binned_precision_recall_curve"),
}
KNOWN_PER_SAMPLE = "C16|multiclass_binned_auroc|per-sample-output"


def slice_col(kind, x, y, c):
    return (x[:, c], (y == c).long()) if kind == "mc" else (x[:, c], y[:, c])


def call_colfn(fn, x, y, p, C):
    kind = COLS[fn][0]
    kw = {k: v for k, v in p.items()}
    kw["num_classes" if kind == "mc" else "num_labels"] = C
    return call_real(getattr(F, fn), x, y, **kw)


def call_colsingle(fn, xs, ys, p):
    sf = COLS[fn][1]
    kw = {k: v for k, v in p.items() if k in ("threshold", "min_precision")}
    return call_real(getattr(F, sf), xs, ys, **kw)


def ev_cols(pl) -> Res:
    res = Res()
    fn, p = pl["fn"], dict(pl["p"])
    kind, _sf, per, stacked, model = COLS[fn]
    x, y = jt(pl["t"]["input"]), jt(pl["t"]["target"])
    C = x.shape[1]
    avg = p.get("average", "n/a")
    res.site = fn
    res.cfg = ",".join(f"{k}={v}" for k, v in sorted(p.items()) if k != "threshold") or "plain"
    real = call_colfn(fn, x, y, p, C)
    res.real = real
    singles = [call_colsingle(fn, *slice_col(kind, x, y, c), p) for c in range(C)]
    label = f"{fn}({res.cfg})"
    if singles_ok(res, singles, real):
        if avg == "macro":
            vals = stack([s[1][0] for s in singles])
            exp = [vals.mean()] + singles[0][1][per:]
            expect(res, real, exp, "average-differs-from-stated", label)
        else:
            expect(res, real, assemble(singles, per, stacked), "slice-differs-from-single", label)
    if res.ok and real[0] == "ok" and avg in (None, "none") and stacked and "alt" in pl:
        j = pl["altj"]
        x2 = x.clone()
        x2[:, j] = jt(pl["alt"]["input"])
        y2 = y
        if kind == "ml":
            y2 = y.clone()
            y2[:, j] = jt(pl["alt"]["target"])
        real2 = call_colfn(fn, x2, y2, p, C)
        if real2[0] == "ok":
            keep = [i for i in range(C) if i != j]
            a, b = real[1][0], real2[1][0]
            if a.shape[:1] == (C,) and b.shape == a.shape and not close(a[keep], b[keep]):
                res.fail("slice-depends-on-other-slice", f"{label}: replacing the scores of class/label {j} changed {keep}: {a.tolist()} -> {b.tolist()}")
    if fn == "multiclass_binned_auroc" and not res.ok:
        res.sig = KNOWN_PER_SAMPLE            # reduces over classes instead of samples: every relation fails for the same reason
    kw = {"input": x, "target": y, ("num_classes" if kind == "mc" else "num_labels"): C}
    for k, v in p.items():
        kw[k] = torch.tensor(v, dtype=torch.float32) if k == "threshold" else v
    if "average" in kw and kw["average"] is None:
        kw["average"] = "none"
    res.lines.append((f"fn {model} " + enc_args(kw), real, None))
    return res


def gen_cols(rng: Rng, tier):
    fns = list(COLS)
    while True:
        fn = rng.choice(fns)
        kind = COLS[fn][0]
        C = rng.choice([2, 3, 3, 4] if tier == "quick" else [2, 3, 4, 5])
        n = rng.choice([1, 2, 3, 4, 6, 9])
        profs = pick_profiles(rng, C + 1)
        colsx = [scores(rng, n, pr[0]) for pr in profs]
        x = rows_tensor([[colsx[c][i] for c in range(C)] for i in range(n)], "f32")
        if kind == "mc":
            present = rng.sample(range(C), rng.randint(1, C))        # absent classes: all-negative slices
            y = torch.tensor([rng.choice(present) for _ in range(n)], dtype=torch.int64)
            alt = {"input": tj(rows_tensor([colsx[C]], "f32")[0])}
        else:
            colsy = [labels(rng, n, pr[1]) for pr in profs]
            y = rows_tensor([[colsy[c][i] for c in range(C)] for i in range(n)], "i64")
            alt = {"input": tj(rows_tensor([colsx[C]], "f32")[0]), "target": tj(rows_tensor([colsy[C]], "i64")[0])}
        p = {}
        if "binned" in fn:
            p["threshold"] = rng.choice([THR5, THR3])
            if fn.endswith("curve") or fn.endswith("auprc"):
                p["optimization"] = rng.choice(["vectorized", "memory"])
        if fn.endswith("auroc") or fn.endswith("auprc"):
            p["average"] = rng.choice([None, None, "macro"])
        if fn == "multilabel_recall_at_fixed_precision":
            p["min_precision"] = rng.choice([0.0, 0.25, 0.5, 1.0])
        yield {"fam": "cols", "fn": fn, "p": p, "t": {"input": tj(x), "target": tj(y)}, "alt": alt, "altj": rng.randrange(C),
               "profiles": ["/".join(pr) for pr in profs[:C]]}

# ================================================================== family: count (per-class precision / recall / F1 / accuracy)

COUNT = {"multiclass_precision": "binary_precision", "multiclass_recall": "binary_recall", "multiclass_f1_score": "binary_f1_score",
         "multiclass_accuracy": "binary_recall"}


def ev_count(pl) -> Res:
    res = Res()
    fn, avg = pl["fn"], pl["p"]["average"]
    x, y = jt(pl["t"]["input"]), jt(pl["t"]["target"])
    C = pl["p"]["num_classes"]
    res.site, res.cfg = fn, f"average={avg}"
    pred = x.argmax(dim=1) if x.ndim == 2 else x
    real = call_real(getattr(F, fn), x, y, num_classes=C, average=avg)
    res.real = real
    singles = [call_real(getattr(F, COUNT[fn]), (pred == c).long(), (y == c).long()) for c in range(C)]
    sup = torch.tensor([int((y == c).sum()) for c in range(C)], dtype=torch.float32)
    prd = torch.tensor([int((pred == c).sum()) for c in range(C)], dtype=torch.float32)
    if singles_ok(res, singles, real) and real[0] == "ok":
        per = stack([s[1][0] for s in singles]).to(torch.float32)
        present = (sup > 0) if fn == "multiclass_accuracy" else ((sup > 0) | (prd > 0))
        got = real[1][0]
        if avg is None:
            if fn == "multiclass_accuracy":
                ok = close(got[present], per[present]) and bool(torch.isnan(got[~present]).all())
            else:
                ok = close(got, per)
            if not ok:
                res.fail("slice-differs-from-single", f"{fn}(average=None): {got.tolist()} vs one-vs-rest binary {per.tolist()} (support {sup.tolist()})")
        elif avg == "macro":
            exp = per[present].mean() if bool(present.any()) else torch.tensor(float("nan"))
            if not close(got, exp):
                res.fail("average-differs-from-stated", f"{fn}(macro): {got.tolist()} vs mean of present per-class values {exp.tolist()}")
        elif avg == "weighted":
            w = sup[present] / sup.sum() if fn != "multiclass_precision" else sup[present] / sup.sum()
            exp = (per[present] * w).sum()
            if not close(got, exp):
                res.fail("average-differs-from-stated", f"{fn}(weighted): {got.tolist()} vs support-weighted mean {exp.tolist()}")
    elif real[0] != "ok":
        res.fail("slice-differs-from-single", f"{fn}: multi call raised {real[1]}")
    kw = {"input": x, "target": y, "num_classes": C, "average": "none" if avg is None else avg}
    res.lines.append((f"fn {fn} " + enc_args(kw), real, None))
    return res


def gen_count(rng: Rng, tier):
    while True:
        fn = rng.choice(list(COUNT))
        C = rng.choice([2, 3, 4])
        n = rng.choice([1, 2, 3, 5, 9])
        present = rng.sample(range(C), rng.randint(1, C))
        y = torch.tensor([rng.choice(present) for _ in range(n)], dtype=torch.int64)
        if rng.random() < 0.5:
            x = torch.tensor([rng.choice(rng.sample(range(C), rng.randint(1, C))) for _ in range(n)], dtype=torch.int64)
        else:
            x = rows_tensor([[rng.choice([Fr(0), Fr(1, 2), Fr(1)]) for _ in range(C)] for _ in range(n)], "f32")
        avg = rng.choice([None, None, "macro", "weighted"])
        if fn == "multiclass_accuracy" and avg == "weighted":
            avg = "macro"
        yield {"fam": "count", "fn": fn, "p": {"average": avg, "num_classes": C}, "t": {"input": tj(x), "target": tj(y)}}


def ev_mlacc(pl) -> Res:
    """multilabel_accuracy(criteria='hamming') = mean over labels of the binary accuracy of that label column."""
    res = Res()
    x, y, thr = jt(pl["t"]["input"]), jt(pl["t"]["target"]), pl["p"]["threshold"]
    res.site, res.cfg = "multilabel_accuracy", "criteria=hamming"
    real = call_real(F.multilabel_accuracy, x, y, threshold=thr, criteria="hamming")
    res.real = real
    singles = [call_real(F.binary_accuracy, x[:, l], y[:, l], threshold=thr) for l in range(x.shape[1])]
    if singles_ok(res, singles, real):
        expect(res, real, [stack([s[1][0] for s in singles]).mean()], "average-differs-from-stated", "multilabel_accuracy(hamming)")
    res.lines.append(("fn multilabel_accuracy " + enc_args({"input": x, "target": y, "threshold": thr, "criteria": "hamming"}), real, None))
    return res


def gen_mlacc(rng: Rng, tier):
    while True:
        L, n = rng.choice([2, 3, 4]), rng.choice([1, 2, 3, 5])
        profs = pick_profiles(rng, L)
        cx = [scores(rng, n, pr[0]) for pr in profs]
        cy = [labels(rng, n, pr[1]) for pr in profs]
        yield {"fam": "mlacc", "p": {"threshold": rng.choice([0.25, 0.5, 0.75])},
               "t": {"input": tj(rows_tensor([[cx[l][i] for l in range(L)] for i in range(n)], "f32")),
                     "target": tj(rows_tensor([[cy[l][i] for l in range(L)] for i in range(n)], "i64"))}}

# ================================================================== family: outs (multi-output regression)

def ev_outs(pl) -> Res:
    res = Res()
    fn, p = pl["fn"], pl["p"]
    x, y = jt(pl["t"]["input"]), jt(pl["t"]["target"])
    w = jt(pl["t"]["sample_weight"]) if "sample_weight" in pl["t"] else None
    d = x.shape[1]
    mo = p["multioutput"]
    res.site, res.cfg = fn, f"multioutput={mo}" + (",weighted" if w is not None else "") + (f",num_regressors={p['num_regressors']}" if p.get("num_regressors") else "")

    def call(xx, yy, mo_):
        if fn == "mean_squared_error":
            return call_real(F.mean_squared_error, xx, yy, sample_weight=w, multioutput=mo_)
        return call_real(F.r2_score, xx, yy, multioutput=mo_, num_regressors=p.get("num_regressors", 0))
    real = call(x, y, mo)
    res.real = real
    singles = [call(x[:, j], y[:, j], "raw_values") for j in range(d)]
    label = f"{fn}({res.cfg})"
    if singles_ok(res, singles, real):
        per = stack([s[1][0] for s in singles])
        if mo == "raw_values":
            expect(res, real, [per], "slice-differs-from-single", label)
        elif mo == "uniform_average":
            expect(res, real, [per.mean()], "average-differs-from-stated", label, tol=1e-5)
        else:
            yd = y.to(torch.float64)
            tss = (yd * yd).sum(0) - yd.sum(0) ** 2 / y.shape[0]
            exp = (per.to(torch.float64) * tss / tss.sum()).sum()
            expect(res, real, [exp], "average-differs-from-stated", label, tol=1e-4)
    elif real[0] == "ok":
        res.notes.append("single-raises")
    if res.ok and real[0] == "ok" and mo == "raw_values" and "alt" in pl:
        j = pl["altj"]
        x2, y2 = x.clone(), y.clone()
        x2[:, j], y2[:, j] = jt(pl["alt"]["input"]), jt(pl["alt"]["target"])
        real2 = call(x2, y2, mo)
        if real2[0] == "ok":
            keep = [i for i in range(d) if i != j]
            if not close(real[1][0][keep], real2[1][0][keep]):
                res.fail("slice-depends-on-other-slice", f"{label}: replacing output column {j} changed {keep}")
    kw = {"input": x, "target": y, "multioutput": mo}
    if w is not None:
        kw["sample_weight"] = w
    if fn == "r2_score":
        kw["num_regressors"] = p.get("num_regressors", 0)
    res.lines.append((f"fn multi.{fn} " + enc_args(kw), real, 1e-4 if fn == "r2_score" else None))
    return res


def gen_outs(rng: Rng, tier):
    g = [Fr(i, 4) for i in range(-4, 9)]
    while True:
        fn = rng.choice(["mean_squared_error", "r2_score"])
        d = rng.choice([2, 3, 4])
        n = rng.choice([2, 3, 4, 6]) if fn == "mean_squared_error" else rng.choice([3, 4, 6, 8])
        kinds = rng.sample(["perfect", "const-target", "ordinary", "ordinary", "const-both"], d + 1) if d + 1 <= 5 else None
        kinds = kinds or [rng.choice(["perfect", "const-target", "ordinary"]) for _ in range(d + 1)]
        cols = []
        for kd in kinds:
            t = [rng.choice(g)] * n if kd in ("const-target", "const-both") else [rng.choice(g) for _ in range(n)]
            x = list(t) if kd == "perfect" else ([rng.choice(g)] * n if kd == "const-both" else [rng.choice(g) for _ in range(n)])
            cols.append((x, t))
        x = rows_tensor([[cols[j][0][i] for j in range(d)] for i in range(n)], "f32")
        y = rows_tensor([[cols[j][1][i] for j in range(d)] for i in range(n)], "f32")
        p = {}
        t = {"input": tj(x), "target": tj(y)}
        if fn == "mean_squared_error":
            p["multioutput"] = rng.choice(["raw_values", "raw_values", "uniform_average"])
            if rng.random() < 0.5:
                t["sample_weight"] = tj(rows_tensor([weights(rng, n, rng.choice(["mixed", "somezero", "ones"]))], "f32")[0])
        else:
            p["multioutput"] = rng.choice(["raw_values", "raw_values", "uniform_average", "variance_weighted"])
            p["num_regressors"] = rng.choice([0, 0, 1]) if n >= 4 else 0
        yield {"fam": "outs", "fn": fn, "p": p, "t": t, "altj": rng.randrange(d), "kinds": kinds[:d],
               "alt": {"input": tj(rows_tensor([cols[d][0]], "f32")[0]), "target": tj(rows_tensor([cols[d][1]], "f32")[0])}}

# ================================================================== family: persample (hit rate / reciprocal rank: one result per row)

def ev_persample(pl) -> Res:
    res = Res()
    fn, k = pl["fn"], pl["p"]["k"]
    x, y = jt(pl["t"]["input"]), jt(pl["t"]["target"])
    res.site, res.cfg = fn, f"k={k}"
    f = getattr(F, fn)
    real = call_real(f, x, y, k=k)
    res.real = real
    singles = [call_real(f, x[i:i + 1], y[i:i + 1], k=k) for i in range(x.shape[0])]
    if singles_ok(res, singles, real):
        expect(res, real, [torch.cat([s[1][0].reshape(-1) for s in singles])], "slice-differs-from-single", f"{fn}(k={k})")
    res.lines.append((f"fn {fn} " + enc_args({"input": x, "target": y, "k": k}), real, None))
    return res


def gen_persample(rng: Rng, tier):
    while True:
        n, C = rng.choice([2, 3, 4, 6]), rng.choice([2, 3, 4])
        profs = pick_profiles(rng, n)
        x = rows_tensor([scores(rng, C, pr[0]) for pr in profs], "f32")
        y = torch.tensor([rng.randrange(C) for _ in range(n)], dtype=torch.int64)
        yield {"fam": "persample", "fn": rng.choice(["hit_rate", "reciprocal_rank"]), "p": {"k": rng.choice([None, 1, 2, 9])},
               "t": {"input": tj(x), "target": tj(y)}}

# ================================================================== family: topk (per-class top-k accuracy; slices = the samples of one class)

def ev_topk(pl) -> Res:
    """multiclass_accuracy / MulticlassAccuracy with average=None: entry c = the micro top-k accuracy of the samples labelled c
    alone (NaN for a class without samples); macro = the mean over the classes that have samples."""
    res = Res()
    C, k, avg_given, as_class = pl["C"], pl["p"]["k"], pl["p"]["average"], pl.get("cls", False)
    avg = None if avg_given == "none" else avg_given        # "none" is the accepted string spelling of None: same per-class result
    batches = [{kk: jt(v) for kk, v in b.items()} for b in pl["batches"]]
    res.site = "MulticlassAccuracy" if as_class else "multiclass_accuracy"
    res.cfg = f"average={avg_given},k={k}"

    def multi(bs):
        if as_class:
            m = M.MulticlassAccuracy(num_classes=C, average=avg_given, k=k)
            for b in bs:
                m.update(b["input"], b["target"])
            return obs(m)
        return call_real(F.multiclass_accuracy, bs[0]["input"], bs[0]["target"], num_classes=C, average=avg_given, k=k)

    def single(c):
        if as_class:
            m, fed_any = M.MulticlassAccuracy(num_classes=C, average="micro", k=k), False
            for b in batches:
                sel = b["target"] == c
                if bool(sel.any()):
                    m.update(b["input"][sel], b["target"][sel]); fed_any = True
            return obs(m) if fed_any else ("ok", [torch.tensor(float("nan"))])
        x, y = batches[0]["input"], batches[0]["target"]
        sel = y == c
        if not bool(sel.any()):
            return ("ok", [torch.tensor(float("nan"))])
        return call_real(F.multiclass_accuracy, x[sel], y[sel], num_classes=C, average="micro", k=k)
    real = multi(batches)
    res.real = real
    singles = [single(c) for c in range(C)]
    label = f"{res.site}({res.cfg})"
    if singles_ok(res, singles, real):
        per = stack([s_[1][0] for s_ in singles]).to(torch.float32)
        if avg is None:
            expect(res, real, [per], "slice-differs-from-single", label)
        else:
            have = ~torch.isnan(per)
            expect(res, real, [per[have].mean() if bool(have.any()) else torch.tensor(float("nan"))], "average-differs-from-stated", label)
    if res.ok and real[0] == "ok" and avg is None and "alt" in pl:
        j = pl["altj"]
        b2 = []
        for b, a in zip(batches, pl["alt"]):
            x2 = b["input"].clone()
            sel = b["target"] == j
            x2[sel] = jt(a)[sel]
            b2.append({"input": x2, "target": b["target"]})
        real2 = multi(b2)
        if real2[0] == "ok":
            keep = [i for i in range(C) if i != j]
            if not close(real[1][0][keep], real2[1][0][keep]):
                res.fail("slice-depends-on-other-slice", f"{label}: replacing the scores of the samples of class {j} changed classes {keep}")
    if as_class:
        res.progs.append(("cls", "MulticlassAccuracy", {"num_classes": C, "average": avg, "k": k},
                          [([b["input"], b["target"]], {}) for b in batches], 2e-5))
    else:
        res.lines.append(("fn multiclass_accuracy " + enc_args({"input": batches[0]["input"], "target": batches[0]["target"], "num_classes": C,
                                                                "average": "none" if avg is None else avg, "k": k}), real, None))
    return res


def gen_topk(rng: Rng, tier):
    while True:
        C = rng.choice([2, 3, 4])
        k = rng.choice([1, 2, 2, 3])
        if k > C:
            k = C
        as_class = rng.random() < 0.5
        present = rng.sample(range(C), rng.randint(1, C))
        batches, alts = [], []
        for _b in range(rng.randint(1, 3) if as_class else 1):
            n = rng.choice([1, 2, 3, 5, 8])
            profs = [rng.choice(PROFILES) for _ in range(n)]
            batches.append({"input": tj(rows_tensor([scores(rng, C, pr[0], [Fr(0), Fr(1, 2), Fr(1)] if rng.random() < 0.5 else G8) for pr in profs], "f32")),
                            "target": tj(torch.tensor([rng.choice(present) for _ in range(n)], dtype=torch.int64))})
            alts.append(tj(rows_tensor([scores(rng, C, "grid") for _ in range(n)], "f32")))
        yield {"fam": "topk", "cls": as_class, "C": C, "p": {"k": k, "average": rng.choice([None, None, "none", "macro"])}, "batches": batches,
               "alt": alts, "altj": rng.randrange(C)}

# ================================================================== class families

def mk(cls, cfg):
    return getattr(M, cls)(**cfg)


def feed(m, calls):
    for c in calls:
        m.update(*c[0], **c[1])
    return m


def obs(m):
    return observe(m)


def cmp_class(res: Res, multi_obs, single_obs, T, shared_from, relation, label, tol=TOL, fallback=None):
    """compute() of the multi instance vs compute() of the T single-slice instances.
    `fallback(i)`: the functional's value on slice i, used as the expected entry when the single-slice instance of a
    degenerate slice reports nothing (an empty tensor) — the multi instance shows the undefined ratio (inf / nan) there."""
    bad = [s for s in single_obs if s[0] != "ok"]
    if bad:
        if multi_obs[0] == "ok":
            res.notes.append("single-raises")
        return
    if multi_obs[0] != "ok":
        res.fail(relation, f"{label}: multi compute() raised {multi_obs[1]} ({multi_obs[2][:80]}) while every single-slice instance returned")
        return
    got = multi_obs[1]
    k = len(single_obs[0][1])
    if len(got) != k:
        res.fail(relation, f"{label}: multi compute() returned {len(got)} tensors, single-slice instances {k}")
        return
    for j in range(k):
        if j >= shared_from:
            if not close(got[j], single_obs[0][1][j], tol):
                res.fail(relation, f"{label}: shared output {j} differs")
                return
            continue
        g = got[j]
        sj = [s[1][j].reshape(-1) for s in single_obs]
        if any(v.numel() == 0 for v in sj):
            # a degenerate slice makes the single-slice instance return an empty tensor ("no update yet")
            if all(v.numel() == 0 for v in sj):
                if g.numel() != 0:
                    res.fail(relation, f"{label}: every single-task instance reports nothing but compute() returns {g.reshape(-1).tolist()}")
                    return
                res.notes.append("all-slices-degenerate")
                continue
            if g.numel() == 0:
                alive = [i for i, v in enumerate(sj) if v.numel()]
                res.fail("degenerate-task-empties-all-tasks", f"{label}: compute() returns an empty tensor although the single-task instances of tasks "
                         f"{alive} return {[sj[i].tolist() for i in alive]} (tasks {[i for i, v in enumerate(sj) if not v.numel()]} are degenerate)")
                res.cfg = "one-degenerate-task"
                return
            if fallback is None:
                res.notes.append("single-empty")
                continue
            res.notes.append("degenerate-slice-compared-with-functional")
            sj = [v if v.numel() else fallback(i) for i, v in enumerate(sj)]
        if all(v.numel() == 1 for v in sj):
            e = torch.cat(sj)
            if g.numel() != e.numel() or not close(g, e, tol):
                res.fail(relation, f"{label}: output {j}: multi {g.reshape(-1).tolist()} vs single-slice instances {e.tolist()}")
                return
        else:
            res.fail(relation, f"{label}: output {j}: single-slice instance returned {[v.numel() for v in sj]} values")
            return


ROWCLS = {   # class: (tasks kw, positional arg names, kw-only arg names, shared_from)
    "BinaryAUROC": ("num_tasks", ["input", "target", "weight"], [], 9),
    "BinaryAUPRC": ("num_tasks", ["input", "target"], [], 9),
    "BinaryBinnedAUROC": ("num_tasks", ["input", "target"], [], 1),
    "BinaryBinnedAUPRC": ("num_tasks", ["input", "target"], [], 9),
    "BinaryNormalizedEntropy": ("num_tasks", ["input", "target"], ["weight"], 9),
    "ClickThroughRate": ("num_tasks", ["input", "weights"], [], 9),
    "WeightedCalibration": ("num_tasks", ["input", "target", "weight"], [], 9),
    "AUC": ("n_tasks", ["x", "y"], [], 9),
    "WindowedClickThroughRate": ("num_tasks", ["input", "weights"], [], 9),
    "WindowedWeightedCalibration": ("num_tasks", ["input", "target", "weight"], [], 9),
    "WindowedBinaryNormalizedEntropy": ("num_tasks", ["input", "target"], ["weight"], 9),
    "WindowedBinaryAUROC": ("num_tasks", ["input", "target", "weight"], [], 9),
}


def as_calls(batches, names, kwnames, row=None):
    calls = []
    for b in batches:
        def g(v):
            return v if row is None or not isinstance(v, torch.Tensor) else v[row]
        args = [g(b[k]) for k in names if k in b]
        kw = {k: g(b[k]) for k in kwnames if k in b}
        calls.append((args, kw))
    return calls


def classify_window_auroc(cfg, T, batches):
    """regime of a WindowedBinaryAUROC stream (for the signature of a failure)."""
    N = cfg["max_num_samples"]
    total = sum(b["input"].shape[1] for b in batches)
    if min(total, N) == 1:
        return "single-live-sample"
    allx = torch.cat([b["input"] for b in batches], dim=1)
    live = allx[:, -min(total, N):]
    if bool((live == 0).any()):
        return "zero-scores-in-window"
    return "plain"


def degenerate_fallback(cls, cfg, batches):
    """WeightedCalibration / BinaryNormalizedEntropy: the functional on the whole stream of one task's row."""
    if cls not in ("WeightedCalibration", "BinaryNormalizedEntropy"):
        return None

    def fb(i):
        def cat(k):
            return torch.cat([b[k][i] for b in batches])
        if cls == "WeightedCalibration":
            w = batches[0].get("weight", 1.0)
            r = F.weighted_calibration(cat("input"), cat("target"), cat("weight") if isinstance(w, torch.Tensor) else w)
        else:
            r = F.binary_normalized_entropy(cat("input"), cat("target"), weight=cat("weight") if "weight" in batches[0] else None,
                                            from_logits=cfg.get("from_logits", False))
        return r.reshape(-1).to(torch.float64)
    return fb


def window_auroc_sig(res: Res, cfg, T, batches):
    """the two defects of WindowedBinaryAUROC.compute() that couple the tasks get one signature each."""
    regime = classify_window_auroc(cfg, T, batches)
    if regime == "single-live-sample":
        res.sig = "C16|WindowedBinaryAUROC|num_tasks>1-single-live-sample|squeeze-mixes-tasks"
    elif regime == "zero-scores-in-window":
        res.sig = "C16|WindowedBinaryAUROC|num_tasks>1-zero-scores-beyond-cursor|unfilled-test-spans-all-tasks"
    else:
        res.cfg = regime


def ev_clsrows(pl) -> Res:
    res = Res()
    cls, cfg, T = pl["cls"], dict(pl["cfg"]), pl["T"]
    tk, names, kwnames, shared_from = ROWCLS[cls]
    batches = [{k: dec(v) for k, v in b.items()} for b in pl["batches"]]
    res.site = cls
    res.cfg = ",".join(f"{k}={v}" for k, v in sorted(cfg.items()) if k != "threshold") or "plain"
    tol = 1e-4 if "NormalizedEntropy" in cls else TOL
    mo = obs(feed(mk(cls, {**cfg, tk: T}), as_calls(batches, names, kwnames)))
    so = [obs(feed(mk(cls, cfg), as_calls(batches, names, kwnames, row=i))) for i in range(T)]
    res.real = mo
    label = f"{cls}({tk}={T},{res.cfg})"
    if mo[0] == "ok":
        for j, g in enumerate(mo[1][:shared_from]):
            if g.numel() not in (0, T):
                res.fail("output-is-not-per-task", f"{label}: compute() output {j} has {g.numel()} value(s) {g.reshape(-1).tolist()} for {T} tasks")
    cmp_class(res, mo, so, T, shared_from, "task-differs-from-single-task-instance", label, tol, degenerate_fallback(cls, cfg, batches))
    if cls == "WindowedBinaryAUROC" and not res.ok:
        window_auroc_sig(res, cfg, T, batches)
    if res.ok and mo[0] == "ok" and "alt" in pl:
        j = pl["altj"]
        b2 = []
        for b, a in zip(batches, pl["alt"]):
            nb = {}
            for k, v in b.items():
                if isinstance(v, torch.Tensor) and k in a:
                    v = v.clone()
                    v[j] = jt(a[k])
                nb[k] = v
            b2.append(nb)
        mo2 = obs(feed(mk(cls, {**cfg, tk: T}), as_calls(b2, names, kwnames)))
        if mo2[0] == "ok" and len(mo2[1]) == len(mo[1]):
            keep = [i for i in range(T) if i != j]
            for a_, b_ in list(zip(mo[1], mo2[1]))[:min(shared_from, len(mo[1]))]:
                if a_.shape[:1] == (T,) and b_.shape == a_.shape and not close(a_[keep], b_[keep], tol):
                    res.fail("task-depends-on-other-task", f"{label}: replacing the data of task {j} changed tasks {keep}: {a_.tolist()} -> {b_.tolist()}")
                    if cls == "WindowedBinaryAUROC":
                        window_auroc_sig(res, cfg, T, batches)
                    break
        elif mo2[0] != "ok" and cls == "WindowedBinaryAUROC":
            # the other tasks' results disappeared because of task j's data
            res.fail("task-depends-on-other-task", f"{label}: replacing the data of task {j} made compute() raise {mo2[1]}")
            window_auroc_sig(res, cfg, T, b2)
    res.progs.append(("cls", cls, {**cfg, tk: T}, as_calls(batches, names, kwnames), tol))
    if cls in ("WeightedCalibration", "BinaryNormalizedEntropy") and len(batches) == 1:
        # the guard `if torch.any(den == 0): return torch.empty(0)` as modelled by TE.Multi.{wc,bne}ClassCompute
        kw = dict(batches[0])
        kw["num_tasks"] = T
        if cfg.get("from_logits"):
            kw["from_logits"] = True
        name = "weighted_calibration" if cls == "WeightedCalibration" else "binary_normalized_entropy"
        res.lines.append((f"fn multi.class.{name} " + enc_args(kw), mo, tol if tol != TOL else None))
    return res


def gen_clsrows(rng: Rng, tier, windowed=False):
    plain = ["BinaryAUROC", "BinaryAUPRC", "BinaryBinnedAUROC", "BinaryBinnedAUPRC", "BinaryNormalizedEntropy", "ClickThroughRate",
             "WeightedCalibration", "AUC"]
    win = ["WindowedClickThroughRate", "WindowedWeightedCalibration", "WindowedBinaryNormalizedEntropy", "WindowedBinaryAUROC",
           "WindowedBinaryAUROC"]
    while True:
        cls = rng.choice(win if windowed else plain)
        T = rng.choice([2, 3] if tier == "quick" else [2, 3, 4])
        cfg = {}
        nb = rng.randint(1, 4)
        if cls.startswith("Windowed"):
            if cls == "WindowedBinaryAUROC":
                cfg["max_num_samples"] = rng.choice([1, 2, 3, 5])
                nb = rng.randint(1, 5)
            else:
                cfg["max_num_updates"] = rng.choice([1, 2, 3])
                cfg["enable_lifetime"] = rng.random() < 0.7
                nb = rng.randint(1, 2 * cfg["max_num_updates"] + 2)
        if "Binned" in cls:
            cfg["threshold"] = rng.choice([THR5, THR3])
        fl_bin = "Binned" in cls and rng.random() < 0.5
        fl = "NormalizedEntropy" in cls and rng.random() < 0.3
        if fl:
            cfg["from_logits"] = True
        if cls == "AUC":
            cfg["reorder"] = True
        weighted = rng.random() < 0.5
        scalar_w = float(rng.choice(W5[1:])) if rng.random() < 0.25 else None
        pools = [rng.sample([Fr(i, 64) for i in range(1, 64)], 63) for _ in range(T + 1)]
        batches, alts = [], []
        profs0 = pick_profiles(rng, T + 1)
        for _b in range(nb):
            n = rng.choice([1, 2, 3, 5])
            profs = profs0 if rng.random() < 0.6 else pick_profiles(rng, T + 1)
            rows = []
            for r, pr in enumerate(profs):
                d = {}
                if cls == "AUC":
                    d["x"] = [pools[r].pop() for _ in range(n)]
                    d["y"] = scores(rng, n, pr[0])
                elif "ClickThroughRate" in cls:
                    d["input"] = labels(rng, n, pr[1])
                    if weighted and scalar_w is None:
                        d["weights"] = weights(rng, n, pr[2])
                elif "WeightedCalibration" in cls:
                    d["input"] = scores(rng, n, pr[0], PROB)
                    d["target"] = labels(rng, n, pr[1])
                    if weighted and scalar_w is None:
                        d["weight"] = weights(rng, n, pr[2])
                elif "NormalizedEntropy" in cls:
                    d["input"] = scores(rng, n, pr[0], LOGIT if fl else PROB)
                    d["target"] = labels(rng, n, pr[1])
                    if weighted:
                        d["weight"] = weights(rng, n, pr[2])
                else:
                    d["input"] = scores(rng, n, pr[0], GBIN if ("Binned" in cls and fl_bin) else G8)
                    d["target"] = labels(rng, n, pr[1])
                    if weighted and cls in ("BinaryAUROC", "WindowedBinaryAUROC"):
                        d["weight"] = weights(rng, n, pr[2])
                rows.append(d)
            dt = {"input": "i64" if "ClickThroughRate" in cls else "f32", "x": "f32", "y": "f32", "weight": "f32", "weights": "f32",
                  "target": "f32" if ("Calibration" in cls or "Entropy" in cls) else "i64"}
            if cls in ("BinaryAUROC", "WindowedBinaryAUROC") and "weight" in rows[0]:
                dt["weight"] = "f32"
            b = {k: tj(rows_tensor([r[k] for r in rows[:T]], dt[k])) for k in rows[0]}
            if scalar_w is not None and weighted and ("ClickThroughRate" in cls or "WeightedCalibration" in cls):
                b["weights" if "ClickThroughRate" in cls else "weight"] = scalar_w
            batches.append(b)
            alts.append({k: tj(rows_tensor([rows[T][k]], dt[k])[0]) for k in rows[T]})
        yield {"fam": "clsrows", "cls": cls, "cfg": cfg, "T": T, "batches": batches, "alt": alts, "altj": rng.randrange(T)}

# ------------------------------------------------------------------ classes over class / label / output columns

COLCLS = {   # multi class: (mode, single class, shared_from, cfg keys copied to the single instance)
    "MulticlassAUROC": ("mc", "BinaryAUROC", 9, []),
    "MulticlassAUPRC": ("mc", "BinaryAUPRC", 9, []),
    "MultilabelAUPRC": ("ml", "BinaryAUPRC", 9, []),
    "MulticlassPrecisionRecallCurve": ("mc", "BinaryPrecisionRecallCurve", 9, []),
    "MultilabelPrecisionRecallCurve": ("ml", "BinaryPrecisionRecallCurve", 9, []),
    "MultilabelRecallAtFixedPrecision": ("ml", "BinaryRecallAtFixedPrecision", 9, ["min_precision"]),
    "MulticlassBinnedAUROC": ("mc", "BinaryBinnedAUROC", 1, ["threshold"]),
    "MulticlassBinnedAUPRC": ("mc", "BinaryBinnedAUPRC", 1, ["threshold"]),
    "MultilabelBinnedAUPRC": ("ml", "BinaryBinnedAUPRC", 1, ["threshold"]),
    "MulticlassBinnedPrecisionRecallCurve": ("mc", "BinaryBinnedPrecisionRecallCurve", 2, ["threshold"]),
    "MultilabelBinnedPrecisionRecallCurve": ("ml", "BinaryBinnedPrecisionRecallCurve", 2, ["threshold"]),
    "MulticlassPrecision": ("pred", "BinaryPrecision", 9, []),
    "MulticlassRecall": ("pred", "BinaryRecall", 9, []),
    "MulticlassF1Score": ("pred", "BinaryF1Score", 9, []),
    "MeanSquaredError": ("out", "MeanSquaredError", 9, []),
    "R2Score": ("out", "R2Score", 9, []),
    "WindowedMeanSquaredError": ("outwin", "WindowedMeanSquaredError", 9, []),     # num_tasks = number of output columns
}
LISTS = {"MulticlassPrecisionRecallCurve": 3, "MultilabelPrecisionRecallCurve": 3, "MultilabelRecallAtFixedPrecision": 2,
         "MulticlassBinnedPrecisionRecallCurve": 2, "MultilabelBinnedPrecisionRecallCurve": 2}


def ev_clscols(pl) -> Res:
    res = Res()
    cls, cfg, C = pl["cls"], dict(pl["cfg"]), pl["C"]
    mode, scls, shared_from, keys = COLCLS[cls]
    batches = [{k: dec(v) for k, v in b.items()} for b in pl["batches"]]
    res.site = cls
    res.cfg = ",".join(f"{k}={v}" for k, v in sorted(cfg.items()) if k != "threshold") or "plain"
    mcfg = dict(cfg)
    if mode in ("mc", "pred"):
        mcfg["num_classes"] = C
    elif mode == "ml":
        mcfg["num_labels"] = C
    scfg = {k: cfg[k] for k in keys if k in cfg}
    if mode == "out":
        scfg = {k: v for k, v in cfg.items() if k != "multioutput"}
        scfg["multioutput"] = "raw_values"
    if mode == "outwin":
        mcfg = {**cfg, "num_tasks": C, "multioutput": "raw_values"}
        scfg = {**cfg, "multioutput": "raw_values"}
    m = mk(cls, mcfg)
    for b in batches:
        kw = {"sample_weight": b["sample_weight"]} if "sample_weight" in b else {}
        m.update(b["input"], b["target"], **kw)
    mo = obs(m)
    res.real = mo
    so = []
    for c in range(C):
        s = mk(scls, scfg)
        for b in batches:
            x, y = b["input"], b["target"]
            if mode == "mc":
                s.update(x[:, c], (y == c).long())
            elif mode == "ml":
                s.update(x[:, c], y[:, c])
            elif mode == "pred":
                pred = x.argmax(dim=1) if x.ndim == 2 else x
                s.update((pred == c).long(), (y == c).long())
            else:
                kw = {"sample_weight": b["sample_weight"]} if "sample_weight" in b else {}
                s.update(x[:, c], y[:, c], **kw)
        so.append(obs(s))
    label = f"{cls}({res.cfg})"
    avg = cfg.get("average", "n/a")
    if mode == "outwin":
        cmp_class(res, mo, so, C, 9, "output-differs-from-single-output-instance", label, 1e-5)
    elif any(s[0] != "ok" for s in so):
        if mo[0] == "ok":
            res.notes.append("single-raises")
    elif mo[0] != "ok":
        res.fail("slice-differs-from-single-instance", f"{label}: multi compute() raised {mo[1]} ({mo[2][:80]})")
    else:
        per = LISTS.get(cls)
        if per:
            exp = assemble(so, per, False)
            expect(res, mo, exp, "slice-differs-from-single-instance", label)
        elif mode == "out" and cfg.get("multioutput", "uniform_average") != "raw_values":
            vals = stack([s[1][0] for s in so])
            if cfg.get("multioutput", "uniform_average") == "uniform_average":
                expect(res, mo, [vals.mean()], "average-differs-from-stated", label, tol=1e-5)
            else:
                yd = torch.cat([b["target"] for b in batches]).to(torch.float64)
                tss = (yd * yd).sum(0) - yd.sum(0) ** 2 / yd.shape[0]
                expect(res, mo, [(vals.to(torch.float64) * tss / tss.sum()).sum()], "average-differs-from-stated", label, tol=1e-4)
        elif avg == "macro" and mode != "pred":
            vals = stack([s[1][0] for s in so])
            expect(res, mo, [vals.mean()] + so[0][1][1:] if shared_from == 1 else [vals.mean()], "average-differs-from-stated", label)
        else:
            k = min(shared_from, len(so[0][1]))
            expect(res, mo, assemble(so, k, True), "slice-differs-from-single-instance", label)
    if cls == "MulticlassBinnedAUROC" and not res.ok:
        res.sig = KNOWN_PER_SAMPLE
    res.progs.append(("cls", cls, mcfg, [([b["input"], b["target"]], ({"sample_weight": b["sample_weight"]} if "sample_weight" in b else {}))
                                         for b in batches], 1e-4 if cls == "R2Score" else 2e-5))
    return res


def gen_clscols(rng: Rng, tier):
    g4 = [Fr(i, 4) for i in range(-4, 9)]
    while True:
        cls = rng.choice(list(COLCLS))
        mode = COLCLS[cls][0]
        C = rng.choice([2, 3] if tier == "quick" else [2, 3, 4])
        cfg = {}
        if "Binned" in cls:
            cfg["threshold"] = rng.choice([THR5, THR3])
        if cls in ("MulticlassAUROC", "MulticlassAUPRC", "MultilabelAUPRC", "MulticlassBinnedAUROC", "MulticlassBinnedAUPRC", "MultilabelBinnedAUPRC"):
            cfg["average"] = rng.choice([None, None, "macro"])
        if cls in ("MulticlassBinnedAUPRC", "MultilabelBinnedAUPRC", "MulticlassBinnedPrecisionRecallCurve", "MultilabelBinnedPrecisionRecallCurve"):
            cfg["optimization"] = rng.choice(["vectorized", "memory"])
        if mode == "pred":
            cfg["average"] = None
        if cls == "MultilabelRecallAtFixedPrecision":
            cfg["min_precision"] = rng.choice([0.0, 0.5, 1.0])
        if cls == "MeanSquaredError":
            cfg["multioutput"] = rng.choice(["raw_values", "uniform_average"])
        if cls == "R2Score":
            cfg["multioutput"] = rng.choice(["raw_values", "uniform_average", "variance_weighted"])
        if cls == "WindowedMeanSquaredError":
            cfg["max_num_updates"] = rng.choice([1, 2, 3])
            cfg["enable_lifetime"] = rng.random() < 0.7
            mode = "out"
        nb = rng.randint(1, 3) if cls != "WindowedMeanSquaredError" else rng.randint(1, 2 * cfg["max_num_updates"] + 2)
        profs = pick_profiles(rng, C)
        batches = []
        present = rng.sample(range(C), rng.randint(1, C))
        for _b in range(nb):
            n = rng.choice([1, 2, 3, 5]) if cls != "R2Score" else rng.choice([3, 4, 6])
            b = {}
            if mode == "out":
                cols = []
                for pr in profs:
                    t = [rng.choice(g4)] * n if pr[0] == "const" else [rng.choice(g4) for _ in range(n)]
                    x = list(t) if pr[1] == "pos" else [rng.choice(g4) for _ in range(n)]
                    cols.append((x, t))
                b["input"] = tj(rows_tensor([[cols[j][0][i] for j in range(C)] for i in range(n)], "f32"))
                b["target"] = tj(rows_tensor([[cols[j][1][i] for j in range(C)] for i in range(n)], "f32"))
                if cls in ("MeanSquaredError", "WindowedMeanSquaredError") and cfg.get("_w", None) is None:
                    cfg["_w"] = rng.random() < 0.4
                if cls in ("MeanSquaredError", "WindowedMeanSquaredError") and cfg["_w"]:
                    b["sample_weight"] = tj(rows_tensor([weights(rng, n, "mixed")], "f32")[0])
            elif mode == "pred" and rng.random() < 0.5:
                b["input"] = tj(torch.tensor([rng.randrange(C) for _ in range(n)], dtype=torch.int64))
                b["target"] = tj(torch.tensor([rng.choice(present) for _ in range(n)], dtype=torch.int64))
            else:
                cx = [scores(rng, n, pr[0]) for pr in profs]
                b["input"] = tj(rows_tensor([[cx[c][i] for c in range(C)] for i in range(n)], "f32"))
                if mode == "ml":
                    cy = [labels(rng, n, pr[1]) for pr in profs]
                    b["target"] = tj(rows_tensor([[cy[c][i] for c in range(C)] for i in range(n)], "i64"))
                else:
                    b["target"] = tj(torch.tensor([rng.choice(present) for _ in range(n)], dtype=torch.int64))
            batches.append(b)
        if mode == "pred":      # one input kind per stream
            kinds = {len(b["input"]["s"]) for b in batches}
            if len(kinds) > 1:
                batches = batches[:1]
        cfg.pop("_w", None)
        yield {"fam": "clscols", "cls": cls, "cfg": cfg, "C": C, "batches": batches}

# ------------------------------------------------------------------ HitRate / ReciprocalRank classes: one result per sample

def ev_clspersample(pl) -> Res:
    res = Res()
    cls, k = pl["cls"], pl["p"]["k"]
    batches = [{kk: jt(v) for kk, v in b.items()} for b in pl["batches"]]
    res.site, res.cfg = cls, f"k={k}"
    mo = obs(feed(mk(cls, {"k": k}), [([b["input"], b["target"]], {}) for b in batches]))
    res.real = mo
    so = []
    for b in batches:
        for i in range(b["input"].shape[0]):
            so.append(obs(feed(mk(cls, {"k": k}), [([b["input"][i:i + 1], b["target"][i:i + 1]], {})])))
    if singles_ok(res, so, mo):
        expect(res, mo, [torch.cat([s_[1][0].reshape(-1) for s_ in so])], "sample-differs-from-single-sample-instance", f"{cls}(k={k})")
    res.progs.append(("cls", cls, {"k": k}, [([b["input"], b["target"]], {}) for b in batches], 2e-5))
    return res


def gen_clspersample(rng: Rng, tier):
    while True:
        C = rng.choice([2, 3, 4])
        batches = []
        for _b in range(rng.randint(1, 3)):
            n = rng.choice([1, 2, 3, 5])
            profs = pick_profiles(rng, n) if n <= len(PROFILES) else [rng.choice(PROFILES) for _ in range(n)]
            batches.append({"input": tj(rows_tensor([scores(rng, C, pr[0]) for pr in profs], "f32")),
                            "target": tj(torch.tensor([rng.randrange(C) for _ in range(n)], dtype=torch.int64))})
        yield {"fam": "clspersample", "cls": rng.choice(["HitRate", "ReciprocalRank"]), "p": {"k": rng.choice([None, 1, 2, 9])}, "batches": batches}

# ------------------------------------------------------------------ retrieval classes: the `indexes == i` partition

def ev_retrieval(pl) -> Res:
    res = Res()
    cls, cfg, Q = pl["cls"], dict(pl["cfg"]), pl["Q"]
    calls = [{k: dec(v) for k, v in c.items()} for c in pl["calls"]]
    res.site = cls
    res.cfg = ",".join(f"{k}={v}" for k, v in sorted(cfg.items()))
    m = mk(cls, {**cfg, "num_queries": Q})
    for c in calls:
        m.update(c["input"], c["target"], c["indexes"])
    mo = obs(m)
    res.real = mo
    scfg = {k: v for k, v in cfg.items() if k != "avg"}
    so = []
    for q in range(Q):
        s = mk(cls, {**scfg, "num_queries": 1})
        for c in calls:
            sel = c["indexes"] == q
            if bool(sel.any()):
                s.update(c["input"][sel], c["target"][sel])
        so.append(obs(s))
    label = f"{cls}(num_queries={Q},{res.cfg})"
    if any(s[0] != "ok" for s in so):
        if mo[0] == "ok":
            res.fail("query-differs-from-single-query-instance", f"{label}: a single-query instance raised {[s[1] for s in so if s[0] != 'ok'][0]} but the multi-query compute() returned {mo[1][0].tolist()}")
    elif mo[0] != "ok":
        res.fail("query-differs-from-single-query-instance", f"{label}: multi compute() raised {mo[1]} ({mo[2][:80]})")
    else:
        vals = torch.cat([s[1][0].reshape(-1) for s in so])
        if cfg.get("avg") == "macro":
            expect(res, mo, [vals.nanmean()], "average-differs-from-stated", label)
        else:
            expect(res, mo, [vals], "query-differs-from-single-query-instance", label)
    if res.ok and mo[0] == "ok" and cfg.get("avg") != "macro" and "altq" in pl:
        # independence: drop every row of query j from the stream
        j = pl["altq"]
        m2 = mk(cls, {**cfg, "num_queries": Q})
        for c in calls:
            keep = c["indexes"] != j
            if bool(keep.any()):
                m2.update(c["input"][keep], c["target"][keep], c["indexes"][keep])
        mo2 = obs(m2)
        if mo2[0] == "ok":
            others = [i for i in range(Q) if i != j]
            if not close(mo[1][0][others], mo2[1][0][others]):
                res.fail("query-depends-on-other-query", f"{label}: removing the rows of query {j} changed queries {others}: {mo[1][0].tolist()} -> {mo2[1][0].tolist()}")
    res.progs.append(("cls", cls, {**cfg, "num_queries": Q}, [([c["input"], c["target"], c["indexes"]], {}) for c in calls], 2e-5))
    return res


def gen_retrieval(rng: Rng, tier):
    while True:
        cls = rng.choice(["RetrievalPrecision", "RetrievalRecall"])
        Q = rng.choice([2, 3] if tier == "quick" else [2, 3, 4])
        cfg = {"k": rng.choice([None, 1, 2, 3]), "empty_target_action": rng.choice(["neg", "neg", "pos", "skip", "err"])}
        if cfg["k"] is not None and rng.random() < 0.4:
            cfg["limit_k_to_size"] = True
        if rng.random() < 0.3:
            cfg["avg"] = "macro"
        pool = rng.sample([Fr(i, 256) for i in range(1, 256)], 255)       # tie-free scores over the whole stream
        allneg = rng.randrange(Q) if rng.random() < 0.5 else None          # a query without any relevant row
        absent = rng.randrange(Q) if rng.random() < 0.3 else None          # a query that never occurs
        calls = []
        for _c in range(rng.randint(1, 4)):
            n = rng.choice([1, 2, 3, 5, 8])
            qs = [q for q in range(Q) if q != absent] or [0]
            if rng.random() < 0.4 and len(qs) > 1:
                qs = rng.sample(qs, len(qs) - 1)                            # some query missing from this call
            idx = [rng.choice(qs) for _ in range(n)]
            tgt = [0 if i == allneg else rng.choice([0, 0, 1]) for i in idx]
            calls.append({"input": tj(rows_tensor([[pool.pop() for _ in range(n)]], "f32")[0]),
                          "target": tj(torch.tensor(tgt, dtype=torch.int64)), "indexes": tj(torch.tensor(idx, dtype=torch.int64))})
        yield {"fam": "retrieval", "cls": cls, "cfg": cfg, "Q": Q, "calls": calls, "altq": rng.randrange(Q)}

# ================================================================== dispatch, correspondence, run / search / replay

FAMS = {"rows": (ev_rows, gen_rows), "cols": (ev_cols, gen_cols), "count": (ev_count, gen_count), "mlacc": (ev_mlacc, gen_mlacc),
        "outs": (ev_outs, gen_outs), "persample": (ev_persample, gen_persample), "clsrows": (ev_clsrows, gen_clsrows),
        "clswin": (ev_clsrows, lambda rng, tier: gen_clsrows(rng, tier, windowed=True)), "clscols": (ev_clscols, gen_clscols),
        "retrieval": (ev_retrieval, gen_retrieval), "topk": (ev_topk, gen_topk), "clspersample": (ev_clspersample, gen_clspersample)}
WEIGHTS = {"rows": 10, "cols": 9, "count": 3, "mlacc": 1, "outs": 3, "persample": 1, "clsrows": 5, "clswin": 5, "clscols": 6, "retrieval": 4, "topk": 3, "clspersample": 1}


def evaluate(pl) -> Res:
    return FAMS[pl["fam"]][0](pl)


def signature(res: Res):
    return res.sig or f"C16|{res.site}|{res.cfg}|{res.relation}"


def class_prog(cls, cfg, calls):
    """a `prog` over one instance of a registered class model (None when the driver does not know the class)."""
    from ..registry import BY_NAME, Batch
    from ..progs import Prog
    spec = BY_NAME.get(cls)
    if spec is None or not spec.model:
        return None
    p = Prog(spec, dict(cfg))
    for args, kw in calls:
        p.u(0, Batch(tuple(args), dict(kw)))
    p.o(0)
    return p


def retrying(f, *a):
    """the driver binary is briefly absent while another check in the same tree relinks it: wait instead of failing."""
    from ..common import DriverError
    for attempt in range(45):
        try:
            return f(*a)
        except (DriverError, FileNotFoundError, PermissionError, OSError) as e:
            if attempt == 44 or (isinstance(e, DriverError) and "not built" not in str(e) and "rc=" not in str(e)):
                raise
            time.sleep(2)


def correspondence(rep: Report, pending):
    """pending: [(payload, Res)] — compare the real multi results with the Lean models in one driver run."""
    from ..progs import run_real, model_results, compare_with_model
    lines, owners = [], []
    progs, powners = [], []
    for pl, res in pending:
        for line, real, tol in res.lines:
            lines.append(line); owners.append((pl, res, real, tol))
            rep.count("model:fn-vectorised" if " multi." in line[:60] else "model:fn")
        for _k, cls, cfg, calls, tol in res.progs:
            try:
                p = class_prog(cls, cfg, calls)
            except Exception:  # noqa: BLE001  (a configuration the registry cannot construct)
                p = None
            if p is not None:
                progs.append(p); powners.append((pl, res, tol))
                rep.count("model:class-prog")
            else:
                rep.count(f"model:none:{cls}")
    n_bad = 0
    if lines:
        outs = retrying(run_driver, lines)
        for (pl, res, real, tol), line, o in zip(owners, lines, outs):
            rep.traces += 1
            msg = outcomes_agree(real, dec_out(o), tol=tol, check_shape=False)
            if msg:
                n_bad += 1
                rep.broke(f"correspondence:multi-model:{res.site}", f"vectorised model and implementation disagree ({msg}); real-vs-real oracle "
                          + ("holds" if res.ok else "fails too"), {"payload": pl, "driver_line": line[:2000], "model": o[:500], "real": outs_json(real)})
    if progs:
        reals = [run_real(p) for p in progs]
        models, plines = retrying(model_results, progs)
        for p, (pl, res, tol), r, mres, line in zip(progs, powners, reals, models, plines):
            rep.traces += 1
            d = compare_with_model(p, r, mres, tol)
            if d:
                n_bad += 1
                rep.broke(f"correspondence:class-model:{res.site}", f"class model and implementation disagree at op {d[0]}: {d[1]}",
                          {"payload": pl, "driver_line": line[:2000], "model": mres})
    return n_bad


def drive(rep: Report, rng: Rng, tier: str, deadline: float, with_model: bool, max_cases: int):
    gens = {k: g(Rng(rng.randrange(1 << 30)), tier) for k, (_e, g) in FAMS.items()}
    order = [k for k, w in WEIGHTS.items() for _ in range(w)]
    pending, n, bad_sigs, n_model_bad = [], 0, {}, 0
    stats = {k: 0 for k in FAMS}
    while n < max_cases and time.time() < deadline:
        fam = order[n % len(order)] if n < 4 * len(order) else rng.choice(order)
        pl = next(gens[fam])
        res = evaluate(pl)
        n += 1
        stats[fam] += 1
        rep.count(f"fam:{fam}")
        rep.count(f"site:{res.site}")
        for note in res.notes:
            rep.count(note)
        if res.real is not None and res.real[0] != "ok":
            rep.count(f"multi-raises:{res.real[1]}")
        rep.case(nontrivial_key=(fam, sha(pl)), sample={"payload": pl, "multi": outs_json(res.real) if res.real else None} if n % 400 == 1 else None)
        if not res.ok:
            sig = signature(res)
            rep.count("oracle-failures")
            bad_sigs[sig] = bad_sigs.get(sig, 0) + 1
            rep.count(f"failed:{sig}")
            if bad_sigs[sig] <= 2:
                rep.violation(sig, res.what, {"kind": "multi-case", "payload": pl, "relation": res.relation})
        if with_model:
            pending.append((pl, res))
            if len(pending) >= 300:
                n_model_bad += correspondence(rep, pending)
                pending = []
                if n_model_bad > 30:
                    break
    if with_model and pending:
        n_model_bad += correspondence(rep, pending)
    return n, stats, n_model_bad


def witnesses(rep: Report):
    """fixed cases run first: the minimal inputs of the recorded findings (must still fail, else the finding is stale) and
    the minimal inputs of the defects that were fixed in /repo (regressions: must hold)."""
    x = torch.tensor([[0.25, 0.5, 0.25], [0.0, 0.25, 0.75], [0.75, 0.25, 0.0], [0.25, 0.5, 0.25]])
    y = torch.tensor([1, 2, 0, 0])
    f32 = lambda v: tj(torch.tensor(v, dtype=torch.float32))     # noqa: E731
    i64 = lambda v: tj(torch.tensor(v, dtype=torch.int64))       # noqa: E731
    known = [
        {"fam": "cols", "fn": "multiclass_binned_auroc", "p": {"threshold": THR5, "average": None}, "t": {"input": tj(x), "target": tj(y)}},
        {"fam": "clscols", "cls": "MulticlassBinnedAUROC", "cfg": {"threshold": THR5, "average": None}, "C": 3,
         "batches": [{"input": tj(x), "target": tj(y)}]},
        # "is the tail of the buffer unfilled?" is asked for all tasks at once: task 0's window is the whole buffer only
        # because task 1 has a non-zero score behind the cursor (task 0 alone: 1.0; here: 0.625)
        {"fam": "clsrows", "cls": "WindowedBinaryAUROC", "cfg": {"max_num_samples": 4}, "T": 2,
         "batches": [{"input": f32([[.5, .5, 0, 0], [.5, .5, .25, .75]]), "target": i64([[1, 1, 1, 0], [1, 0, 1, 0]])},
                     {"input": f32([[.75, .25], [.75, .25]]), "target": i64([[1, 0], [1, 0]])}],
         "alt": [{"input": f32([.5, .5, 0, 0]), "target": i64([1, 0, 1, 0])}, {"input": f32([.75, .25]), "target": i64([1, 0])}], "altj": 1},
        # one live sample per task: squeeze() turns the (2, 1) buffers into one task with two samples
        {"fam": "clsrows", "cls": "WindowedBinaryAUROC", "cfg": {"max_num_samples": 1}, "T": 2,
         "batches": [{"input": f32([[.5], [.25]]), "target": i64([[1], [0]])}]},
    ]
    regressions = [
        # fixed b23feff: one task without positive target used to empty every task's calibration (now [1, inf])
        {"fam": "clsrows", "cls": "WeightedCalibration", "cfg": {}, "T": 2,
         "batches": [{"input": f32([[.5, .5], [.5, .5]]), "target": f32([[1, 0], [0, 0]])}]},
        # fixed 622011e: one task without weight used to empty every task's normalized entropy (now [1, nan])
        {"fam": "clsrows", "cls": "BinaryNormalizedEntropy", "cfg": {}, "T": 2,
         "batches": [{"input": f32([[.5, .5], [.5, .5]]), "target": f32([[1, 0], [1, 0]]), "weight": f32([[1, 1], [0, 0]])}]},
        # every task degenerate: the documented "no update yet" answer (empty tensor), single-task instances alike
        {"fam": "clsrows", "cls": "WeightedCalibration", "cfg": {}, "T": 2,
         "batches": [{"input": f32([[.5, .5], [.5, .5]]), "target": f32([[0, 0], [0, 0]])}]},
    ]
    pending = []
    for expect_fail, pls in ((True, known), (False, regressions)):
        for pl in pls:
            res = evaluate(pl)
            pending.append((pl, res))
            rep.case(nontrivial_key=("witness", sha(pl)))
            rep.count("witness:known" if expect_fail else "witness:regression")
            if not res.ok:
                rep.violation(signature(res), res.what, {"kind": "multi-case", "payload": pl, "relation": res.relation})
            elif expect_fail:
                rep.notes.append(f"witness no longer fails: {pl['fam']}:{pl.get('fn', pl.get('cls'))} (stale finding?)")
    correspondence(rep, pending)


def run(rep: Report):
    rng = Rng(rep.seed * 1000003 + 16)
    from .. import opscheck; opscheck.check_ops(rep, ["multi", "agg", "window"])
    witnesses(rep)
    deadline = time.time() + budget(rep.tier, 40, 480)
    n, stats, bad = drive(rep, rng, rep.tier, deadline, True, 7200 if rep.tier == "quick" else 120000)
    rep.streams["oracle+correspondence"] = {"cases": n, "per_family": stats, "model_disagreements": bad}


def search(rep: Report):
    """a proof obligation or the correspondence broke: the real-vs-real oracle (multi call vs stacked single calls, slice
    independence) on the thorough-size space, independent of the model, capped at 120 s."""
    rng = Rng(rep.seed * 7919 + 1616)
    n, stats, _ = drive(rep, rng, "thorough", time.time() + 120, False, 10 ** 9)
    rep.streams["search"] = {"cases": n, "per_family": stats}


def _nothing(reason):
    raise ValueError(f"nothing to replay: {reason}")


def replay(payload) -> bool:
    """True iff the property holds on the recorded case.  The case IS its JSON payload `{fam, …}` (every tensor with dtype and
    shape, python scalars / None / lists as they are); `evaluate` — the function the sweep, the witnesses and search() call —
    re-runs the real multi call, the real single-slice calls and the independence relation on it."""
    if not isinstance(payload, dict):
        _nothing("payload is not a dict")
    if "replay" in payload or "property" in payload:
        if payload.get("kind", "failing-input") != "failing-input":
            _nothing(f"payload kind {payload.get('kind')!r} carries no concrete input")
        pl = payload.get("replay")
    else:
        pl = payload
    if not isinstance(pl, dict) or not pl:
        _nothing("the payload carries no replay dict")
    if pl.get("kind", "multi-case") != "multi-case" and "fam" not in pl:
        _nothing(f"replay kind {pl.get('kind')!r} is not a multi-slice case")
    pl = pl.get("payload", pl)
    if not isinstance(pl, dict) or pl.get("fam") not in FAMS:
        _nothing(f"no case family in the payload (fam = {pl.get('fam') if isinstance(pl, dict) else None!r})")
    try:
        res = evaluate(pl)
    except (KeyError, TypeError, AttributeError, IndexError) as e:
        _nothing(f"the recorded {pl['fam']} case is incomplete or malformed ({e!r})")
    if res.ok and "single-raises" in res.notes:
        _nothing("a single-slice call raises on the recorded input: the multi call has nothing to be compared with")
    if not res.ok:
        print(f"replay: {signature(res)}: {res.what}"[:600])
    return res.ok
