"""C04 — count-based classification metrics = textbook counting.
Correspondence: real functional (and class) vs the Lean model through the driver,
exhaustive over small grids (ties at the threshold, ties in the top-k, absent
classes) + tie-heavy random. Search oracle: direct counting with Fractions."""
from __future__ import annotations
import itertools, math
from fractions import Fraction as Fr
import torch
from ..common import (G5, Rng, Report, call_real, dec_out, enc_args, ft, it, outcomes_agree, run_driver, budget)
import torcheval.metrics.functional as F

LEVEL = "proof"
RULE = ("functional call on grid-valued inputs (scores in {0,1/4,1/2,3/4,1} incl. exactly at the threshold, logits on a 3-level grid "
        "so ties occur inside the top-k, labels in [0,C)); non-trivial = distinct (function, params, input) with at least one "
        "positive and one negative decision or a tie/absent class; exhaustive blocks enumerate every input of the stated size")
MODELLED = ["IEEE rounding of the final float32 division (compared with tolerance 2e-5)",
            "torch.topk tie order (top-k multilabel cases with a tie across the k-th boundary are skipped)"]
ASSUMPTIONS = ["labels are integers in [0, num_classes) on the modelled paths; negative labels are C14's subject"]

AVGS = ["micro", "macro", "weighted", None]

# ------------------------------------------------------------------ python oracle (spec)

def _ratio0(a, b):
    return Fr(0) if b == 0 else Fr(a, b)


def oracle(fn: str, kw: dict):
    """textbook value (list of Fractions/nan) or None if not covered."""
    inp, tgt = kw["input"], kw["target"]
    if fn.startswith("binary"):
        thr = Fr(kw.get("threshold", 0.5))
        preds = [1 if Fr(x) >= thr else 0 for x in inp.tolist()]
        labs = [int(y) for y in tgt.tolist()]
        C = 2
    elif fn.startswith("multiclass"):
        if inp.ndim == 2:
            preds = [max(range(len(r)), key=lambda j: (r[j], -j)) for r in inp.tolist()]
        else:
            preds = [int(v) for v in inp.tolist()]
        labs = [int(y) for y in tgt.tolist()]
        C = kw.get("num_classes") or (max(preds + labs) + 1 if preds else 0)
    else:
        return None
    n = len(labs)
    ps = list(zip(preds, labs))
    tp = lambda c: sum(1 for p, l in ps if p == c and l == c)
    fp = lambda c: sum(1 for p, l in ps if p == c and l != c)
    fn_ = lambda c: sum(1 for p, l in ps if p != c and l == c)
    sup = lambda c: sum(1 for p, l in ps if l == c)
    prd = lambda c: sum(1 for p, l in ps if p == c)
    corr = sum(1 for p, l in ps if p == l)
    avg = kw.get("average", "micro")
    if avg in ("none", "None"):
        avg = None
    present = [c for c in range(C) if sup(c) or prd(c)]
    if fn == "binary_accuracy":
        return [Fr(corr, n)] if n else [math.nan]
    if fn == "binary_precision":
        return [_ratio0(tp(1), tp(1) + fp(1))]
    if fn == "binary_recall":
        return [_ratio0(tp(1), sup(1))]
    if fn == "binary_f1_score":
        return [_ratio0(2 * tp(1), 2 * tp(1) + fp(1) + fn_(1))]
    if fn == "multiclass_accuracy":
        k = kw.get("k", 1)
        if k > 1:
            rows = inp.tolist()
            ok = [sum(1 for x in r if x > r[l]) < k for r, l in zip(rows, labs)]
        else:
            ok = [p == l for p, l in ps]
        if avg == "weighted":
            return None          # not an option of multiclass_accuracy: the parameter check raises (no textbook value to compare)
        if avg == "micro":
            return [Fr(sum(ok), n)] if n else [math.nan]
        cc = [sum(1 for o, l in zip(ok, labs) if o and l == c) for c in range(C)]
        if avg == "macro":
            vals = [Fr(cc[c], sup(c)) for c in range(C) if sup(c)]
            return [sum(vals) / len(vals)] if vals else [math.nan]
        return [Fr(cc[c], sup(c)) if sup(c) else math.nan for c in range(C)]
    per = {"multiclass_precision": lambda c: _ratio0(tp(c), tp(c) + fp(c)),
           "multiclass_recall": lambda c: _ratio0(tp(c), sup(c)),
           "multiclass_f1_score": lambda c: _ratio0(2 * tp(c), 2 * tp(c) + fp(c) + fn_(c))}
    if fn in per:
        f = per[fn]
        if avg == "micro":
            return [Fr(corr, n)] if n else [Fr(0)]
        if avg == "macro":
            return [sum(f(c) for c in present) / len(present)] if present else [math.nan]
        if avg == "weighted":
            if n == 0:
                return None
            return [sum(f(c) * Fr(sup(c), n) for c in present)]
        return [f(c) for c in range(C)]
    if fn in ("binary_confusion_matrix", "multiclass_confusion_matrix"):
        cm = [[sum(1 for p, l in ps if l == t and p == q) for q in range(C)] for t in range(C)]
        norm = kw.get("normalize")
        if norm in (None, "none"):
            return [Fr(v) for r in cm for v in r]
        if norm == "all":
            return [Fr(v, n) if n else math.nan for r in cm for v in r]
        by_true = norm == "true"
        out = []
        for t in range(C):
            for q in range(C):
                d = sum(cm[t]) if by_true else sum(cm[r][q] for r in range(C))
                out.append(_ratio0(cm[t][q], d))
        return out
    return None


def oracle_agrees(real, exp) -> bool | None:
    if exp is None:
        return None
    if real[0] != "ok":
        return False
    vals = []
    for t in real[1]:
        vals += t.reshape(-1).to(torch.float64).tolist()
    if len(vals) != len(exp):
        return False
    for a, b in zip(vals, exp):
        b = float(b)
        if math.isnan(b) != math.isnan(a):
            return False
        if not math.isnan(b) and abs(a - b) > 2e-5 * max(1, abs(b)):
            return False
    return True

# ------------------------------------------------------------------ case generation

def binary_cases(rng: Rng, tier):
    fns = ["binary_accuracy", "binary_precision", "binary_recall", "binary_f1_score", "binary_confusion_matrix"]
    nmax = 3 if tier == "thorough" else 2
    thrs = G5 if tier == "thorough" else [Fr(0), Fr(1, 2), Fr(1)]
    for n in range(1, nmax + 1):
        for xs in itertools.product(G5, repeat=n):
            for ys in itertools.product([0, 1], repeat=n):
                for thr in thrs:
                    for fn in fns:
                        kw = {"input": ft(xs), "target": it(ys), "threshold": float(thr)}
                        if fn == "binary_confusion_matrix":
                            kw["normalize"] = rng.choice([None, "none", "all", "pred", "true"])
                        yield fn, kw, ("exh", n)
    for _ in range(600 if tier == "thorough" else 120):
        n = rng.choice([1, 2, 3, 5, 8, 17, 64])
        xs = rng.grid(n)
        ys = [rng.choice([0, 1]) for _ in range(n)] if rng.random() < 0.8 else [rng.choice([0, 1])] * n
        fn = rng.choice(fns)
        kw = {"input": ft(xs), "target": it(ys), "threshold": float(rng.choice(G5))}
        if fn == "binary_confusion_matrix":
            kw["normalize"] = rng.choice([None, "none", "all", "pred", "true"])
        yield fn, kw, ("rnd", n)


def multiclass_cases(rng: Rng, tier):
    fns = ["multiclass_accuracy", "multiclass_precision", "multiclass_recall", "multiclass_f1_score", "multiclass_confusion_matrix"]
    # exhaustive label inputs
    nmax = 3 if tier == "thorough" else 2
    for C in (2, 3):
        for n in range(1, nmax + 1):
            for ps in itertools.product(range(C), repeat=n):
                for ls in itertools.product(range(C), repeat=n):
                    for fn in fns:
                        for avg in AVGS:
                            kw = {"input": it(ps), "target": it(ls), "num_classes": C + (1 if rng.random() < 0.3 else 0)}
                            if fn == "multiclass_confusion_matrix":
                                if avg == "weighted":
                                    continue
                                kw["normalize"] = {"micro": None, "macro": "all", None: "pred"}[avg] if rng.random() < 0.7 else "true"
                            else:
                                kw["average"] = avg
                            yield fn, kw, ("exh-lab", C, n)
    # logits on a 3-level grid (ties inside top-k)
    L3 = [Fr(0), Fr(1, 2), Fr(1)]
    reps = 2500 if tier == "thorough" else 500
    for _ in range(reps):
        C = rng.choice([2, 3, 4])
        n = rng.choice([1, 2, 3, 4, 9, 33])
        rows = [rng.grid(C, L3) for _ in range(n)]
        if rng.random() < 0.25:
            # raw logits: the same 3-level structure (ties included) on a scale that passes num_classes and goes below zero —
            # a 2-D input holds SCORES, whose size has nothing to do with the number of classes
            sc, off = rng.choice([(16, -4), (64, -20), (8, 2)])
            rows = [[v * sc + off for v in r] for r in rows]
        present = rng.sample(range(C), rng.randint(1, C))
        ls = [rng.choice(present) for _ in range(n)]
        fn = rng.choice(fns)
        kw = {"input": ft([v for r in rows for v in r], shape=(n, C)), "target": it(ls), "num_classes": C}
        if fn == "multiclass_confusion_matrix":
            kw["normalize"] = rng.choice([None, "none", "all", "pred", "true"])
        else:
            kw["average"] = rng.choice(AVGS if fn != "multiclass_accuracy" else ["micro", "macro", None])
            if kw["average"] is None and rng.random() < 0.4:
                # the documented string spellings of None
                syn = {"multiclass_accuracy": "none", "multiclass_precision": "None"}.get(fn)
                if syn:
                    kw["average"] = syn
            if fn == "multiclass_accuracy":
                kw["k"] = rng.randint(1, C)
        yield fn, kw, ("logit", C, n)
    if True:
        # exhaustive top-k on tiny logit grids: n=1, C=3, every k
        for row in itertools.product(L3, repeat=3):
            for lab in range(3):
                for k in (1, 2, 3):
                    for avg in ("micro", "macro", None):
                        yield "multiclass_accuracy", {"input": ft(row, shape=(1, 3)), "target": it([lab]), "num_classes": 3,
                                                       "average": avg, "k": k}, ("exh-topk",)


def multilabel_cases(rng: Rng, tier):
    crits = ["exact_match", "hamming", "overlap", "contain", "belong"]
    nmax = 2 if tier == "thorough" else 1
    for n in range(1, nmax + 1):
        for L in (2, 3):
            for xs in itertools.product([Fr(0), Fr(1, 2), Fr(1)], repeat=n * L):
                for ys in itertools.product([0, 1], repeat=n * L):
                    c = rng.choice(crits)
                    thr = rng.choice([Fr(1, 2), Fr(1, 4), Fr(1)])
                    yield "multilabel_accuracy", {"input": ft(xs, shape=(n, L)), "target": it(ys, shape=(n, L)),
                                                  "threshold": float(thr), "criteria": c}, ("exh-ml", n, L)
    for _ in range(800 if tier == "thorough" else 200):
        n, L = rng.choice([1, 2, 5, 16]), rng.choice([2, 3, 5])
        xs, ys = rng.grid(n * L), [rng.choice([0, 1]) for _ in range(n * L)]
        if rng.random() < 0.5:
            yield "multilabel_accuracy", {"input": ft(xs, shape=(n, L)), "target": it(ys, shape=(n, L)),
                                          "threshold": float(rng.choice(G5)), "criteria": rng.choice(crits)}, ("rnd-ml",)
        else:
            # top-k: distinct scores per row so topk is determined
            rows = []
            for _r in range(n):
                vals = rng.sample([Fr(i, 16) for i in range(16)], L)
                rows += vals
            k = rng.randint(2, L) if L >= 2 else 2
            yield "topk_multilabel_accuracy", {"input": ft(rows, shape=(n, L)), "target": it(ys, shape=(n, L)),
                                               "criteria": rng.choice(crits), "k": k}, ("rnd-topkml",)


def all_cases(rng, tier):
    yield from binary_cases(rng, tier)
    yield from multiclass_cases(rng, tier)
    yield from multilabel_cases(rng, tier)


def kw_json(fn, kw):
    return {"fn": fn, **{k: (v.tolist() if isinstance(v, torch.Tensor) else v) for k, v in kw.items()},
            **{f"{k}.shape": list(v.shape) for k, v in kw.items() if isinstance(v, torch.Tensor)}}


def tdesc(t: torch.Tensor):
    return {"shape": list(t.shape), "dtype": str(t.dtype).replace("torch.", ""), "data": t.tolist()}


def is_tdesc(v):
    return isinstance(v, dict) and {"shape", "dtype", "data"} <= set(v)


def tundesc(d) -> torch.Tensor:
    return torch.tensor(d["data"], dtype=getattr(torch, d["dtype"])).reshape(tuple(d["shape"]))


def case_desc(fn, kw):
    """replayable description of a functional case: every tensor with its dtype and shape (label inputs are int64, score
    inputs float32), every parameter as the python value it is (None / "none" / "None" / int k / float threshold keep their type)"""
    return {"fn": fn, "kwargs": {k: (tdesc(v) if isinstance(v, torch.Tensor) else v) for k, v in kw.items()}}


def case_from_desc(c):
    return c["fn"], {k: (tundesc(v) if is_tdesc(v) else v) for k, v in c["kwargs"].items()}


def config_class(kw):
    return kw.get('average', kw.get('criteria', kw.get('normalize', '')))


def textbook_verdict(fn, kw, real):
    """direct counting on one functional case vs its real outcome: (agrees: True | False | None = not covered, textbook values).
    Used by the sweep, by search() and by replay()."""
    exp = oracle(fn, kw)
    return oracle_agrees(real, exp), exp


def textbook_violation(fn, kw, real, exp, extra=None):
    rj = real[1] if real[0] == "err" else [t.tolist() for t in real[1]]
    tj = [str(x) for x in exp] if exp else None
    return (f"C04|{fn}|{config_class(kw)}|differs-from-textbook", f"{fn} returns {rj} where direct counting gives {tj}",
            {"kind": "functional", "case": case_desc(fn, kw), "real": rj, "textbook": tj, **(extra or {})})


def real_call(fn, kw):
    kw = dict(kw)
    a = [kw.pop("input"), kw.pop("target")]
    if fn == "multiclass_confusion_matrix":
        a.append(kw.pop("num_classes"))
    return call_real(getattr(F, fn), *a, **kw)


def check_cases(rep: Report, cases, stream: str):
    cases = list(cases)
    lines = ["fn " + fn + " " + enc_args({k: v for k, v in kw.items()}) for fn, kw, _ in cases]
    outs = run_driver(lines)
    nbad = 0
    for (fn, kw, tag), o in zip(cases, outs):
        real = real_call(fn, kw)
        model = dec_out(o)
        rep.count(f"{fn}")
        rep.count(f"size:{tag[0]}")
        if real[0] == "err":
            rep.count(f"err:{real[1]}")
        labs = kw["target"].reshape(-1).tolist()
        nontriv = len(set(labs)) > 1 or len(labs) == 1
        rep.case(nontrivial_key=(fn, repr(kw_json(fn, kw))) if nontriv else None,
                 sample={"request": lines[0], "model": outs[0]} if rep.evaluations == 0 else None)
        msg = outcomes_agree(real, model)
        rep.traces += 1
        if msg is None:
            continue
        nbad += 1
        agrees, exp = textbook_verdict(fn, kw, real)
        replay = {"kind": "functional", "case": case_desc(fn, kw), "real": real[1] if real[0] == "err" else [t.tolist() for t in real[1]],
                  "model": o, "textbook": [str(x) for x in exp] if exp else None, "mismatch": msg}
        if agrees is False:
            rep.violation(*textbook_violation(fn, kw, real, exp, {"model": o, "mismatch": msg}))
        else:
            rep.broke(f"correspondence:{stream}:{fn}", f"model and implementation disagree ({msg}); textbook oracle "
                      + ("agrees with the implementation" if agrees else "does not cover this case"), replay)
        if nbad > 25:
            break
    rep.streams[stream] = {"cases": len(cases), "disagreements": nbad}



# ------------------------------------------------------------------ storage-dtype stream

NARROW_INT = [torch.uint8, torch.int8, torch.int16, torch.int32]
LOWP = [torch.float16, torch.bfloat16, torch.float64]


def dtype_cases(rng: Rng, tier):
    """(fn, reference kwargs [int64 labels / float32 scores], variant kwargs [same VALUES in another storage dtype])
    Segmentation masks arrive as uint8, autocast scores as float16 / bfloat16: a count or a ratio of counts does not depend on
    how its labels and scores are stored (every value used here is exactly representable in every dtype it is stored in)."""
    mc = ["multiclass_accuracy", "multiclass_precision", "multiclass_recall", "multiclass_f1_score", "multiclass_confusion_matrix"]
    reps = 6 if tier == "thorough" else 2
    for _ in range(reps):
        # (a) many classes, labels as predictions: class index x num_classes passes 255
        for fn in mc:
            C, n = 20, 96
            ps, ls = [rng.randrange(C) for _ in range(n)], [rng.randrange(C) for _ in range(n)]
            kw = {"input": it(ps), "target": it(ls), "num_classes": C}
            if fn == "multiclass_confusion_matrix":
                kw["normalize"] = rng.choice([None, "all", "pred", "true"])
            else:
                kw["average"] = rng.choice(["micro", "macro", None] if fn == "multiclass_accuracy" else AVGS)
            for dt in NARROW_INT:
                v = dict(kw)
                v["target"] = kw["target"].to(dt)
                if rng.random() < 0.5:
                    v["input"] = kw["input"].to(dt)
                yield fn, kw, v, ("labels", str(dt))
        # (b) logits with narrow targets; low-precision logits (3-level grid: exact in every float dtype), k > 1 included
        L3 = [Fr(0), Fr(1, 2), Fr(1)]
        for fn in mc:
            C = 3
            for dt, n in [(torch.uint8, 40), (torch.int32, 40), (torch.float16, 4500), (torch.bfloat16, 700), (torch.float64, 300)]:
                rows = [rng.grid(C, L3) for _ in range(n)]
                ls = [rng.randrange(C) for _ in range(n)]
                kw = {"input": ft([x for r in rows for x in r], shape=(n, C)), "target": it(ls), "num_classes": C}
                if fn == "multiclass_confusion_matrix":
                    kw["normalize"] = rng.choice([None, "all", "pred", "true"])
                else:
                    kw["average"] = rng.choice(["micro", "macro", None] if fn == "multiclass_accuracy" else AVGS)
                    if fn == "multiclass_accuracy":
                        kw["k"] = rng.choice([1, 2, 2])
                v = dict(kw)
                if dt.is_floating_point:
                    v["input"] = kw["input"].to(dt)
                else:
                    v["target"] = kw["target"].to(dt)
                yield fn, kw, v, ("logits", str(dt))
        # (c) binary: narrow / bool targets, low-precision scores past 256 and 2048 samples
        for fn in ["binary_accuracy", "binary_precision", "binary_recall", "binary_f1_score", "binary_confusion_matrix"]:
            for dt, n in [(torch.uint8, 50), (torch.int8, 50), (torch.int32, 50), (torch.bool, 50), (torch.uint8, 300), (torch.int8, 200), (torch.bool, 300), (torch.float16, 2300), (torch.bfloat16, 600), (torch.float64, 300)]:
                kw = {"input": ft(rng.grid(n)), "target": it([rng.choice([0, 1]) for _ in range(n)]), "threshold": float(rng.choice(G5))}
                v = dict(kw)
                if dt.is_floating_point:
                    v["input"] = kw["input"].to(dt)
                else:
                    v["target"] = kw["target"].to(dt)
                yield fn, kw, v, ("binary", str(dt))
        # (e) binary scores given as INTEGER tensors (ratings 0..5, hard 0/1 predictions, bool masks) with thresholds inside and
        #     outside (0, 1]: the prediction is `score >= threshold` whatever the storage dtype of the score
        for fn in ["binary_accuracy", "binary_precision", "binary_recall", "binary_f1_score", "binary_confusion_matrix"]:
            for dt, hi, thrs in [(torch.int64, 5, [0.0, 1.0, 2.0, 3.0, 2.5, 0.5]), (torch.int32, 1, [0.0, 0.5, 1.0, 2.0]), (torch.bool, 1, [0.0, 0.5, 1.0, 2.0])]:
                n = 24
                xs = [rng.randint(0, hi) for _ in range(n)]
                kw = {"input": ft(xs), "target": it([rng.choice([0, 1]) for _ in range(n)]), "threshold": float(rng.choice(thrs))}
                yield fn, kw, {**kw, "input": kw["input"].to(dt)}, ("int-scores", str(dt))
        # (f) two classes with the labels stored as bool (class ids False / True): counts must not inherit the label dtype
        for fn, avg in [("multiclass_accuracy", "micro"), ("multiclass_precision", "micro"), ("multiclass_recall", "micro"), ("multiclass_f1_score", "micro")]:
            for n in (7, 12, 300):
                ps, ls = [rng.choice([0, 1]) for _ in range(n)], [rng.choice([0, 1]) for _ in range(n)]
                kw = {"input": it(ps), "target": it(ls), "num_classes": 2, "average": avg}
                yield fn, kw, {**kw, "target": kw["target"].to(torch.bool)}, ("bool-class-ids", "torch.bool")
                rows = [rng.grid(2, L3) for _ in range(n)]
                kw = {"input": ft([x for r in rows for x in r], shape=(n, 2)), "target": it(ls), "num_classes": 2, "average": avg}
                yield fn, kw, {**kw, "target": kw["target"].to(torch.bool)}, ("bool-class-ids-logits", "torch.bool")
        # (d) multilabel / top-k multilabel: 0/1 label masks in narrow dtypes
        for crit in ["exact_match", "hamming", "overlap", "contain", "belong"]:
            for dt in [torch.uint8, torch.int8, torch.int32, torch.bool]:
                n, L = 12, 4
                ys = [rng.choice([0, 1]) for _ in range(n * L)]
                kw = {"input": ft(rng.grid(n * L), shape=(n, L)), "target": it(ys, shape=(n, L)), "threshold": float(rng.choice([Fr(1, 4), Fr(1, 2)])), "criteria": crit}
                yield "multilabel_accuracy", kw, {**kw, "target": kw["target"].to(dt)}, ("multilabel", str(dt))
                rows = [x for _r in range(n) for x in rng.sample([Fr(i, 16) for i in range(16)], L)]
                kw = {"input": ft(rows, shape=(n, L)), "target": it(ys, shape=(n, L)), "criteria": crit, "k": rng.choice([2, 3])}
                yield "topk_multilabel_accuracy", kw, {**kw, "target": kw["target"].to(dt)}, ("topk-multilabel", str(dt))


def dtype_verdict(fn, kw_ref, kw_var):
    """(holds: True | False | None = the variant dtype is refused or nothing to compare with, expected values, real outcome).
    Expected: direct counting on the reference kwargs where the textbook oracle covers the function, else the real
    function on the reference kwargs (int64 labels, float32 scores — the form the model stream checks)."""
    real = real_call(fn, kw_var)
    if real[0] != "ok":
        return None, None, real
    exp = oracle(fn, kw_ref)
    if exp is not None:
        return oracle_agrees(real, exp), [float(x) for x in exp], real
    ref = real_call(fn, kw_ref)
    if ref[0] != "ok" or len(ref[1]) != len(real[1]):
        return None, None, real
    ok = all(a.shape == b.shape and torch.allclose(a.to(torch.float64), b.to(torch.float64), rtol=2e-5, atol=1e-7, equal_nan=True) for a, b in zip(real[1], ref[1]))
    return ok, [t.reshape(-1).to(torch.float64).tolist() for t in ref[1]], real


def dtype_stream(rep: Report, rng: Rng):
    for fn, kw, v, tag in dtype_cases(rng, rep.tier):
        holds, exp, real = dtype_verdict(fn, kw, v)
        rep.case(nontrivial_key=("dtype", fn, tag, repr(kw_json(fn, kw))[:200]))
        rep.count(f"dtype-stream:{tag[0]}:{tag[1].replace('torch.', '')}")
        if holds is None:
            rep.count(f"dtype-stream:refused-or-uncovered:{fn}:{tag[1].replace('torch.', '')}")
        elif holds is False:
            rj = [t.reshape(-1)[:16].tolist() for t in real[1]]
            rep.violation(f"C04|{fn}|{tag[1].replace('torch.', '')}-{tag[0]}|differs-from-textbook",
                          f"{fn} on {tag[1]} {tag[0]} returns {rj} where the same values stored as int64 labels / float32 scores give {str(exp)[:300]}",
                          {"kind": "dtype", "fn": fn, "reference": case_desc(fn, kw), "variant": case_desc(fn, v)})
            return

# ------------------------------------------------------------------ kernel stream (generated terms vs the real kernels)

KERNEL_CHAIN = {   # functional -> (update kernel, compute kernel) as ids of harness/translators/kernels.py
    "binary_accuracy": ("binary_accuracy_update", "accuracy_compute"),
    "binary_precision": ("binary_precision_update", "precision_compute"),
    "binary_recall": ("binary_recall_update", "binary_recall_compute"),
    "binary_f1_score": ("binary_f1_score_update", "f1_score_compute"),
    "binary_confusion_matrix": ("binary_confusion_matrix_update", "confusion_matrix_compute"),
    "multiclass_accuracy": ("multiclass_accuracy_update", "accuracy_compute"),
    "multiclass_precision": ("precision_update", "precision_compute"),
    "multiclass_recall": ("recall_update", "recall_compute"),
    "multiclass_f1_score": ("f1_score_update", "f1_score_compute"),
    "multiclass_confusion_matrix": ("confusion_matrix_update", "confusion_matrix_compute"),
    "multilabel_accuracy": ("multilabel_accuracy_update", "accuracy_compute"),
}
KERNEL_TWINS = {"f1_score_update": "f1_score__update", "confusion_matrix_update": "confusion_matrix__update"}   # wrapper -> jit helper, same arguments


def translate(rep: Report):
    """(T) regenerate lean/TE/Gen/Kernels.lean from the kernels' source (TE.Props.C04_Kernels is proved about it)"""
    from ..translators import kernels
    from ..common import LEAN
    rows = kernels.generate(rep)
    # every translated kernel must be the subject of a theorem of TE/Props/C04_Kernels.lean
    props = (LEAN / "TE" / "Props" / "C04_Kernels.lean").read_text()
    for r in rows:
        if r["term"] is not None and f"Gen.k_{r['id']}" not in props.replace(f"Gen.k_{r['id']}_", ""):
            rep.broke(f"kernels:{r['id']}", f"kernel {r['func']} is translated but no theorem of TE/Props/C04_Kernels.lean is about Gen.k_{r['id']}", {})


def kenc(v) -> str:
    """typed argument syntax of the `gen.<kernel>` requests (TE/Driver/Kernels.lean)"""
    from ..common import enc_tensor, fq
    if isinstance(v, torch.Tensor):
        return enc_tensor(v)
    if v is None:
        return "none"
    if isinstance(v, bool):
        return "b.true" if v else "b.false"
    if isinstance(v, int):
        return f"i.{v}"
    if isinstance(v, float):
        return "q." + fq(v)
    if isinstance(v, str):
        return "s." + v
    raise TypeError(f"kernel argument {v!r}")


def kernel_rows():
    import importlib
    from ..translators import kernels
    rows = {r["id"]: r for r in kernels.facts()}
    for r in rows.values():
        if "fn" not in r:
            try:
                mod = importlib.import_module(f"torcheval.metrics.functional.classification.{r['module']}")
                r["fn"] = getattr(mod, r["func"], None)
            except Exception:  # noqa: BLE001
                r["fn"] = None
    return rows


def kernel_calls(rows, fn, kw):
    """the kernel calls behind one functional case: [(kernel id, kwargs, real outcome)] — the update kernel on the
    case's arguments (defaults made explicit), its jit twin, then the compute kernel on what the REAL update returned"""
    up, comp = KERNEL_CHAIN[fn]
    out = []
    if rows[up]["term"] is None or rows[up].get("fn") is None:
        return out
    a = {}
    for name in rows[up]["params"]:
        if name in kw:
            a[name] = kw[name]
        elif name in rows[up]["defaults"]:
            a[name] = rows[up]["defaults"][name]
        else:
            a[name] = {"average": "micro", "num_classes": None, "k": 1}[name]
    if a.get("average") in ("none", "None") and fn != "multiclass_precision":
        a["average"] = None          # what the public functions hand to the kernels (only `_precision_compute` knows "None")
    real = call_real(rows[up]["fn"], **a)
    out.append((up, a, real))
    tw = KERNEL_TWINS.get(up)
    if tw and rows[tw]["term"] is not None and rows[tw].get("fn") is not None:
        out.append((tw, a, call_real(rows[tw]["fn"], **a)))
    if real[0] != "ok" or rows[comp]["term"] is None or rows[comp].get("fn") is None:
        return out
    cp, res = rows[comp]["params"], real[1]
    if comp == "binary_recall_compute":
        b = dict(zip(cp, res))
    elif comp == "accuracy_compute":
        b = {cp[0]: res[0], cp[1]: res[1], cp[2]: a.get("average", "micro")}
    elif comp == "confusion_matrix_compute":
        b = {cp[0]: res[0], cp[1]: kw.get("normalize")}
        if b[cp[1]] == "none":
            b[cp[1]] = None
    else:
        b = {cp[0]: res[0], cp[1]: res[1], cp[2]: res[2], cp[3]: a.get("average", "micro")}
    out.append((comp, b, call_real(rows[comp]["fn"], **b)))
    if comp == "confusion_matrix_compute" and rows["binary_confusion_matrix_compute"]["term"] is not None \
            and fn == "binary_confusion_matrix" and rows["binary_confusion_matrix_compute"].get("fn") is not None:
        bb = {"cm": res[0], "normalize": b[cp[1]]}
        out.append(("binary_confusion_matrix_compute", bb, call_real(rows["binary_confusion_matrix_compute"]["fn"], **bb)))
    return out


def kernel_extra_cases(rng: Rng, tier):
    """inputs the functional generators do not produce: labels / predictions outside [0, num_classes) (`scatter_`
    raises), 0/1 matrices fed to `_multilabel_update` directly"""
    for _ in range(300 if tier == "thorough" else 60):
        C, n = rng.choice([2, 3]), rng.choice([1, 2, 4])
        ls = [rng.randrange(C + 1) for _ in range(n)]
        ps = [rng.randrange(C + 1) for _ in range(n)]
        # never the confusion-matrix kernels: this torch build does not validate COO indices, an index outside the
        # size makes `to_dense()` write out of bounds (C14's subject; must not happen in-process)
        fn = rng.choice(["multiclass_accuracy", "multiclass_precision", "multiclass_recall", "multiclass_f1_score"])
        kw = {"input": it(ps), "target": it(ls), "num_classes": C}
        kw["average"] = rng.choice(["micro", "macro", None] if fn == "multiclass_accuracy" else AVGS)
        yield fn, kw
    for _ in range(300 if tier == "thorough" else 60):
        n, L = rng.choice([1, 2, 3]), rng.choice([1, 2, 3])
        yield "multilabel_update", {"input": it([rng.choice([0, 1]) for _ in range(n * L)], shape=(n, L)),
                                    "target": it([rng.choice([0, 1]) for _ in range(n * L)], shape=(n, L)),
                                    "criteria": rng.choice(["exact_match", "hamming", "overlap", "contain", "belong"])}


def kernel_stream(rep: Report, rng: Rng):
    """the GENERATED term of every translated kernel (request `gen.<kernel>`) against the REAL private kernel function
    on the same arguments.  A disagreement is a broken correspondence between the source and its translation
    (`kernels:<name>`), never a violation by itself."""
    rows = kernel_rows()
    cap = 40000 if rep.tier == "thorough" else 7000
    todo = []
    for fn, kw, _tag in all_cases(rng, rep.tier):
        if fn in KERNEL_CHAIN and len(todo) < cap:
            todo.append((fn, kw))
    calls = []
    for fn, kw in todo:
        calls += kernel_calls(rows, fn, kw)
    for fn, kw in kernel_extra_cases(rng, rep.tier):
        if fn == "multilabel_update":
            if rows[fn]["term"] is not None and rows[fn].get("fn") is not None:
                calls.append((fn, kw, call_real(rows[fn]["fn"], **kw)))
        else:
            calls += kernel_calls(rows, fn, kw)
    # a ValueError / TypeError comes from the `_input_check` at the top of the kernel, which the translation skips (C18)
    calls = [c for c in calls if not (c[2][0] == "err" and c[2][1] in ("ValueError", "TypeError"))]
    lines = [f"fn gen.{kid} " + " ".join(f"{k}={kenc(v)}" for k, v in a.items()) for kid, a, _ in calls]
    outs = run_driver(lines)
    nbad = {}
    for (kid, a, real), line, o in zip(calls, lines, outs):
        rep.count(f"kernel-stream:{kid}")
        if real[0] == "err":
            rep.count(f"kernel-stream:err:{real[1]}")
        rep.case(nontrivial_key=("kernel", line), sample={"request": line[:300], "model": o[:200]} if rep.dist.get(f"kernel-stream:{kid}") == 1 and kid.endswith("compute") else None)
        rep.traces += 1
        msg = outcomes_agree(real, dec_out(o))
        if msg is None:
            continue
        nbad[kid] = nbad.get(kid, 0) + 1
        if nbad[kid] <= 3:
            rep.broke(f"kernels:{kid}", f"the term generated from the source of {rows[kid]['module']}.{rows[kid]['func']} and the real function disagree ({msg}) "
                      f"on {line[:400]}", {"kind": "kernel", "kernel": kid, "request": line, "generated": o,
                                           "real": real[1] if real[0] == "err" else [t.tolist() for t in real[1]]})
    untr = [k for k, r in rows.items() if r["term"] is None]
    rep.streams["kernels"] = {"cases": len(calls), "disagreements": sum(nbad.values()), "untranslated": untr}


def run(rep: Report):
    rng = Rng(rep.seed * 1000003 + 4)
    from .. import opscheck; opscheck.check_ops(rep, ["count"])
    check_cases(rep, all_cases(rng, rep.tier), "functional")
    dtype_stream(rep, Rng(rep.seed * 1000003 + 44))
    kernel_stream(rep, Rng(rep.seed * 1000003 + 444))


def search(rep: Report):
    """the proof or the correspondence broke: look for an input where the real code
    leaves the textbook value (thorough-size space, oracle only)."""
    rng = Rng(rep.seed * 7919 + 404)
    n = 0
    for fn, kw, tag in all_cases(rng, "thorough"):
        n += 1
        if n > 60000:
            break
        if oracle(fn, kw) is None:
            continue
        real = real_call(fn, kw)
        agrees, exp = textbook_verdict(fn, kw, real)
        if agrees is False:
            rep.violation(*textbook_violation(fn, kw, real, exp))
            return


def _nothing(reason):
    raise ValueError(f"nothing to replay: {reason}")


def replay(payload) -> bool:
    """True iff the property holds on the recorded functional call: it is rebuilt from its description (tensors with their
    recorded dtype and shape, parameters as recorded), run on the real code and judged by `textbook_verdict`."""
    if not isinstance(payload, dict) or payload.get("kind", "failing-input") != "failing-input":
        _nothing(f"payload kind {payload.get('kind') if isinstance(payload, dict) else None!r} carries no concrete input")
    r = payload.get("replay")
    if not isinstance(r, dict) or not r:
        _nothing("the payload carries no replay dict")
    if r.get("kind") == "dtype":
        if not all(isinstance(r.get(k), dict) and "fn" in r[k] for k in ("reference", "variant")):
            _nothing("dtype payload without its reference and variant calls")
        fn, kw = case_from_desc(r["reference"])
        _fn, v = case_from_desc(r["variant"])
        holds, exp, real = dtype_verdict(fn, kw, v)
        if holds is None:
            _nothing("the variant dtype is refused by the function (not a wrong value)")
        if holds is False:
            print(f"replay: {fn} on the variant dtype returns {[t.reshape(-1)[:8].tolist() for t in real[1]]}, expected {str(exp)[:200]}"[:600])
        return holds is True
    c = r.get("case")
    if r.get("kind") != "functional" or not isinstance(c, dict):
        _nothing(f"replay kind {r.get('kind')!r}: not a functional case" + (" (case recorded without tensor dtypes, old format)" if isinstance(c, dict) else ""))
    if "fn" not in c or not isinstance(c.get("kwargs"), dict) or not all(is_tdesc(c["kwargs"].get(k)) for k in ("input", "target")):
        _nothing("functional payload without a case description {fn, kwargs: tensors with dtype and shape}")
    fn, kw = case_from_desc(c)
    if not hasattr(F, fn):
        _nothing(f"unknown functional {fn!r}")
    real = real_call(fn, kw)
    agrees, exp = textbook_verdict(fn, kw, real)
    if agrees is None:
        _nothing(f"direct counting does not cover this {fn} call")
    if agrees is False:
        print(f"replay: {textbook_violation(fn, kw, real, exp)[1]}"[:600])
    return agrees is True
