"""C12 — results depend only on the multiset of samples, not on batching or order.
(D) real vs real: one update with all samples vs every composition into batches (n ≤ 5
exhaustive, random beyond), batches of one, and (aggregate metrics) permutations."""
from __future__ import annotations
import itertools, time
from ..common import Rng, Report, budget
from ..registry import SPECS, Spec, Batch, fresh_cfg, public_cfg, cat_batches, split_batch, batch_len, permute_batch, bool_label_variant, fine_variant
import torch
from ..engine import observe, same_obs, obs_json, fed

LEVEL = "proof"
RULE = ("for a fixed sample set: all compositions of n ≤ 5 into batch sizes, batches of one, one huge batch, random compositions of "
        "larger n, and (for aggregate metrics) sample permutations; non-trivial = distinct (class, config, sample set) with n ≥ 2")
MODELLED = ["float rounding (grid values keep float32 sums exact; transcendental metrics use tolerance)"]
ASSUMPTIONS = ["retrieval streams are tie-free (torch.topk tie order is documented as unspecified)",
               "AUC streams have distinct x per task (tied x makes the stably-sorted trapezoid order-dependent by definition)",
               "MSE/R2/Covariance streams keep one output arity"]


def compositions(n):
    for k in range(n):
        for cuts in itertools.combinations(range(1, n), k):
            pts = [0, *cuts, n]
            yield [pts[i + 1] - pts[i] for i in range(len(pts) - 1)]


def is_ordered(spec, cfg):
    return spec.kind == "ordered" or spec.per_sample or (spec.name == "AUC" and cfg.get("reorder") is False)


def check_one(rep: Report, rng: Rng, spec: Spec, cfg0: dict, exhaustive: bool):
    cfg = fresh_cfg(cfg0)
    n_target = rng.choice([2, 3, 4, 5]) if exhaustive else rng.choice([6, 9, 16, 33])
    n_target = max(n_target, spec.min_samples)
    # build one batch of exactly n samples by concatenating generated batches and trimming
    bs = []
    total = 0
    while total < n_target:
        b = spec.gen(rng, cfg, rng.choice(spec.sizes))
        bs.append(b); total += batch_len(spec, b) or 0
        if batch_len(spec, b) is None:
            return
    whole = cat_batches(spec, bs)
    if whole is None:
        return
    whole = split_batch(spec, whole, [n_target])[0]
    # storage / value variants of the SAME sample set (the relation is between two feedings of one set, so any valid set serves):
    #  bool labels (a per-batch count must not inherit the label dtype), float64 data split below float32 resolution, and — for the
    #  aggregation family, whose documented behaviour is to propagate it — one NaN among the values (every batching must then agree on NaN)
    mode = rng.choice(["plain", "plain", "plain", "bool-labels", "f64-fine", "nan"])
    if mode == "bool-labels":
        v = bool_label_variant(whole)
        if v is not None:
            try:
                fed(spec, cfg, [v]); whole = v; rep.count("variant:bool-labels")
            except Exception:  # noqa: BLE001
                rep.count("variant:bool-labels-rejected")
    elif mode == "f64-fine":
        whole = fine_variant(whole); rep.count("variant:f64-fine")
    elif mode == "nan" and spec.family == "agg" and spec.name in ("Max", "Min", "Mean", "Sum") and n_target >= 2:
        a0 = whole.args[0]
        if isinstance(a0, torch.Tensor) and a0.is_floating_point() and a0.numel() >= 2:
            a0 = a0.clone(); a0.reshape(-1)[rng.randrange(a0.numel())] = float("nan")
            whole = Batch((a0, *whole.args[1:]), dict(whole.kwargs)); rep.count("variant:nan")
    base = observe(fed(spec, cfg, [whole]))
    comps = list(compositions(n_target)) if exhaustive else [[1] * n_target] + [rand_comp(rng, n_target) for _ in range(4)]
    key = (spec.name, repr(public_cfg(cfg)), repr(whole.describe()))
    rep.case(nontrivial_key=key if n_target >= 2 else None,
             sample={"class": spec.name, "cfg": public_cfg(cfg), "n": n_target, "compositions": len(comps)} if rep.evaluations % 211 == 0 else None)
    rep.count(f"class:{spec.name}"); rep.count(f"n:{n_target}")
    for comp in comps:
        rep.evaluations += 1
        v = batching_oracle(spec, cfg, whole, base, comp)
        if v:
            rep.violation(*v)
            return
    if not is_ordered(spec, cfg) and spec.kind != "retrieval_ordered":
        perms = list(itertools.permutations(range(n_target))) if n_target <= 4 and exhaustive else [rand_perm(rng, n_target) for _ in range(4)]
        for perm in perms[:24]:
            comp = rand_comp(rng, n_target)
            rep.evaluations += 1
            v = order_oracle(spec, cfg, whole, base, list(perm), comp)
            if v:
                rep.violation(*v)
                return


def batching_oracle(spec: Spec, cfg: dict, whole, base, comp):
    """`whole` (all samples in one update, observed as `base`) against the same samples fed as batches of sizes `comp`.
    None when the results agree, else (signature, what, replay dict).  Used by the sweep and by replay()."""
    n = sum(comp)
    parts = split_batch(spec, whole, comp)
    try:
        o = observe(fed(spec, cfg, parts))
    except Exception as e:  # noqa: BLE001
        o = ("err", type(e).__name__, repr(e)[:120])
    if not same_obs(base, o, spec.tol):
        return (f"C12|{spec.name}|batching-changes-result",
                f"{spec.name}{public_cfg(cfg)}: one batch of {n} samples gives {obs_json(base)} but batch sizes {comp} give {obs_json(o)}",
                {"class": spec.name, "cfg": public_cfg(cfg), "samples": whole.describe(), "batch_sizes": comp,
                 "single": obs_json(base), "batched": obs_json(o)})
    return None


def order_oracle(spec: Spec, cfg: dict, whole, base, perm, comp):
    """`whole` in one update (`base`) against the samples permuted by `perm` and fed as batches of sizes `comp`."""
    pb = permute_batch(spec, whole, list(perm))
    o = observe(fed(spec, cfg, split_batch(spec, pb, comp)))
    if not same_obs(base, o, spec.tol):
        return (f"C12|{spec.name}|order-changes-result",
                f"{spec.name}{public_cfg(cfg)}: samples in order give {obs_json(base)}, permuted by {list(perm)} (batches {comp}) give {obs_json(o)}",
                {"class": spec.name, "cfg": public_cfg(cfg), "samples": whole.describe(), "perm": list(perm), "batch_sizes": comp,
                 "single": obs_json(base), "permuted": obs_json(o)})
    return None


def rand_comp(rng, n):
    out = []
    while n > 0:
        k = rng.randint(1, n)
        out.append(k); n -= k
    return out


def rand_perm(rng, n):
    p = list(range(n)); rng.shuffle(p); return p


def sweep(rep: Report, rng: Rng, reps: int, deadline: float):
    for spec in SPECS:
        if spec.kind in ("window", "throughput") or spec.cat is None:
            continue
        for cfg0 in spec.configs:
            for r in range(reps):
                if time.time() > deadline:
                    rep.notes.append("budget exhausted")
                    return
                check_one(rep, rng, spec, cfg0, exhaustive=(r % 2 == 0))


# (T) harness/translators/plumbing.py → lean/TE/Gen/Plumbing.lean; theorems in lean/TE/Props/C12_Plumb.lean.
from ..translators import plumbing as plumbing_tr  # noqa: E402

TRUSTED_EXTRA = ["harness/translators/plumbing.py (symbolic execution of update / merge_state / compute of every class) producing "
                 "lean/TE/Gen/Plumbing.lean; its dynamic cross-check runs in C01"]


def translate(rep: Report):
    plumbing_tr.generate(rep)


def run(rep: Report):
    rng = Rng(rep.seed * 1000003 + 12)
    sweep(rep, rng, 12 if rep.tier == "quick" else 30, time.time() + budget(rep.tier, 60, 800))


def search(rep: Report):
    rng = Rng(rep.seed * 17 + 1212)
    sweep(rep, rng, 12, time.time() + 120)


def replay(payload) -> bool:
    """True iff the property holds on the recorded case: the sample set is rebuilt, fed in one update and as the recorded
    batch sizes (of the recorded permutation, when there is one), judged by the sweep's oracle functions."""
    rp = payload.get("replay") or {}
    if payload.get("kind", "failing-input") != "failing-input" or not {"class", "cfg", "samples", "batch_sizes"} <= set(rp):
        raise ValueError(f"nothing to replay: payload kind {payload.get('kind')!r} carries no case (class, cfg, samples, batch_sizes)")
    from ..registry import BY_NAME, Batch
    spec, cfg = BY_NAME[rp["class"]], dict(rp["cfg"])
    whole = Batch.from_describe(rp["samples"])
    comp = [int(k) for k in rp["batch_sizes"]]
    n = batch_len(spec, whole)
    if n is None or sum(comp) != n or ("perm" in rp and sorted(rp["perm"]) != list(range(n))):
        raise ValueError(f"nothing to replay: batch sizes {comp} / permutation do not fit the {n} recorded samples")
    base = observe(fed(spec, cfg, [whole]))
    if "perm" in rp:
        v = order_oracle(spec, cfg, whole, base, [int(i) for i in rp["perm"]], comp)
    else:
        v = batching_oracle(spec, cfg, whole, base, comp)
    if v is not None:
        print(f"replay: {v[0]}: {v[1]}"[:600])
    return v is None
