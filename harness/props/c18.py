"""C18 — shape contract: inconsistent sample counts are rejected, never broadcast.

(T) harness/translators/shapes.py regenerates lean/TE/Gen/Shapes.lean (one Lean function per
    `_*_input_check` / `_*_param_check` helper) from /repo's working tree; TE/Props/C18.lean proves,
    for all shapes, what each generated check accepts, that every documented shape is accepted
    and which named patterns are accepted although undocumented.
(D) this module, for every functional and every class update():
    from documented-valid calls (1-D vs (1,N), labels vs scores, weights present/absent,
    num_tasks 1 vs 2) derive all shape tuples obtained by dropping / adding / resizing ONE
    dimension of ONE argument (and the same operation applied to all arguments of that shape
    together), then
      (i)   every invocation of a check helper seen during the real calls, plus a direct
            enumeration of small shape tuples per helper: the real helper raises  ⇔  the generated
            Lean check (driver request `chk.<helper>`) rejects, with the same exception kind;
      (ii)  THE PROPERTY: the real call returned a value ⇒ the shape tuple is valid by the documented
            contract (Python table below, cross-checked against Lean `Valid_<stem>`), otherwise
            violation `C18|<entry>|<pattern>|accepted-and-returned`;
      (iii) completeness: valid ⇒ the real call returns, otherwise `…|valid-input-rejected`."""
from __future__ import annotations
import inspect, itertools, sys, time
from dataclasses import dataclass, field
from typing import Callable
import torch
from ..common import Rng, Report, run_driver, budget, err_kind
from ..translators import shapes as shapes_tr
import torcheval.metrics as M
import torcheval.metrics.functional as F
from torcheval.metrics.statistical import Wasserstein1D
from torcheval.metrics.functional.statistical.wasserstein import wasserstein_1d

LEVEL = "proof"
RULE = ("every functional of torcheval.metrics.functional.__all__ and every class update() (+compute()): documented-valid base calls "
        "(1-D vs (1,N), labels vs scores, weights present/absent, num_tasks 1 vs 2, extents 3/2) × {drop dim j, add leading/trailing dim of "
        "size 1/2, resize dim j to 1/2/3, 0-dim} applied to one argument or to all arguments of that shape together (ndim ≤ 4, extents ≤ 3); "
        "values always legal for their role (probabilities, labels < classes, positive weights); per helper additionally a direct enumeration "
        "of shape tuples (ndim ≤ 3, extents ≤ 3) × parameter values; non-trivial = distinct (entry, config, shape tuple) that raised")
MODELLED = ["value-dependent conditions of the check helpers (label ranges, probabilities in [0,1], dtypes, devices, float parameters) are Boolean "
            "oracle parameters of the generated Lean functions; their values are read off the running real helper",
            "the theorems are about the check helpers; that an accepted-but-undocumented pattern raises later in the call is shown by running "
            "the real call on instances of the pattern, not proved"]
ASSUMPTIONS = ["documented contract = the Args section of the functional / update() docstring plus its examples; for num_tasks = 1 the layout (1, n) is valid "
               "for binary_auprc / binary_binned_auprc / AUC (documented and accepted) and NOT part of the contract of the functions whose check says "
               "'`num_tasks = 1`, `input` is expected to be one-dimensional' (binary_auroc, binary_binned_auroc, binary_normalized_entropy, "
               "weighted_calibration, click_through_rate, retrieval_precision/recall, windowed twins) — the upstream suite asserts that raise; "
               "metrics that reduce over all elements and document no rank (mean, sum, max, min, psnr, whose own example is 2-D) are valid for any "
               "rank with equal shapes; a single string against a list of one string (text metrics) is left unspecified",
               "a call that raises ANY exception satisfies the property; a class entry is update() followed by compute(); completeness (valid ⇒ accepted) "
               "is about the call that receives the shapes: a compute() failure after an accepted update() (e.g. a one-sample window, C13) is not counted",
               "documented data requirements that are not shapes (r2_score / Covariance need two samples, top-k needs k classes, empty input) excuse a rejection",
               "parameters have their annotated types (type(k) != int tests are constants in the translation)",
               "FrechetAudioDistance, FrechetInceptionDistance, StructuralSimilarity and Throughput (no tensor argument) are out of scope"]
TRUSTED_EXTRA = ["harness/translators/shapes.py (AST → Lean translation of the check helpers; validated on every run against the running helpers) "
                 "producing lean/TE/Gen/Shapes.lean",
                 "lean/TE/Spec/Shape.lean: reading of the docstrings (cross-checked against the independent Python table in harness/props/c18.py)"]

N, C, T2 = 3, 2, 2        # samples, classes/labels, tasks of the base calls


def translate(rep: Report):
    shapes_tr.generate(rep)


# ------------------------------------------------------------------ values by role

def build(role: str, shape, rng: Rng, cfg: dict, hi: int = 2, degenerate: bool = False):
    """a tensor (or text) of the given shape with values legal for the role (labels < hi);
    degenerate: all labels 0 (legal values that make many kernels return early)"""
    if shape is None:
        return None
    if degenerate and role in ("label", "flabel", "click", "index", "ids"):
        return torch.zeros(shape, dtype=torch.float32 if role == "flabel" else torch.int64)
    if role == "text":
        words = ["a", "b", "the", "cat"]
        sent = lambda: " ".join(rng.choice(words) for _ in range(rng.randint(2, 4)))
        return sent() if shape == () else [sent() for _ in range(shape[0])]
    if role == "refs":
        words = ["a", "b", "the", "cat"]
        sent = lambda: " ".join(rng.choice(words) for _ in range(rng.randint(2, 4)))
        return [sent()] if shape == () else [[sent()] for _ in range(shape[0])]
    numel = 1
    for d in shape:
        numel *= d
    if role == "prob":
        v = [rng.choice([0.125, 0.25, 0.5, 0.75, 0.875]) for _ in range(numel)]
        return torch.tensor(v, dtype=torch.float32).reshape(shape)
    if role == "real":
        v = [rng.choice([-1.0, -0.5, 0.0, 0.25, 0.5, 1.0, 2.0]) for _ in range(numel)]
        return torch.tensor(v, dtype=torch.float32).reshape(shape)
    if role == "weight":
        v = [rng.choice([0.5, 1.0, 2.0]) for _ in range(numel)]
        return torch.tensor(v, dtype=torch.float32).reshape(shape)
    if role in ("label", "click", "index", "ids"):
        top = 1 if (role == "label" and hi <= 1) else 2
        v = [rng.randrange(top) for _ in range(numel)]
        if numel >= 2 and role == "label" and top == 2:
            v[0], v[1] = 0, 1
        return torch.tensor(v, dtype=torch.int64).reshape(shape)
    if role == "flabel":
        v = [float(rng.choice([0, 1])) for _ in range(numel)]
        if numel >= 2:
            v[0], v[1] = 0.0, 1.0
        return torch.tensor(v, dtype=torch.float32).reshape(shape)
    if role == "cov":
        if len(shape) == 2 and shape[0] == shape[1]:
            return torch.eye(shape[0]) * 2.0
        return torch.ones(shape)
    raise ValueError(role)


# ------------------------------------------------------------------ the documented contract (independent Python table)

def v_1d(cfg, s):
    i, t = s["input"], s["target"]
    return len(i) == 1 and i == t


def v_multiclass(cfg, s):
    i, t = s["input"], s["target"]
    nc = cfg.get("num_classes")
    if len(t) != 1 or len(i) not in (1, 2) or i[0] != t[0]:
        return False
    if len(i) == 1:
        return cfg.get("k", 1) <= 1
    return nc is None or i[1] == nc


def v_scores(cfg, s):
    i, t = s["input"], s["target"]
    nc = cfg.get("num_classes")
    return len(i) == 2 and len(t) == 1 and i[0] == t[0] and (nc is None or i[1] == nc)


def v_multilabel(cfg, s):
    i, t = s["input"], s["target"]
    nl = cfg.get("num_labels")
    return len(i) == 2 and i == t and (nl is None or i[1] == nl)


def v_topk(cfg, s):
    return v_multilabel(cfg, s) and s["input"][1] >= cfg.get("k", 2)       # "k … top probabilities" needs k classes


def _tasks(shape, nt):
    return (len(shape) == 1 and nt == 1) or (len(shape) == 2 and shape[0] == nt)


def _tasks1(shape, nt):
    """functions whose check says "`num_tasks = 1`, `input` is expected to be one-dimensional": exactly (n,) for one task"""
    return (len(shape) == 1 and nt == 1) or (len(shape) == 2 and nt != 1 and shape[0] == nt)


def v_tasks(cfg, s):
    """binary_auprc, binary_binned_auprc: (n,) or (1, n) for one task, (T, n) otherwise"""
    i, t = s["input"], s["target"]
    return i == t and _tasks(i, cfg.get("num_tasks", 1))


def v_tasks1(cfg, s, wname=None):
    i, t = s["input"], s["target"]
    if i != t or not _tasks1(i, cfg.get("num_tasks", 1)):
        return False
    return wname is None or s.get(wname) is None or s[wname] == i


def v_tasks_weight(cfg, s):
    return v_tasks1(cfg, s, "weight")


def v_ctr(cfg, s):
    i = s["input"]
    return _tasks1(i, cfg.get("num_tasks", 1)) and (s.get("weights") is None or s["weights"] == i)


def v_regression(cfg, s):
    i, t = s["input"], s["target"]
    if i != t or len(i) not in (1, 2):
        return False
    w = s.get("sample_weight")
    return w is None or w == (i[0],)


def v_wmse(cfg, s):
    """windowed MSE: 1-D for num_tasks = 1, (n_sample, num_tasks) otherwise"""
    i = s["input"]
    nt = cfg.get("num_tasks", 1)
    return v_regression(cfg, s) and ((len(i) == 1 and nt == 1) or (len(i) == 2 and i[1] == nt and nt > 1))


def v_same(cfg, s):
    return s["input"] == s["target"]


def v_any_weight(cfg, s):
    w = s.get("weight")
    return w is None or w == s["input"]


def v_any(cfg, s):
    return True


def v_cat(cfg, s):
    return len(s["input"]) >= 1


def v_perplexity(cfg, s):
    i, t = s["input"], s["target"]
    return len(i) == 3 and len(t) == 2 and i[:2] == t


def v_rank1(cfg, s):
    return len(s["input"]) == 1


def _row(shape):
    """a 1-D argument is the one-row layout (1, n)"""
    return (1,) + shape if len(shape) == 1 else shape


def v_auc(cfg, s):
    x, y = _row(s["x"]), _row(s["y"])
    return x == y and len(x) == 2 and x[0] == cfg.get("n_tasks", 1) and 0 not in x       # "at least 1 element" is documented (Raises)


def v_auc_fn(cfg, s):
    x, y = _row(s["x"]), _row(s["y"])          # functional: each row its own curve
    return x == y and len(x) == 2 and 0 not in x


def v_wasserstein(cfg, s):
    x, y = s["x"], s["y"]
    return len(x) == 1 and len(y) == 1 and 0 not in x + y and s.get("x_weights") in (None, x) and s.get("y_weights") in (None, y)   # a distribution needs an observation


def v_text(cfg, s):
    i, t = s["input"], s["target"]
    if i != t and {i, t} == {(), (1,)}:
        return None                             # one string against a list of one string: same sample count, unspecified
    return i == t                               # both str (()) or lists of equal length


def v_bleu(cfg, s):
    """input: str | Sequence[str]; target: Sequence[str | Sequence[str]] with len(input) = len(target).
    encoding: input () = one string, (n,) = n strings; target () = [one reference string], (n,) = n reference lists"""
    cnt = lambda sh: 1 if sh == () else sh[0]
    i, t = s["input"], s["target"]
    return len(i) <= 1 and len(t) <= 1 and cnt(i) == cnt(t)


def v_cov(cfg, s):
    return len(s["obs"]) == 2


def v_retrieval_cls(cfg, s):
    i, t = s["input"], s["target"]
    if len(i) != 1 or i != t:
        return False
    if cfg.get("num_queries", 1) > 1:
        return s.get("indexes") == i
    return s.get("indexes") in (None, i)


def v_frechet(cfg, s):
    m1, c1, m2, c2 = s["mu_x"], s["cov_x"], s["mu_y"], s["cov_y"]
    return len(m1) == 1 and m1 == m2 and c1 == (m1[0], m1[0]) and c2 == c1


# ------------------------------------------------------------------ entries

@dataclass
class Entry:
    name: str                               # functional name or `Class.update`
    call: Callable                          # (cfg, args dict) -> value
    roles: dict                             # arg name -> role
    bases: list                             # [(label, cfg, {arg: shape|None})]
    valid: Callable                         # (cfg, shapes) -> bool
    stem: str | None = None                 # check helper stem for the Lean Valid / gap cross-check
    min_samples: int = 1                    # documented "needs at least k samples" (dimension 0 of the first argument)

    def role(self, a, shapes):
        r = self.roles.get(a)
        return r(shapes) if callable(r) else r

    def label_hi(self, shapes):
        """labels must index the class dimension of the scores actually passed"""
        i = shapes.get("input")
        if i is not None and len(i) >= 2 and self.role("input", shapes) in ("prob", "real") and self.role("target", shapes) == "label" and self.stem not in (
                "multilabel_accuracy", "topk_multilabel_accuracy", "multilabel_auprc", "multilabel_binned_auprc", "multilabel_precision_recall_curve",
                "multilabel_recall_at_fixed_precision", "binary_auroc", "binary_auprc", "binary_binned_auroc", "binary_binned_auprc", "retrieval_precision", "retrieval_recall"):
            return i[-1]
        return 2


ENTRIES: list[Entry] = []


def E(name, call, roles, bases, valid, stem=None):
    ENTRIES.append(Entry(name, call, roles, bases, valid, stem))


class ComputeStage(Exception):
    """update() accepted the arguments; compute() raised (not a rejection of the call that received the shapes)"""

    def __init__(self, exc):
        super().__init__(repr(exc))
        self.exc = exc


def upd_compute(m, args, kwargs=None):
    m.update(*args, **(kwargs or {}))
    try:
        return m.compute()
    except Exception as e:  # noqa: BLE001
        raise ComputeStage(e) from e


def fn_call(f, pos, kwnames=(), cfgkeys=None):
    """functional: positional tensor args `pos`, optional tensor kwargs `kwnames`, every cfg key as kwarg"""
    def call(cfg, a):
        kw = {k: v for k, v in cfg.items() if (cfgkeys is None or k in cfgkeys) and not k.startswith("_")}
        for k in kwnames:
            if a.get(k) is not None:
                kw[k] = a[k]
        return f(*[a[p] for p in pos], **kw)
    return call


def cls_call(cls, pos, kwnames=(), optpos=(), compute=True):
    """class: constructor gets the cfg, update() the tensors, then compute()"""
    def call(cfg, a):
        m = cls(**{k: v for k, v in cfg.items() if not k.startswith("_")})
        args = [a[p] for p in pos] + [a[p] for p in optpos if a.get(p) is not None]
        kw = {k: a[k] for k in kwnames if a.get(k) is not None}
        return upd_compute(m, args, kw)
    return call


def both(fname, cname, roles, bases, valid, stem, pos=("input", "target"), kw=(), optpos=(), fn_optpos=(), cls_cfg=None, fn=None, cls=None):
    f = fn or (getattr(F, fname) if fname else None)
    if fname:
        def fcall(cfg, a, _f=f):
            kwargs = {k: v for k, v in cfg.items() if not k.startswith("_")}
            for k in kw:
                if a.get(k) is not None:
                    kwargs[k] = a[k]
            args = [a[p] for p in pos] + [a[p] for p in list(optpos) + list(fn_optpos) if a.get(p) is not None]
            return _f(*args, **kwargs)
        E(fname, fcall, roles, bases, valid, stem)
    if cname:
        k = cls or getattr(M, cname)
        def ccall(cfg, a, _k=k):
            ccfg = {kk: v for kk, v in cfg.items() if not kk.startswith("_")}
            if cls_cfg:
                ccfg = cls_cfg(ccfg)
            m = _k(**ccfg)
            args = [a[p] for p in pos] + [a[p] for p in optpos if a.get(p) is not None]
            kwargs = {kk: a[kk] for kk in kw if a.get(kk) is not None}
            return upd_compute(m, args, kwargs)
        E(cname + ".update", ccall, roles, bases, valid, stem)


def _entries():
    n, c, t = N, C, T2
    r_bin = {"input": "prob", "target": "label"}
    b_1d = [("1d", {}, {"input": (n,), "target": (n,)})]
    for fname, cname in [("binary_accuracy", "BinaryAccuracy"), ("binary_precision", "BinaryPrecision"), ("binary_recall", "BinaryRecall"),
                         ("binary_f1_score", "BinaryF1Score"), ("binary_confusion_matrix", "BinaryConfusionMatrix"),
                         ("binary_precision_recall_curve", "BinaryPrecisionRecallCurve")]:
        both(fname, cname, r_bin, b_1d, v_1d, fname)
    both("binary_recall_at_fixed_precision", "BinaryRecallAtFixedPrecision", r_bin, [("1d", {"min_precision": 0.5}, b_1d[0][2])], v_1d, "binary_recall_at_fixed_precision")
    both("binary_binned_precision_recall_curve", "BinaryBinnedPrecisionRecallCurve", r_bin, [("1d", {"threshold": 3}, b_1d[0][2])], v_1d, "binary_precision_recall_curve")

    # multiclass: labels (n,) or scores (n, C)
    lab = {"input": (n,), "target": (n,)}
    sco = {"input": (n, c), "target": (n,)}
    mc_in = lambda sh: "label" if len(sh["input"]) <= 1 else "prob"      # 1-D input = predicted labels, otherwise scores
    r_lab = {"input": mc_in, "target": "label"}
    r_sco = {"input": mc_in, "target": "label"}
    r_sc2 = {"input": "prob", "target": "label"}
    for fname, cname, stem in [("multiclass_accuracy", "MulticlassAccuracy", "accuracy"), ("multiclass_precision", "MulticlassPrecision", "precision"),
                               ("multiclass_recall", "MulticlassRecall", "recall"), ("multiclass_f1_score", "MulticlassF1Score", "f1_score")]:
        bases_l = [("labels", {}, lab), ("labels,num_classes", {"num_classes": c, "average": "macro"}, lab)]
        bases_s = [("scores", {}, sco), ("scores,num_classes", {"num_classes": c, "average": "macro"}, sco)]
        if fname == "multiclass_accuracy":
            bases_s.append(("scores,k=2", {"num_classes": c, "k": 2}, sco))
        both(fname, cname, r_lab, bases_l, v_multiclass, stem)
        both(fname, cname, r_sco, bases_s, v_multiclass, stem)
    for roles, bases in [(r_lab, [("labels", {"num_classes": c}, lab)]), (r_sco, [("scores", {"num_classes": c}, sco)])]:
        E("multiclass_confusion_matrix", lambda cfg, a: F.multiclass_confusion_matrix(a["input"], a["target"], cfg["num_classes"]), roles, bases, v_multiclass, "confusion_matrix")
        both(None, "MulticlassConfusionMatrix", roles, bases, v_multiclass, "confusion_matrix")

    # (n, C) scores only
    for fname, cname, cfgs, stem in [
        ("multiclass_auroc", "MulticlassAUROC", [{"num_classes": c}], "multiclass_auroc"),
        ("multiclass_auprc", "MulticlassAUPRC", [{"num_classes": c}], "multiclass_auprc"),
        ("multiclass_precision_recall_curve", "MulticlassPrecisionRecallCurve", [{"num_classes": c}, {}], "multiclass_precision_recall_curve"),
        ("multiclass_binned_auroc", "MulticlassBinnedAUROC", [{"num_classes": c, "threshold": 3}], "multiclass_binned_auroc"),
        ("multiclass_binned_auprc", "MulticlassBinnedAUPRC", [{"num_classes": c, "threshold": 3}], "multiclass_binned_auprc"),
        ("multiclass_binned_precision_recall_curve", "MulticlassBinnedPrecisionRecallCurve", [{"num_classes": c, "threshold": 3}], "multiclass_precision_recall_curve"),
    ]:
        both(fname, cname, r_sc2, [("scores" + ("" if "num_classes" in cf else ",num_classes=None"), cf, sco) for cf in cfgs], v_scores, stem)
    for fname, cname, cfgs in [("hit_rate", "HitRate", [{}, {"k": 1}]), ("reciprocal_rank", "ReciprocalRank", [{}, {"k": 1}])]:
        both(fname, cname, r_sc2, [("scores" + ("" if not cf else ",k=1"), cf, sco) for cf in cfgs], v_scores, fname)

    # multilabel (n, L)
    ml = {"input": (n, c), "target": (n, c)}
    both("multilabel_accuracy", "MultilabelAccuracy", r_bin, [("2d", {}, ml), ("2d,hamming", {"criteria": "hamming"}, ml)], v_multilabel, "multilabel_accuracy")
    both("topk_multilabel_accuracy", "TopKMultilabelAccuracy", r_bin, [("2d", {"k": 2}, ml)], v_multilabel, "topk_multilabel_accuracy")
    for fname, cname, cfgs, stem in [
        ("multilabel_auprc", "MultilabelAUPRC", [{"num_labels": c}], "multilabel_auprc"),
        ("multilabel_precision_recall_curve", "MultilabelPrecisionRecallCurve", [{"num_labels": c}], "multilabel_precision_recall_curve"),
        ("multilabel_recall_at_fixed_precision", "MultilabelRecallAtFixedPrecision", [{"num_labels": c, "min_precision": 0.5}], "multilabel_recall_at_fixed_precision"),
        ("multilabel_binned_auprc", "MultilabelBinnedAUPRC", [{"num_labels": c, "threshold": 3}], "multilabel_binned_auprc"),
        ("multilabel_binned_precision_recall_curve", "MultilabelBinnedPrecisionRecallCurve", [{"num_labels": c, "threshold": 3}], "multilabel_precision_recall_curve"),
    ]:
        both(fname, cname, r_bin, [("2d", cf, ml) for cf in cfgs], v_multilabel, stem)

    # tasks family
    def task_bases(extra=None, wname=None, base_cfg=None):
        out = []
        bc = base_cfg or {}
        for label, cf, shp in [("1d", {}, (n,)), ("(1,n)", {}, (1, n)), ("(T,n)", {"num_tasks": t}, (t, n))]:
            s = {"input": shp, "target": shp}
            if wname:
                s[wname] = None
            out.append((label, {**bc, **cf}, dict(s)))
            if wname:
                s2 = dict(s)
                s2[wname] = shp
                out.append((label + "+weight", {**bc, **cf}, s2))
        return out
    r_w = {"input": "prob", "target": "label", "weight": "weight"}
    # weight is keyword-only in the functional, positional in update(): dedicated callers
    E("binary_auroc", lambda cfg, a: F.binary_auroc(a["input"], a["target"], weight=a.get("weight"), **cfg), r_w, task_bases(wname="weight"), v_tasks_weight, "binary_auroc")
    def auroc_cls(cls, **fixed):
        def call(cfg, a):
            m = cls(**cfg, **fixed)
            return upd_compute(m, [a["input"], a["target"]] + ([a["weight"]] if a.get("weight") is not None else []))
        return call
    E("BinaryAUROC.update", auroc_cls(M.BinaryAUROC), r_w, task_bases(wname="weight"), v_tasks_weight, "binary_auroc")
    E("WindowedBinaryAUROC.update", auroc_cls(M.WindowedBinaryAUROC, max_num_samples=5), r_w, task_bases(wname="weight"), v_tasks_weight, "binary_auroc")
    # a window SMALLER than the batches: whatever update() does to fit a batch into the window must come after validation
    E("WindowedBinaryAUROC[window=2].update", auroc_cls(M.WindowedBinaryAUROC, max_num_samples=2), r_w, task_bases(wname="weight"), v_tasks_weight, "binary_auroc")
    both("binary_auprc", "BinaryAUPRC", r_bin, task_bases(), v_tasks, "binary_auprc")
    both("binary_binned_auroc", "BinaryBinnedAUROC", r_bin, task_bases(base_cfg={"threshold": 3}), v_tasks1, "binary_binned_auroc")
    both("binary_binned_auprc", "BinaryBinnedAUPRC", r_bin, task_bases(base_cfg={"threshold": 3}), v_tasks, "binary_binned_auprc")
    r_ne = {"input": "prob", "target": "flabel", "weight": "weight"}
    both("binary_normalized_entropy", "BinaryNormalizedEntropy", r_ne, task_bases(wname="weight"), v_tasks_weight, "ne", kw=("weight",))
    E("WindowedBinaryNormalizedEntropy.update", cls_call(lambda **kw: M.WindowedBinaryNormalizedEntropy(max_num_updates=2, **kw), ("input", "target"), kwnames=("weight",)),
      r_ne, task_bases(wname="weight"), v_tasks_weight, "ne")
    r_wc = {"input": "prob", "target": "flabel", "weight": "weight"}
    both("weighted_calibration", "WeightedCalibration", r_wc, task_bases(wname="weight"), v_tasks_weight, "weighted_calibration", optpos=("weight",))
    E("WindowedWeightedCalibration.update", cls_call(lambda **kw: M.WindowedWeightedCalibration(max_num_updates=2, **kw), ("input", "target"), optpos=("weight",)),
      r_wc, task_bases(wname="weight"), v_tasks_weight, "weighted_calibration")
    ctr_bases = []
    for label, cf, shp in [("1d", {}, (n,)), ("(1,n)", {}, (1, n)), ("(T,n)", {"num_tasks": t}, (t, n))]:
        ctr_bases += [(label, cf, {"input": shp, "weights": None}), (label + "+weight", cf, {"input": shp, "weights": shp})]
    r_ctr = {"input": "click", "weights": "weight"}
    both("click_through_rate", "ClickThroughRate", r_ctr, ctr_bases, v_ctr, "click_through_rate", pos=("input",), optpos=("weights",))
    E("WindowedClickThroughRate.update", cls_call(lambda **kw: M.WindowedClickThroughRate(max_num_updates=2, **kw), ("input",), optpos=("weights",)), r_ctr, ctr_bases, v_ctr, "click_through_rate")
    for fname in ("retrieval_precision", "retrieval_recall"):
        E(fname, fn_call(getattr(F, fname), ("input", "target")), {"input": "prob", "target": "label"}, task_bases(base_cfg={"k": 2}), v_tasks1, fname)
    for cname in ("RetrievalPrecision", "RetrievalRecall"):
        rb = [("1d", {"k": 2}, {"input": (n,), "target": (n,), "indexes": None}),
              ("1d,num_queries=2", {"k": 2, "num_queries": 2}, {"input": (n,), "target": (n,), "indexes": (n,)})]
        E(cname + ".update", cls_call(getattr(M, cname), ("input", "target"), optpos=("indexes",)), {"input": "prob", "target": "label", "indexes": "index"}, rb, v_retrieval_cls, None)

    # regression
    r_reg = {"input": "real", "target": "real", "sample_weight": "weight"}
    mse_b = [("1d", {}, {"input": (n,), "target": (n,), "sample_weight": None}), ("1d+weight", {}, {"input": (n,), "target": (n,), "sample_weight": (n,)}),
             ("2d", {"multioutput": "raw_values"}, {"input": (n, c), "target": (n, c), "sample_weight": None}),
             ("2d+weight", {}, {"input": (n, c), "target": (n, c), "sample_weight": (n,)})]
    both("mean_squared_error", "MeanSquaredError", r_reg, mse_b, v_regression, "mean_squared_error", kw=("sample_weight",))
    wmse_b = mse_b[:2] + [("2d", {"multioutput": "raw_values", "num_tasks": c}, mse_b[2][2]), ("2d+weight", {"num_tasks": c}, mse_b[3][2])]
    E("WindowedMeanSquaredError.update", cls_call(lambda **kw: M.WindowedMeanSquaredError(max_num_updates=2, **kw), ("input", "target"), kwnames=("sample_weight",)), r_reg, wmse_b, v_wmse, None)
    both("r2_score", "R2Score", {"input": "real", "target": "real"}, [("1d", {}, {"input": (n,), "target": (n,)}), ("2d", {"multioutput": "raw_values"}, {"input": (n, c), "target": (n, c)})], v_regression, "r2_score")
    ENTRIES[-1].min_samples = ENTRIES[-2].min_samples = 2          # documented: "needs at least two samples"

    # aggregation
    agg_b = [("1d", {}, {"input": (n,), "weight": None}), ("1d+weight", {}, {"input": (n,), "weight": (n,)}), ("2d+weight", {}, {"input": (n, c), "weight": (n, c)})]
    r_agg = {"input": "real", "weight": "weight"}
    for nm, f, k in [("mean", F.mean, M.Mean), ("sum", F.sum, M.Sum)]:
        E(nm, (lambda cfg, a, _f=f: _f(a["input"], *([a["weight"]] if a.get("weight") is not None else []))), r_agg, agg_b, v_any_weight, None)
        E(k.__name__ + ".update", cls_call(k, ("input",), kwnames=("weight",)), r_agg, agg_b, v_any_weight, None)
    for k in (M.Max, M.Min):
        E(k.__name__ + ".update", cls_call(k, ("input",)), {"input": "real"}, [("1d", {}, {"input": (n,)}), ("2d", {}, {"input": (n, c)})], v_any, None)
    E("Cat.update", cls_call(M.Cat, ("input",)), {"input": "real"}, [("1d", {}, {"input": (n,)}), ("2d", {}, {"input": (n, c)})], v_cat, None)
    def cov_call(cfg, a):
        return upd_compute(M.Covariance(), [a["obs"]])
    E("Covariance.update", cov_call, {"obs": "real"}, [("2d", {}, {"obs": (n, c)})], v_cov, None)
    ENTRIES[-1].min_samples = 2                                     # compute(): "Not enough samples to estimate covariance"
    r_xy = {"x": "prob", "y": "real"}
    E("auc", lambda cfg, a: F.auc(a["x"], a["y"], **cfg), r_xy, [("1d", {}, {"x": (n,), "y": (n,)}), ("2d", {"reorder": True}, {"x": (t, n), "y": (t, n)})], v_auc_fn, "auc")
    def auc_cls(cfg, a):
        return upd_compute(M.AUC(**cfg), [a["x"], a["y"]])
    E("AUC.update", auc_cls, r_xy, [("1d", {}, {"x": (n,), "y": (n,)}), ("(1,n)", {}, {"x": (1, n), "y": (1, n)}), ("(T,n)", {"n_tasks": t}, {"x": (t, n), "y": (t, n)})], v_auc, "auc")

    # image / text / misc
    img = {"input": (1, 2, 3, 3), "target": (1, 2, 3, 3)}
    both("peak_signal_noise_ratio", "PeakSignalNoiseRatio", {"input": "prob", "target": "prob"}, [("NCHW", {}, img), ("2d", {"data_range": 1.0}, {"input": (2, 3), "target": (2, 3)})], v_same, "psnr")
    both("perplexity", "Perplexity", {"input": "real", "target": "label"}, [("3d", {}, {"input": (n, 2, 3), "target": (n, 2)}), ("3d,ignore_index", {"ignore_index": 1}, {"input": (n, 2, 3), "target": (n, 2)})], v_perplexity, "perplexity")
    E("frequency_at_k", lambda cfg, a: F.frequency_at_k(a["input"], 0.5), {"input": "prob"}, [("1d", {}, {"input": (n,)})], v_rank1, "frequency")
    E("num_collisions", lambda cfg, a: F.num_collisions(a["input"]), {"input": "ids"}, [("1d", {}, {"input": (n,)})], v_rank1, "num_collisions")
    r_w1 = {"x": "real", "y": "real", "x_weights": "weight", "y_weights": "weight"}
    w_b = [("1d", {}, {"x": (n,), "y": (2,), "x_weights": None, "y_weights": None}), ("1d+weights", {}, {"x": (n,), "y": (2,), "x_weights": (n,), "y_weights": (2,)})]
    E("wasserstein_1d", lambda cfg, a: wasserstein_1d(a["x"], a["y"], a.get("x_weights"), a.get("y_weights")), r_w1, w_b, v_wasserstein, "wasserstein")
    def w_cls(cfg, a):
        return upd_compute(Wasserstein1D(), [a["x"], a["y"], a.get("x_weights"), a.get("y_weights")])
    E("Wasserstein1D.update", w_cls, r_w1, w_b, v_wasserstein, "wasserstein")
    r_txt = {"input": "text", "target": "text"}
    txt_b = [("str", {}, {"input": (), "target": ()}), ("list", {}, {"input": (2,), "target": (2,)})]
    for fname, cname, stem in [("word_error_rate", "WordErrorRate", "word_error_rate"), ("word_information_preserved", "WordInformationPreserved", "word_information_preserved"),
                               ("word_information_lost", "WordInformationLost", None)]:
        both(fname, cname, r_txt, txt_b, v_text, stem)
    bleu_b = [("list", {"n_gram": 2}, {"input": (2,), "target": (2,)})]
    both("bleu_score", "BLEUScore", {"input": "text", "target": "refs"}, bleu_b, v_bleu, None)
    E("gaussian_frechet_distance", lambda cfg, a: F.gaussian_frechet_distance(a["mu_x"], a["cov_x"], a["mu_y"], a["cov_y"]),
      {"mu_x": "real", "cov_x": "cov", "mu_y": "real", "cov_y": "cov"}, [("N=2", {}, {"mu_x": (2,), "cov_x": (2, 2), "mu_y": (2,), "cov_y": (2, 2)})], v_frechet, None)


_entries()
OUT_OF_SCOPE = {"throughput", "Throughput.update", "FrechetAudioDistance.update", "FrechetInceptionDistance.update", "StructuralSimilarity.update"}


# ------------------------------------------------------------------ perturbations

def perturb_shape(shape, max_ndim=4, extents=(1, 2, 3)):
    """(operation name, new shape) for every one-dimension change of a shape"""
    out = []
    nd = len(shape)
    if nd > 0:
        out.append(("0-dim", ()))
    for j in range(nd):
        if nd > 1 or True:
            out.append((f"drop-dim{j}", shape[:j] + shape[j + 1:]))
    if nd < max_ndim:
        for sz in (1, 2):
            out.append((f"add-leading-{sz}", (sz,) + shape))
            out.append((f"add-trailing-{sz}", shape + (sz,)))
    for j in range(nd):
        for v in extents:
            if v != shape[j]:
                out.append((f"resize-dim{j}-to-1" if v == 1 else f"resize-dim{j}", shape[:j] + (v,) + shape[j + 1:]))
    seen, res = set(), []
    for op, s in out:                       # one operation name per resulting shape (first wins: `0-dim` before `drop-dim0`)
        if s not in seen and s != shape and all(d in extents for d in s):
            seen.add(s)
            res.append((op, s))
    return res


def perturb_text(shape):
    out = []
    if shape == ():
        out.append(("str-to-list", (2,)))
    else:
        out.append(("list-to-str", ()))
        for v in (1, 3):
            if v != shape[0]:
                out.append(("resize-list", (v,)))
    return out


def perturbations(entry: Entry, shapes: dict, joint=True, **kw):
    """[(pattern, new shapes dict)]: one operation on one argument; the same operation on all arguments of that shape"""
    out = []
    present = [a for a, s in shapes.items() if s is not None]
    for a in present:
        ops = perturb_text(shapes[a]) if entry.role(a, shapes) in ("text", "refs") else perturb_shape(shapes[a], **kw)
        for op, s2 in ops:
            d = dict(shapes)
            d[a] = s2
            out.append((f"{a}:{op}", d))
    if joint:
        groups: dict = {}
        for a in present:
            groups.setdefault(shapes[a], []).append(a)
        for shp, names in groups.items():
            if len(names) < 2:
                continue
            ops = perturb_text(shp) if entry.role(names[0], shapes) in ("text", "refs") else perturb_shape(shp, **kw)
            for op, s2 in ops:
                d = dict(shapes)
                for a in names:
                    d[a] = s2
                out.append(("+".join(names) + f":{op}", d))
    return out


# ------------------------------------------------------------------ spying on the check helpers

def tok(kind, v):
    if kind in ("tensor", "otensor"):
        if isinstance(v, torch.Tensor):
            return "T" + "x".join(str(d) for d in v.shape)
        return "none" if kind == "otensor" else None
    if kind in ("int", "oint"):
        if isinstance(v, bool) or not isinstance(v, int):
            return "none" if (v is None and kind == "oint") else None
        return f"I{v}"
    if kind in ("str", "ostr"):
        if isinstance(v, str) and v and all(ch.isalnum() or ch == "_" for ch in v):
            return "S" + v
        return "none" if (v is None and kind == "ostr") else None
    if kind == "bool":
        return ("Btrue" if v else "Bfalse") if isinstance(v, bool) else None
    if kind == "seq":
        if isinstance(v, list):
            return f"L{len(v)}"
        return "Lstr" if isinstance(v, str) else None
    return None


class Spy:
    """wraps every translated check helper wherever torcheval modules bound it; records
    (helper, protocol tokens, oracle values, outcome) of each invocation."""

    def __init__(self):
        self.helpers, self.entries = shapes_tr.analyse()
        self.by_name = {h.name: h for h in self.helpers.values() if h.translated}
        self.records: list[dict] = []
        self.current: list[dict] | None = None
        self.instr = {}
        self.orig = {}
        self.patched = []
        for h in self.by_name.values():
            mod = sys.modules[h.module]
            self.orig[h.name] = getattr(mod, h.name)
            try:
                self.instr[h.name] = shapes_tr.instrumented(h)
            except Exception as e:  # noqa: BLE001
                self.instr[h.name] = None
        for h in self.by_name.values():
            w = self.wrapper(h)
            for mname, mod in list(sys.modules.items()):
                if mname.startswith("torcheval") and getattr(mod, h.name, None) is self.orig[h.name]:
                    setattr(mod, h.name, w)
                    self.patched.append((mod, h.name))

    def close(self):
        for mod, name in self.patched:
            setattr(mod, name, self.orig[name])
        self.patched = []

    def line_for(self, h, bound: dict, oracles: dict):
        toks = []
        for p in h.lean_params():
            t = tok(p.kind, bound.get(p.name, p.default))
            if t is None:
                return None
            toks.append(f"{p.name}={t}")
        for o, _src, _n in h.oracles:
            toks.append(f"{o}={'Btrue' if oracles.get(o) else 'Bfalse'}")
        return f"fn chk.{h.name} " + " ".join(toks)

    def observe(self, h, args, kwargs):
        """(record dict, outcome) for one invocation of the ORIGINAL helper"""
        orig = self.orig[h.name]
        try:
            ba = inspect.signature(orig).bind(*args, **kwargs)
            ba.apply_defaults()
            bound = dict(ba.arguments)
        except TypeError:
            bound = None
        oracles, undefined = {}, False
        ins = self.instr.get(h.name)
        if ins is not None and h.oracles and bound is not None:
            f, rec = ins
            rec.clear()
            try:
                f(*args, **kwargs)
            except Exception:  # noqa: BLE001
                pass
            undefined = bool(rec.pop("__undefined__", False))
            oracles = dict(rec)
        exc = None
        try:
            orig(*args, **kwargs)
        except Exception as e:  # noqa: BLE001
            exc = e
        r = {"helper": h.name, "line": self.line_for(h, bound, oracles) if bound is not None else None,
             "real": ("err " + err_kind(exc)) if exc is not None else "ok", "undefined": undefined,
             "bound": {k: (list(v.shape) if isinstance(v, torch.Tensor) else (v if isinstance(v, (int, float, str, bool, type(None))) else str(type(v).__name__))) for k, v in (bound or {}).items()}}
        return r, exc

    def wrapper(self, h):
        def w(*args, **kwargs):
            r, exc = self.observe(h, args, kwargs)
            self.records.append(r)
            if self.current is not None:
                self.current.append(r)
            if exc is not None:
                raise exc
        w.__name__ = h.name
        return w


def check_records(rep: Report, recs: list[dict], origin: str):
    """comparison (i): real helper outcome vs generated Lean check"""
    todo = [r for r in recs if r["line"] is not None and not r["undefined"] and r["real"] in ("ok", "err ValueError", "err TypeError", "err IndexError", "err AssertionError")]
    rep.count(f"translator:{origin}:helper-invocations", len(recs))
    rep.count(f"translator:{origin}:not-comparable(ill-typed/oracle-undefined/other-exception)", len(recs) - len(todo))
    uniq: dict = {}
    for r in todo:
        uniq.setdefault((r["line"], r["real"]), r)
    keys = list(uniq)
    outs = run_driver([k[0] for k in keys]) if keys else []
    bad = 0
    for (line, real), out in zip(keys, outs):
        out = out.strip()
        rep.traces += 1
        rep.count(f"translator:{origin}:" + ("agree-ok" if real == "ok" else "agree-raise") if out == real else f"translator:{origin}:DISAGREE")
        if out != real:
            bad += 1
            if bad <= 5:
                rep.broke(f"translator:{uniq[(line, real)]['helper']}", f"real helper: {real}; generated Lean check: {out}; request `{line}`", {"line": line, "real": real, "lean": out, "bound": uniq[(line, real)]["bound"]})
    return len(keys)


# ------------------------------------------------------------------ running one real call

def shape_str(shapes: dict) -> str:
    return ",".join(f"{k}={'None' if v is None else '(' + ','.join(map(str, v)) + ')'}" for k, v in shapes.items())


def value_seed(seed: int, entry: Entry, cfg: dict, shapes: dict) -> int:
    """values of one case depend only on (run seed, entry, config, shape tuple): a replay rebuilds them exactly"""
    import hashlib
    return int(hashlib.sha1(f"{seed}|{entry.name}|{sorted(cfg.items())}|{shape_str(shapes)}".encode()).hexdigest()[:12], 16)


def call_entry(entry: Entry, cfg: dict, args: dict, spy: Spy | None):
    """one real call of an entry (functional, or update() followed by compute()) on concrete arguments:
    ("ok", value) | ("err", kind, message, "call" | "compute") and the check-helper invocations seen"""
    if spy is not None:
        spy.current = []
    try:
        val = entry.call(dict(cfg), args)
        out = ("ok", val)
    except ComputeStage as ce:
        out = ("err", err_kind(ce.exc), repr(ce.exc)[:160], "compute")
    except Exception as e:  # noqa: BLE001
        out = ("err", err_kind(e), repr(e)[:160], "call")
    recs = spy.current if spy is not None else []
    if spy is not None:
        spy.current = None
    return out, recs


def run_real(entry: Entry, cfg: dict, shapes: dict, rng: Rng, spy: Spy | None, degenerate: bool = False):
    hi = entry.label_hi(shapes)
    args = {a: build(entry.role(a, shapes), s, rng, cfg, hi, degenerate) for a, s in shapes.items()}
    out, recs = call_entry(entry, cfg, args, spy)
    return out, recs, args


def arg_desc(v):
    """an argument as it was passed: tensor with dtype and shape | str | list of str | list of reference lists | None"""
    if isinstance(v, torch.Tensor):
        return {"shape": list(v.shape), "dtype": str(v.dtype).replace("torch.", ""), "data": v.reshape(-1).tolist()}
    return v


def arg_undesc(d):
    if isinstance(d, dict) and {"shape", "dtype", "data"} <= set(d):
        return torch.tensor(d["data"], dtype=getattr(torch, d["dtype"])).reshape(tuple(d["shape"]))
    return d


def shapes_of_args(args: dict) -> dict:
    """the shape tuple the contract is stated about, read off concrete arguments (text: () = one string, (n,) = n strings)"""
    out = {}
    for a, v in args.items():
        if v is None:
            out[a] = None
        elif isinstance(v, torch.Tensor):
            out[a] = tuple(v.shape)
        elif isinstance(v, str):
            out[a] = ()
        else:
            out[a] = (len(v),)
    return out


def contract_verdict(entry: Entry, cfg: dict, shapes: dict, valid, out):
    """THE PROPERTY on one real call: (violated relation | None, reason when a rejection is excused).
      returned a value on a shape tuple outside the documented contract            -> "accepted-and-returned"
      raised in the call that received a documented-valid tuple (no excuse applies)  -> "valid-input-rejected"
    `valid` None (the docstring does not decide) is never a violation.  Used by `judge` and by `replay`."""
    if valid is None:
        return None, "unspecified-by-the-docstring"
    if out[0] == "ok":
        return (None, "") if valid else ("accepted-and-returned", "")
    if not valid:
        return None, ""
    if out[3] == "compute":
        return None, "valid-accepted-by-update,compute-raised(not C18)"
    first = next((v for v in shapes.values() if v is not None), ())
    if len(first) >= 1 and first[0] < entry.min_samples:
        return None, "rejected-insufficient-samples(documented)"
    if any(d == 0 for v in shapes.values() if v is not None for d in v):
        return None, "rejected-empty-input"        # zero samples / classes: no metric is defined, not a shape fault
    if entry.stem == "topk_multilabel_accuracy" and first[-1] < cfg.get("k", 2):
        return None, "rejected-k-exceeds-classes(parameter)"
    return "valid-input-rejected", ""


def describe_value(v):
    try:
        if isinstance(v, torch.Tensor):
            return {"shape": list(v.shape), "value": v.reshape(-1).tolist()[:8]}
        if isinstance(v, (tuple, list)):
            return [describe_value(x) for x in list(v)[:3]]
        return repr(v)[:80]
    except Exception:  # noqa: BLE001
        return "?"


def stem_line(entry: Entry, recs: list[dict], spy: Spy, kind: str):
    """driver request valid.<stem> / gap.<stem> on the arguments the entry's input-check helper received"""
    if entry.stem is None or spy is None:
        return None
    for r in recs:
        if shapes_tr.stem_of(r["helper"]) == entry.stem and r["line"] is not None:
            return r["line"].replace(f"fn chk.{r['helper']} ", f"fn {kind}.{entry.stem} ", 1)
    return None


@dataclass
class Outcome:
    entry: Entry
    label: str
    cfg: dict
    pattern: str
    shapes: dict
    valid: bool
    out: tuple
    recs: list
    vseed: int = 0
    degenerate: bool = False
    args: dict = field(default_factory=dict)


def evaluate(rep: Report, entry: Entry, label: str, cfg: dict, pattern: str, shapes: dict, rng: Rng, spy: Spy, pending: list):
    valid = entry.valid(cfg, shapes)            # True / False / None (= the docstring does not decide)
    vseed, degenerate = value_seed(rep.seed, entry, cfg, shapes), False
    out, recs, args = run_real(entry, cfg, shapes, Rng(vseed), spy)
    if out[0] == "err" and valid is False:
        # a rejection must not depend on the VALUES: try other legal values (rejected by a later kernel: two more
        # draws + the all-zero labels; rejected inside a check helper, possibly only at compute(): all-zero labels)
        for extra in ((1, 2, 3) if not any(r["real"] != "ok" for r in recs) else (3,)):
            out2, recs2, args2 = run_real(entry, cfg, shapes, Rng(vseed + extra), spy, degenerate=(extra == 3))
            rep.count("late-rejection-retried-with-other-values")
            if out2[0] == "ok":
                out, recs, args, vseed, degenerate = out2, recs2, args2, vseed + extra, extra == 3
                rep.count("late-rejection-was-value-dependent")
                break
    o = Outcome(entry, label, cfg, pattern, shapes, valid, out, recs, vseed, degenerate, args)
    pending.append(o)
    name = entry.name
    rep.count(f"{name}:perturbations" if pattern != "base" else f"{name}:base-calls")
    raised_in_check = any(r["real"] != "ok" for r in recs)
    if out[0] == "err":
        rep.count(f"{name}:rejected-by-check" if raised_in_check else f"{name}:rejected-later")
        rep.count("err:" + out[1])
    else:
        rep.count(f"{name}:accepted-unspecified" if valid is None else (f"{name}:accepted-valid" if valid else f"{name}:ACCEPTED-INVALID"))
    key = (name, repr(sorted(cfg.items())), shape_str(shapes))
    rep.case(nontrivial_key=key if (out[0] == "err" and pattern != "base") else None,
             sample={"entry": name, "cfg": cfg, "shapes": shape_str(shapes), "pattern": pattern, "valid": valid, "outcome": out[0] if out[0] == "ok" else out[1]}
             if rep.evaluations % 997 == 0 else None)
    return o


def payload(o: Outcome, kind: str):
    return {"entry": o.entry.name, "entry_index": next((i for i, e in enumerate(ENTRIES) if e is o.entry), None), "label": o.label, "cfg": o.cfg,
            "shapes": {k: (list(v) if v is not None else None) for k, v in o.shapes.items()},
            "args": {a: arg_desc(v) for a, v in o.args.items()},
            "pattern": o.pattern, "kind": kind, "value_seed": o.vseed, "degenerate_values": o.degenerate, "roles": {a: o.entry.role(a, o.shapes) for a in o.shapes},
            "outcome": describe_value(o.out[1]) if o.out[0] == "ok" else list(o.out[1:])}


def judge(rep: Report, pending: list[Outcome], spy: Spy):
    """comparisons (ii) and (iii) + cross-check of the Python contract table against Lean `Valid_<stem>` / gap patterns"""
    lines, owners = [], []
    for idx, o in enumerate(pending):
        for kind in ("valid", "gap"):
            l = stem_line(o.entry, o.recs, spy, kind)
            if l is not None:
                lines.append(l)
                owners.append((idx, kind))
    uniq = list(dict.fromkeys(lines))
    res = dict(zip(uniq, run_driver(uniq))) if uniq else {}
    lean_valid: dict = {}
    lean_gap: dict = {}
    for l, (idx, kind) in zip(lines, owners):
        r = res[l].strip()
        if r.startswith("bad"):
            continue
        if kind == "valid":
            lean_valid[idx] = (r == "ok true")
        else:
            lean_gap[idx] = r[3:].strip()           # pattern names separated by ';'  ('-' = none)
    reported = set()
    for idx, o in enumerate(pending):
        name = o.entry.name
        if o.valid is None:
            rep.count("contract-table:unspecified-by-the-docstring")
            continue
        if idx in lean_valid:
            rep.traces += 1
            rep.count("contract-table:lean-valid-agrees" if lean_valid[idx] == o.valid else "contract-table:LEAN-VALID-DISAGREES")
            if lean_valid[idx] != o.valid:
                rep.broke(f"valid-oracle:{name}", f"Python contract table says valid={o.valid}, Lean Valid_{o.entry.stem} says {lean_valid[idx]} on {shape_str(o.shapes)} cfg={o.cfg}", payload(o, "valid-oracle"))
                # no `continue`: the Lean side is evaluated on what the CHECK HELPER was handed (an update() that reshapes or
                # clips its arguments before validating shows exactly as this disagreement); the property is judged on the
                # shapes of the actual call by the contract table below
        accepted_by_check = bool(o.recs) and all(r["real"] == "ok" for r in o.recs)
        gap = lean_gap.get(idx)
        if idx in lean_gap and idx in lean_valid and accepted_by_check and not o.valid:
            # the check accepted an undocumented tuple: Lean must name the pattern (theorem C18_gap_<stem>)
            first = next((r for r in o.recs if shapes_tr.stem_of(r["helper"]) == o.entry.stem), None)
            if first is not None and first["real"] == "ok" and not any(r["undefined"] for r in o.recs):
                rep.count(f"gap:{o.entry.stem}:{gap}")
                if gap == "-":
                    rep.broke(f"gap-patterns:{o.entry.stem}", f"check accepted the undocumented tuple {shape_str(o.shapes)} cfg={o.cfg} but no pattern of patterns_{o.entry.stem} matches", payload(o, "gap"))
        rel, excuse = contract_verdict(o.entry, o.cfg, o.shapes, o.valid, o.out)
        if rel == "accepted-and-returned":
            pat = o.pattern if gap in (None, "-") else gap.split(";")[0]
            sig = f"C18|{name}|{pat}|accepted-and-returned"
            if sig not in reported:
                reported.add(sig)
                rep.violation(sig, f"{name}({shape_str(o.shapes)}, cfg={o.cfg}) [base {o.label}, {o.pattern}] is outside the documented shape contract but returned {describe_value(o.out[1])}",
                              payload(o, "accepted-and-returned"))
        if rel is None and excuse and o.out[0] == "err":
            rep.count(f"{name}:{excuse}")
        if rel == "valid-input-rejected":
            a0 = next(a for a, v in o.shapes.items() if v is not None)
            cls_ = "(" + ",".join("1" if d == 1 else "n" for d in o.shapes[a0]) + ")"
            extra = "".join(f",{k}={o.cfg[k]}" for k in ("num_tasks", "n_tasks", "num_queries") if k in o.cfg)
            if not extra and o.entry.valid in (v_tasks, v_tasks1, v_tasks_weight, v_ctr):
                extra = ",num_tasks=1"
            dkey = ("valid-rejected", name, len(o.shapes[a0]), extra)          # one report per entry × rank × task config
            if dkey in reported:
                continue
            reported.add(dkey)
            sig = f"C18|{name}|valid:{a0}={cls_}{extra}|valid-input-rejected"
            if sig not in reported:
                reported.add(sig)
                rep.violation(sig, f"{name}({shape_str(o.shapes)}, cfg={o.cfg}) [base {o.label}, {o.pattern}] satisfies the documented shape contract but raised {o.out[1]}: {o.out[2]}",
                              payload(o, "valid-input-rejected"))


# ------------------------------------------------------------------ direct enumeration per helper (comparison (i))

UNIVERSE = [()] + [s for nd in (1, 2, 3) for s in itertools.product((1, 2, 3), repeat=nd)]


def literal_strings(h) -> list[str]:
    import ast
    out = []
    for n in ast.walk(h.node):
        if isinstance(n, ast.Raise):
            continue
        if isinstance(n, ast.Constant) and isinstance(n.value, str) and n.value.isidentifier() and len(n.value) < 24:
            out.append(n.value)
    return list(dict.fromkeys(out))[:8]


def direct_domain(h, p, rng: Rng):
    k = p.kind
    if k == "tensor":
        return UNIVERSE
    if k == "otensor":
        return [None, 1.0] + UNIVERSE
    if k == "int":
        return [-1, 0, 1, 2, 3]
    if k == "oint":
        return [None, 0, 1, 2, 3]
    if k == "str":
        return literal_strings(h) + ["bogus"]
    if k == "ostr":
        return literal_strings(h) + ["bogus", None]
    if k == "bool":
        return [True, False]
    if k == "seq":
        return ["a b", [], ["a"], ["a", "b c"]]
    return {"min_precision": [0.5, 1.5, 1], "data_range": [None, 2.0, -1.0, 1], "k": [-1.0, 2.0]}.get(p.name, [1.0])


def direct_tensor(p, shape, rng: Rng):
    numel = 1
    for d in shape:
        numel *= d
    if p.name == "threshold":
        return torch.linspace(0, 1, max(numel, 1))[:numel].reshape(shape) if numel > 1 else torch.zeros(shape)
    if rng.random() < 0.5:
        return (torch.arange(numel) % 2).to(torch.float32).reshape(shape)
    return (torch.arange(numel) % 3).to(torch.int64).reshape(shape)


def direct(rep: Report, spy: Spy, rng: Rng, per_helper: int, deadline: float):
    recs = []
    for h in spy.by_name.values():
        doms = [direct_domain(h, p, rng) for p in h.params]
        tparams = [i for i, p in enumerate(h.params) if p.kind in ("tensor", "otensor")]
        combos = []
        # all tensor arguments of one shape (the region where checks accept), every parameter combination (capped)
        others = [i for i in range(len(h.params)) if i not in tparams]
        other_dom = list(itertools.islice(itertools.product(*[doms[i] for i in others]), 60)) if others else [()]
        for s in UNIVERSE:
            for od in other_dom[:12]:
                vals = [None] * len(h.params)
                for i in tparams:
                    vals[i] = s
                for i, v in zip(others, od):
                    vals[i] = v
                combos.append(vals)
        for _ in range(per_helper):
            combos.append([rng.choice(d) for d in doms])
        for vals in combos:
            if time.time() > deadline:
                rep.notes.append("direct enumeration: budget exhausted")
                return recs
            args = []
            for p, v in zip(h.params, vals):
                if p.kind in ("tensor", "otensor") and isinstance(v, tuple):
                    args.append(direct_tensor(p, v, rng))
                else:
                    args.append(v)
            kwonly = {a.arg for a in h.node.args.kwonlyargs}
            pos = [a for p, a in zip(h.params, args) if p.name not in kwonly]
            kw = {p.name: a for p, a in zip(h.params, args) if p.name in kwonly}
            r, _exc = spy.observe(h, pos, kw)
            recs.append(r)
    return recs


# ------------------------------------------------------------------ run / search / replay

def sweep(rep: Report, spy: Spy, rng: Rng, deadline: float, joint=True, two_args=False, **kw):
    pending: list[Outcome] = []
    for entry in ENTRIES:
        for label, cfg, shapes in entry.bases:
            if time.time() > deadline:
                rep.notes.append("sweep: budget exhausted")
                break
            evaluate(rep, entry, label, cfg, "base", shapes, rng, spy, pending)
            perts = perturbations(entry, shapes, joint=joint, **kw)
            for pattern, sh2 in perts:
                evaluate(rep, entry, label, cfg, pattern, sh2, rng, spy, pending)
            if two_args:
                singles = [(p, s) for p, s in perts if "+" not in p.split(":")[0]]
                pairs = [(a, b) for a, b in itertools.combinations(singles, 2) if a[0].split(":")[0] != b[0].split(":")[0]]
                rng.shuffle(pairs)
                for (pa, sa), (pb, sb) in pairs[:60]:
                    d = dict(shapes)
                    an, bn = pa.split(":")[0], pb.split(":")[0]
                    d[an], d[bn] = sa[an], sb[bn]
                    evaluate(rep, entry, label, cfg, pa + "&" + pb, d, rng, spy, pending)
    return pending


def pattern_coverage(rep: Report):
    """every gap pattern proved in TE.Props.C18 must have been instantiated by a real call (and then either raised
    later or was reported by `judge`)"""
    out = run_driver(["fn gap.names"])[0]
    if not out.startswith("ok "):
        rep.notes.append("gap.names request failed: " + out[:80])
        return
    missing = []
    for blk in out[3:].split(";;"):
        stem, _, names = blk.partition("::")
        for nm in [x for x in names.split("|") if x]:
            if rep.dist.get(f"gap:{stem}:{nm}", 0) == 0:
                missing.append(f"{stem}:{nm}")
    rep.notes.append(f"gap patterns of TE.Spec.Shape never instantiated by a real call in this run: {missing}")


def coverage_notes(rep: Report, spy: Spy):
    names = {e.name for e in ENTRIES}
    missing = [n for n in F.__all__ if n not in names and n not in OUT_OF_SCOPE]
    cls_missing = [e.name for e in spy.entries if e.name.endswith(".update") and e.name not in names and e.name not in OUT_OF_SCOPE]
    rep.notes.append(f"entries exercised: {len(names)} ({sum(1 for n in names if not n.endswith('.update'))} functionals, {sum(1 for n in names if n.endswith('.update'))} class updates); "
                     f"out of scope: {sorted(OUT_OF_SCOPE)}; public entries without a case table: {missing + cls_missing}")
    if missing or cls_missing:
        rep.broke("coverage", f"public entry points without a C18 case table: {missing + cls_missing}", {})
    seen = {r["helper"] for r in spy.records}
    unseen = sorted(set(spy.by_name) - seen)
    rep.notes.append(f"check helpers never reached by a real call (validated by direct enumeration only): {unseen}")


def run(rep: Report):
    t0 = time.time()
    spy = Spy()
    try:
        rng = Rng(rep.seed * 7919 + 18)
        total = budget(rep.tier, 50, 480)
        pending = sweep(rep, spy, rng, t0 + total * 0.6)
        if rep.tier == "thorough":
            pending += sweep(rep, spy, Rng(rep.seed * 31 + 5), t0 + total * 0.7, two_args=True, max_ndim=4, extents=(1, 2, 3))
            pending += sweep(rep, spy, Rng(rep.seed * 37 + 5), t0 + total * 0.8, max_ndim=4, extents=(0, 1, 2, 3))      # zero extents
        judge(rep, pending, spy)
        n_real = check_records(rep, spy.records, "real-calls")
        drecs = direct(rep, spy, Rng(rep.seed * 131 + 7), 120 if rep.tier == "quick" else 1500, t0 + total)
        n_direct = check_records(rep, drecs, "direct")
        rep.streams["real calls"] = len(pending)
        rep.streams["helper invocations compared with Lean (distinct)"] = n_real + n_direct
        coverage_notes(rep, spy)
        pattern_coverage(rep)
        un = [(h.name, h.reason) for h in spy.helpers.values() if not h.translated]
        if un:
            rep.notes.append(f"untranslated helpers (differential only): {un}")
    finally:
        spy.close()


def search(rep: Report):
    """larger extents / ranks and two-argument perturbations, property oracle only (Python contract table vs real call)"""
    t0 = time.time()
    spy = Spy()
    try:
        pending = sweep(rep, spy, Rng(rep.seed * 17 + 3), t0 + 100, two_args=True, max_ndim=5, extents=(1, 2, 3, 4, 5))
        judge(rep, pending, spy)
    finally:
        spy.close()


def _nothing(reason):
    raise ValueError(f"nothing to replay: {reason}")


def replay(payload_: dict) -> bool:
    """True iff the property holds on the recorded call.  The entry is looked up in the case table, the call is made again with the
    RECORDED ARGUMENTS (tensors with their dtype, shape and values, text as recorded) and judged by `contract_verdict` — the
    function `judge` applies in the sweep — against the documented contract of that entry (`entry.valid`).
    Payloads recorded before the arguments were part of the replay dict rebuild their values from the recorded value seed."""
    if not isinstance(payload_, dict):
        _nothing("payload is not a dict")
    if "replay" in payload_ or "property" in payload_:
        if payload_.get("kind", "failing-input") != "failing-input":
            _nothing(f"payload kind {payload_.get('kind')!r} carries no concrete input")
        p = payload_.get("replay")
    else:
        p = payload_
    if not isinstance(p, dict) or not p:
        _nothing("the payload carries no replay dict")
    if p.get("kind") not in ("accepted-and-returned", "valid-input-rejected"):
        _nothing(f"replay kind {p.get('kind')!r} is not a shape-contract case (accepted-and-returned / valid-input-rejected)")
    if not isinstance(p.get("entry"), str) or not isinstance(p.get("shapes"), dict) or not isinstance(p.get("cfg"), dict):
        _nothing("the payload lacks the entry point, its configuration or the shape tuple")
    idx = p.get("entry_index")
    entry = ENTRIES[idx] if isinstance(idx, int) and 0 <= idx < len(ENTRIES) and ENTRIES[idx].name == p["entry"] and set(ENTRIES[idx].roles) >= set(p["shapes"]) else None
    if entry is None:
        entry = next((e for e in ENTRIES if e.name == p["entry"] and set(e.roles) >= set(p["shapes"]) and any(b[0] == p.get("label") for b in e.bases)), None)
    if entry is None:
        entry = next((e for e in ENTRIES if e.name == p["entry"] and set(e.roles) >= set(p["shapes"])), None)
    if entry is None:
        _nothing(f"no case table for entry {p['entry']!r} with arguments {sorted(p['shapes'])}")
    shapes = {k: (tuple(v) if v is not None else None) for k, v in p["shapes"].items()}
    cfg = dict(p["cfg"])
    if isinstance(p.get("args"), dict) and set(p["args"]) == set(shapes):
        args = {a: arg_undesc(v) for a, v in p["args"].items()}
        if shapes_of_args(args) != shapes and entry.role(next(iter(shapes)), shapes) not in ("text", "refs"):
            _nothing(f"the recorded arguments have shapes {shapes_of_args(args)}, the recorded shape tuple is {shapes}")
        out, _ = call_entry(entry, cfg, args, None)
    else:
        out, _, _args = run_real(entry, cfg, shapes, Rng(p.get("value_seed", 0)), None, degenerate=bool(p.get("degenerate_values", False)))
    valid = entry.valid(cfg, shapes)
    if valid is None:
        _nothing("the documented contract does not decide this shape tuple (unspecified by the docstring)")
    rel, excuse = contract_verdict(entry, cfg, shapes, valid, out)
    if rel:
        print(f"replay: C18|{entry.name}|…|{rel}: {entry.name}({shape_str(shapes)}, cfg={cfg}) valid={valid} -> " + (f"returned {describe_value(out[1])}" if out[0] == "ok" else f"raised {out[1]}: {out[2]}"))
    return rel is None
