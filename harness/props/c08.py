"""C08 — ranking / retrieval / text metrics equal their definitions.
Correspondence: real functional and class forms vs the Lean models through the driver
(`fn …`, `prog …`), over exhaustive small grids + seeded random cases.  Independent
Python oracle (explicit ranking and counting, memoised textbook Levenshtein recursion,
reference BLEU with clipped counts) classifies every disagreement and, for the class
forms, states the definition applied to ALL data seen so far."""
from __future__ import annotations
import ast, inspect, itertools, math, textwrap, time
from fractions import Fraction as Fr
from functools import lru_cache
import torch
from ..common import (Rng, Report, call_real, dec_out, enc_tensor, enc_val, ft, it, outcomes_agree, run_driver, budget, fq)
from ..registry import BY_NAME, Batch
from ..progs import Prog, run_real, model_results, compare_with_model
from ..engine import obs_json
import torcheval.metrics.functional as F
import importlib
text_helper = importlib.import_module("torcheval.metrics.functional.text.helper")
text_wer = importlib.import_module("torcheval.metrics.functional.text.word_error_rate")   # (the package re-exports a function of this name)

LEVEL = "proof"
RULE = ("hit_rate/reciprocal_rank: every 3-candidate row over the grid {0,1/2,1} (ties with the target's score) x target x "
        "k in {None,1..5} plus random 4-candidate batches; retrieval_precision/recall: tie-free scores, n=0..6, k=1..n+2 and None, "
        "limit_k_to_size, 1-2 tasks, zero/one/many relevant; RetrievalPrecision/RetrievalRecall: random programs (1-3 shards, "
        "0-3 update batches per shard, 1-3 queries, every empty-target policy, avg) against the definition on all data; "
        "CTR / weighted calibration / collisions / frequency on grids; text: every pair of token strings of length <=3 over {a,b} "
        "and random sentences over vocabularies of 2 and 50 words, lengths 0..6, 1-3 references, n_gram 1..4, custom weights. "
        "non-trivial = distinct (function, parameters, input)")
MODELLED = ["IEEE rounding of float32/float64 divisions (compared with tolerance)",
            "BLEU's exp/log: evaluated in IEEE double by the driver on the exact rational counts the model returns",
            "torch.topk / torch.sort tie order (retrieval inputs are tie-free; the model's top-k is a stable sort)"]
ASSUMPTIONS = ["retrieval labels are 0/1", "tokens are whitespace-separated words; the wire format sends token ids",
               "an empty query (no data at all) is NaN for the class and for the definition"]

L3 = [Fr(0), Fr(1, 2), Fr(1)]
G4 = [Fr(0), Fr(1, 4), Fr(1, 2), Fr(1)]
W4 = [Fr(1, 2), Fr(1), Fr(2), Fr(3)]
SIG_RECALL = "C08|RetrievalRecall|class-vs-definition|pruned-denominator"
SIG_PRECISION = "C08|RetrievalPrecision|class-vs-definition|empty-target-on-retained"

# ------------------------------------------------------------------ text plumbing

def words(ids):
    return " ".join(f"w{i}" for i in ids)


def enc_sent(ids):
    return f"{len(ids)}:" + ",".join(str(i) for i in ids)


def enc_sents(ss):
    return "[" + ";".join(enc_sent(s) for s in ss) + "]"


def enc_refs(groups):
    parts = []
    for g in groups:
        parts += [enc_sent(r) for r in g] + ["1:-1"]
    return "[" + ";".join(parts) + "]"

# ------------------------------------------------------------------ python oracle

def o_rank(row, t):
    """0-based position of the target's score in the descending ranking."""
    s = sorted(row, reverse=True)
    return s.index(row[t])


def o_hit(rows, tgt, k):
    return [Fr(1) if (k is None or o_rank(r, t) < k) else Fr(0) for r, t in zip(rows, tgt)]


def o_rr(rows, tgt, k):
    out = []
    for r, t in zip(rows, tgt):
        p = o_rank(r, t)
        out.append(Fr(1, p + 1) if (k is None or p < k) else Fr(0))
    return out


def o_retrieved(items, k):
    """items: [(score,label)] -> labels of items with fewer than k strictly higher scores."""
    if k is None:
        return [l for _, l in items]
    return [l for s, l in items if sum(1 for s2, _ in items if s2 > s) < k]


def xdiv(a, b):
    if b == 0:
        return math.nan if a == 0 else (math.inf if a > 0 else -math.inf)
    return Fr(a) / Fr(b)


def o_precision(items, k, limit):
    n = len(items)
    den = n if k is None else (min(k, n) if limit else k)
    return xdiv(sum(o_retrieved(items, k)), den)


def o_recall(items, k):
    return xdiv(sum(o_retrieved(items, k)), sum(l for _, l in items))


@lru_cache(maxsize=None)
def lev(a: tuple, b: tuple) -> int:
    if not a:
        return len(b)
    if not b:
        return len(a)
    return min(lev(a[1:], b) + 1, lev(a, b[1:]) + 1, lev(a[1:], b[1:]) + (0 if a[0] == b[0] else 1))


def o_wer(inp, tgt):
    return xdiv(sum(lev(tuple(a), tuple(b)) for a, b in zip(inp, tgt)), sum(len(b) for b in tgt))


def o_wip(inp, tgt):
    c = sum(max(len(a), len(b)) - lev(tuple(a), tuple(b)) for a, b in zip(inp, tgt))
    nr, nh = sum(len(b) for b in tgt), sum(len(a) for a in inp)
    if nr == 0 or nh == 0:
        return math.nan
    return Fr(c, nr) * Fr(c, nh)


def o_wil(inp, tgt):
    w = o_wip(inp, tgt)
    return w if isinstance(w, float) else 1 - w


def o_bleu_stats(cands, refss, N):
    il = tl = 0
    ms, ps = [0] * N, [0] * N
    for c, refs in zip(cands, refss):
        il += len(c)
        tl += sorted((abs(len(r) - len(c)), len(r)) for r in refs)[0][1]
        for n in range(1, N + 1):
            cg = [tuple(c[i:i + n]) for i in range(len(c) - n + 1)]
            rgs = [[tuple(r[i:i + n]) for i in range(len(r) - n + 1)] for r in refs]
            for g in set(cg):
                ms[n - 1] += min(cg.count(g), max(rg.count(g) for rg in rgs))
            ps[n - 1] += max(len(c) - n + 1, 0)
    return il, tl, ms, ps


def o_bleu(cands, refss, N, weights):
    """reference BLEU; None when the definition is not applicable (code must raise)."""
    if len(cands) != len(refss) or any(len(r) == 0 for r in refss) or N not in (1, 2, 3, 4):
        return None
    il, tl, ms, ps = o_bleu_stats(cands, refss, N)
    if min(ps) == 0:
        return None
    w = torch.tensor([1.0 / N] * N if weights is None else [float(x) for x in weights], dtype=torch.float64)
    if len(w) != N:
        return None
    p = torch.tensor(ms, dtype=torch.float64) / torch.tensor(ps, dtype=torch.float64)
    gm = torch.exp(torch.sum(w * torch.log(p)))
    bp = 1.0 if il > tl else math.exp(1 - tl / il)
    return float(bp * gm)


def close(a, b, tol):
    """a: float from the real code, b: Fraction | float from the oracle."""
    b = float(b)
    if math.isnan(a) or math.isnan(b):
        return math.isnan(a) and math.isnan(b)
    if math.isinf(a) or math.isinf(b):
        return a == b
    return abs(a - b) <= tol * max(1.0, abs(b))


def oracle_agrees(real, exp, tol=2e-5):
    """exp: list of values | 'err' | None (not covered)."""
    if exp is None:
        return None
    if exp == "err":
        return real[0] == "err"
    if real[0] != "ok":
        return False
    vals = []
    for t in real[1]:
        vals += t.reshape(-1).to(torch.float64).tolist()
    return len(vals) == len(exp) and all(close(a, b, tol) for a, b in zip(vals, exp))

# ------------------------------------------------------------------ functional cases
# a case = (fn name, real thunk, driver request, oracle value, tolerance, tag, json)
#
# Every case is BUILT FROM ITS JSON DESCRIPTION by `build_fn_case`: the generators below only assemble the description
# (`js`: form, tensors with dtype and shape, python scalars as they are, parameters), so the case that the sweep runs is
# the case that `replay()` rebuilds from a recorded violation — same real call, same definition oracle, same tolerance.
# `expect: "err"` marks the hand-written rejected inputs (the definition does not apply; the code must raise).

def tj(t):
    return {"data": t.tolist(), "shape": list(t.shape), "dtype": str(t.dtype).replace("torch.", "")}


def is_tj(v):
    return isinstance(v, dict) and {"data", "shape", "dtype"} <= set(v)


def _tensor(d):
    return torch.tensor(d["data"], dtype=getattr(torch, d["dtype"])).reshape(tuple(d["shape"]))


def jw(w):
    """a weight argument -> json: None | tensor description | the python scalar itself (int stays int, float stays float)"""
    return None if w is None else (tj(w) if isinstance(w, torch.Tensor) else w)


def wj(v):
    return _tensor(v) if is_tj(v) else v


def frows(t: torch.Tensor):
    """tensor -> list of rows of Fractions (1-D: one row)"""
    if t.ndim == 1:
        return [[Fr(v) for v in t.tolist()]]
    return [[Fr(v) for v in r] for r in t.tolist()]


def _b_rank(js):
    fn, k = js["fn"], js["k"]
    x, y = _tensor(js["input"]), _tensor(js["target"])
    if js.get("expect") == "err":
        exp = "err"
    else:
        C = x.shape[1]
        rows = [[Fr(v) for v in r] for r in x.tolist()]
        tgt = y.tolist()
        valid = all(0 <= t < C for t in tgt)
        if fn == "hit_rate":
            exp = "err" if (k is not None and k <= 0) else (o_hit(rows, tgt, k) if valid else None)
        else:
            exp = (o_rr(rows, tgt, k if (k is None or k > 0) else 0) if valid else "err")
    req = f"fn {fn} input={enc_tensor(x)} target={enc_tensor(y)} k={enc_val(k)}"
    return (fn, lambda: call_real(getattr(F, fn), x, y, k=k), req, exp, 0 if js.get("expect") else 2e-5, js["tag"], js)


def _b_retrieval(js):
    fn, k = js["fn"], js["k"]
    x, y = _tensor(js["input"]), _tensor(js["target"])
    if js.get("short"):          # hand-written shape errors: called with k only
        req = f"fn {fn} input={enc_tensor(x)} target={enc_tensor(y)} k={enc_val(k)}"
        return (fn, lambda: call_real(getattr(F, fn), x, y, k), req, js["expect"], 0, js["tag"], js)
    limit, num_tasks = js["limit_k_to_size"], js["num_tasks"]
    rows = [list(zip(a, [int(v) for v in b])) for a, b in zip(frows(x), frows(y))]
    bad = (k is not None and k <= 0) or (limit and k is None)
    if bad:
        exp = "err"
    elif fn == "retrieval_precision":
        exp = [o_precision(r, k, limit) for r in rows]
    else:
        exp = [o_recall(r, k) for r in rows]
    req = (f"fn {fn} input={enc_tensor(x)} target={enc_tensor(y)} k={enc_val(k)} limit_k_to_size={enc_val(limit)} num_tasks={num_tasks}")
    return (fn, lambda: call_real(getattr(F, fn), x, y, k, limit, num_tasks), req, exp, 2e-5, js["tag"], js)


def _wenc(w):
    return "none" if w is None else (enc_tensor(w) if isinstance(w, torch.Tensor) else fq(w))


def _b_ctr(js):
    x, w, nt = _tensor(js["input"]), wj(js["weights"]), js["num_tasks"]
    args = (x,) if w is None else (x, w)
    if js.get("expect") == "err":
        exp = "err"
    else:
        rows = frows(x)
        if isinstance(w, torch.Tensor):
            exp = [(Fr(0) if sum(wr) == 0 else Fr(sum(c * q for c, q in zip(cr, wr))) / sum(wr)) for cr, wr in zip(rows, frows(w))]
        else:                    # one scalar weight for every sample (or none): the plain click rate
            exp = [(Fr(0) if len(cr) == 0 else Fr(sum(cr), len(cr))) for cr in rows]
    req = f"fn click_through_rate input={enc_tensor(x)} weights={_wenc(w)} num_tasks={nt}"
    return ("click_through_rate", lambda: call_real(F.click_through_rate, *args, num_tasks=nt), req, exp,
            0 if js.get("expect") else 2e-5, js["tag"], js)


def _b_wc(js):
    p, l, w = _tensor(js["input"]), _tensor(js["target"]), wj(js.get("weight"))
    args = (p, l) if w is None else (p, l, w)
    kw = {"num_tasks": js["num_tasks"]} if "num_tasks" in js else {}
    if js.get("expect") == "err":
        exp = "err"
    else:
        prow, lrow = frows(p), frows(l)
        if isinstance(w, torch.Tensor):
            exp = [xdiv(sum(a * b for a, b in zip(wr, pr)), sum(a * b for a, b in zip(wr, lr))) for pr, lr, wr in zip(prow, lrow, frows(w))]
        else:
            q = Fr(1) if w is None else Fr(w)
            exp = [xdiv(q * sum(pr), q * sum(lr)) for pr, lr in zip(prow, lrow)]
    req = f"fn weighted_calibration input={enc_tensor(p)} target={enc_tensor(l)}" + ("" if w is None else f" weight={_wenc(w)}") \
        + (f" num_tasks={js['num_tasks']}" if "num_tasks" in js else "")
    return ("weighted_calibration", lambda: call_real(F.weighted_calibration, *args, **kw), req, exp,
            0 if js.get("expect") else 2e-5, js["tag"], js)


def _b_collisions(js):
    xi = _tensor(js["input"])
    if js.get("expect") == "err":
        exp = "err"
    else:
        ids = xi.tolist()
        exp = [Fr(sum(1 for j, b in enumerate(ids) if b == a and j != i)) for i, a in enumerate(ids)]
    return ("num_collisions", lambda: call_real(F.num_collisions, xi), f"fn num_collisions input={enc_tensor(xi)}", exp, 0, js["tag"], js)


def _b_frequency(js):
    xf, k = _tensor(js["input"]), js["k"]           # k: the python float handed to the real function
    kk = Fr(k)
    exp = "err" if kk < 0 else [Fr(1) if Fr(v) < kk else Fr(0) for v in xf.tolist()]
    return ("frequency_at_k", lambda: call_real(F.frequency_at_k, xf, k), f"fn frequency_at_k input={enc_tensor(xf)} k={fq(kk)}", exp, 0, js["tag"], js)


def _b_edit(js):
    a, b, copy = js["prediction_tokens"], js["reference_tokens"], js["copy"]
    sa, sb = [f"w{i}" for i in a], [f"w{i}" for i in b]
    mod = {"wer": text_wer, "helper": text_helper}[copy]
    d = lev(tuple(a), tuple(b))
    return (f"_edit_distance[{copy}]", lambda: call_real(mod._edit_distance, sa, sb),
            f"fn edit_distance prediction_tokens={enc_sent(a)} reference_tokens={enc_sent(b)} copy={copy}", [Fr(d)], 0, js["tag"], js)


TEXT_ORACLE = {"word_error_rate": lambda i, t: o_wer(i, t), "word_information_preserved": lambda i, t: o_wip(i, t),
               "word_information_lost": lambda i, t: o_wil(i, t)}


def _b_text(js):
    """inp/tgt: lists of token-id lists (as_str: single sentence passed as `str`)."""
    fn, inp, tgt, as_str = js["fn"], js["input"], js["target"], js["as_str"]
    if as_str:
        ri, rt = words(inp[0]), words(tgt[0])
        ei, et = enc_sent(inp[0]), enc_sent(tgt[0])
    else:
        ri, rt = [words(s) for s in inp], [words(s) for s in tgt]
        ei, et = enc_sents(inp), enc_sents(tgt)
    exp = "err" if len(inp) != len(tgt) else [TEXT_ORACLE[fn](inp, tgt)]
    return (fn, lambda: call_real(getattr(F, fn), ri, rt), f"fn {fn} input={ei} target={et}", exp, 1e-9, js["tag"], js)


def _b_text_mixed(js):
    """a single sentence (str) against a list of sentences: WER / WIP reject, WIL wraps the string"""
    fn, a, tgt = js["fn"], js["input"], js["target"]
    exp = [o_wil([a], tgt)] if fn == "word_information_lost" else "err"
    return (fn, lambda: call_real(getattr(F, fn), words(a), [words(s) for s in tgt]), f"fn {fn} input={enc_sent(a)} target={enc_sents(tgt)}",
            exp, 1e-9, js["tag"], js)


def _b_bleu(js):
    cands, refss, N = js["input"], js["target"], js["n_gram"]
    weights = None if js["weights"] is None else [Fr(x) for x in js["weights"]]
    ri = [words(c) for c in cands]
    rt = [[words(r) for r in refs] for refs in refss]
    w = None if weights is None else ft(weights)
    exp = o_bleu(cands, refss, N, weights)
    exp = "err" if exp is None else [exp]
    req = f"fn bleu_score input={enc_sents(cands)} target={enc_refs(refss)} n_gram={N} weights={enc_val(w)}"
    return ("bleu_score", lambda: call_real(F.bleu_score, ri, rt, N, w), req, exp, 1e-4, js["tag"], js)


FN_FORMS = {"rank": _b_rank, "retrieval": _b_retrieval, "ctr": _b_ctr, "wc": _b_wc, "collisions": _b_collisions, "frequency": _b_frequency,
            "edit": _b_edit, "text": _b_text, "text-mixed": _b_text_mixed, "bleu": _b_bleu}


def build_fn_case(js: dict):
    """the case tuple of a functional case description (used by every generator and by replay)"""
    return FN_FORMS[js["form"]](js)


def case_rank(fn, rows, tgt, k, C=None):
    C = C if C is not None else (len(rows[0]) if rows else 3)
    x = ft([v for r in rows for v in r], shape=(len(rows), C))
    return build_fn_case({"form": "rank", "tag": "rank", "fn": fn, "input": tj(x), "target": tj(it(tgt)), "k": k})


def rank_cases(rng: Rng, tier):
    for row in itertools.product(L3, repeat=3):
        for t in range(3):
            for k in (None, 1, 2, 3, 4, 5):
                for fn in ("hit_rate", "reciprocal_rank"):
                    yield case_rank(fn, [list(row)], [t], k)
    for _ in range(2500 if tier == "thorough" else 500):
        C = rng.choice([1, 2, 4, 5])
        n = rng.choice([0, 1, 2, 3, 7])
        rows = [rng.grid(C, L3 if rng.random() < 0.6 else G4) for _ in range(n)]
        tgt = [rng.randrange(C) for _ in range(n)]
        k = rng.choice([None, 1, 2, C - 1 if C > 1 else 1, C, C + 1, C + 2])
        yield case_rank(rng.choice(["hit_rate", "reciprocal_rank"]), rows, tgt, k, C)
    # float64 scores that differ by 2^-40: distinct in float64, equal once rounded to float32 — a rank computed after a narrowing
    # cast sees ties the definition does not (the grid cases above are exact in every float dtype and cannot tell)
    for _ in range(400 if tier == "thorough" else 80):
        C = rng.choice([2, 3, 5])
        n = rng.choice([1, 2, 4])
        vals = [float(rng.choice([0.0, 0.5, 1.0])) + rng.choice([0, 1, 2]) * 2.0 ** -40 for _ in range(n * C)]
        x = torch.tensor(vals, dtype=torch.float64).reshape(n, C)
        tgt = [rng.randrange(C) for _ in range(n)]
        k = rng.choice([None, 1, 2, C])
        yield build_fn_case({"form": "rank", "tag": "rank-f64-near-tie", "fn": rng.choice(["hit_rate", "reciprocal_rank"]),
                             "input": tj(x), "target": tj(it(tgt)), "k": k})
    # rejected / degenerate parameters
    yield case_rank("hit_rate", [[Fr(1), Fr(0), Fr(0)]], [1], 0)
    yield case_rank("hit_rate", [[Fr(1), Fr(0), Fr(0)]], [1], -2)
    yield case_rank("reciprocal_rank", [[Fr(1), Fr(0), Fr(0)]], [1], 0)
    yield case_rank("reciprocal_rank", [[Fr(1), Fr(0), Fr(0)]], [1], -1)
    yield case_rank("hit_rate", [[Fr(1), Fr(0), Fr(0)]], [3], 1)        # gather out of range
    yield case_rank("hit_rate", [[Fr(1), Fr(0), Fr(0)]], [3], 3)        # shortcut: target never read
    yield case_rank("reciprocal_rank", [[Fr(1), Fr(0), Fr(0)]], [-1], None)
    # shape errors
    x, y = ft([1, 0, 0, 1], shape=(2, 2)), it([0])
    for fn in ("hit_rate", "reciprocal_rank"):
        yield build_fn_case({"form": "rank", "tag": "rank-shape", "fn": fn, "input": tj(x), "target": tj(y), "k": 1, "expect": "err"})


def distinct_scores(rng: Rng, n):
    return rng.sample([Fr(i, 64) for i in range(64)], n)


def case_retrieval(fn, rows, k, limit, num_tasks):
    """rows: list of tasks, each a list of (score,label)."""
    oneD = num_tasks == 1
    xs = [float(s) for r in rows for s, _ in r]
    ys = [l for r in rows for _, l in r]
    shape = (len(rows[0]),) if oneD else (len(rows), len(rows[0]))
    x, y = ft(xs, shape=shape), it(ys, shape=shape)
    return build_fn_case({"form": "retrieval", "tag": "retrieval", "fn": fn, "input": tj(x), "target": tj(y), "k": k, "limit_k_to_size": limit,
                          "num_tasks": num_tasks})


def rel_labels(rng: Rng, n):
    mode = rng.choice(["zero", "one", "many", "rnd"])
    if mode == "zero" or n == 0:
        return [0] * n
    if mode == "one":
        l = [0] * n; l[rng.randrange(n)] = 1; return l
    if mode == "many":
        return [1 if rng.random() < 0.7 else 0 for _ in range(n)]
    return [rng.choice([0, 1]) for _ in range(n)]


def retrieval_cases(rng: Rng, tier):
    reps = 20 if tier == "thorough" else 4
    for n in range(0, 7):
        for k in [None] + list(range(1, n + 3)):
            for limit in (False, True):
                for _ in range(reps):
                    for fn in ("retrieval_precision", "retrieval_recall"):
                        nt = 1 if rng.random() < 0.7 else 2
                        rows = [list(zip(distinct_scores(rng, n), rel_labels(rng, n))) for _ in range(nt)]
                        yield case_retrieval(fn, rows, k, limit, nt)
    yield case_retrieval("retrieval_precision", [[(Fr(1, 2), 1)]], 0, False, 1)
    yield case_retrieval("retrieval_recall", [[(Fr(1, 2), 1)]], -1, False, 1)
    # shape errors
    x, y = ft([1, 0, 0], shape=(3,)), it([0, 1])
    for fn in ("retrieval_precision", "retrieval_recall"):
        yield build_fn_case({"form": "retrieval", "tag": "retrieval-shape", "fn": fn, "input": tj(x), "target": tj(y), "k": 1, "short": True, "expect": "err"})
        x2, y2 = ft([1, 0, 0, 1], shape=(2, 2)), it([0, 1, 1, 0], shape=(2, 2))
        yield build_fn_case({"form": "retrieval", "tag": "retrieval-shape", "fn": fn, "input": tj(x2), "target": tj(y2), "k": 1, "short": True, "expect": "err"})


def case_ctr(x, w, nt, tag="ctr", expect=None):
    js = {"form": "ctr", "tag": tag, "fn": "click_through_rate", "input": tj(x), "weights": jw(w), "num_tasks": nt}
    if expect:
        js["expect"] = expect
    return build_fn_case(js)


def case_wc(p, l, w, nt=None, tag="wc", expect=None):
    js = {"form": "wc", "tag": tag, "fn": "weighted_calibration", "input": tj(p), "target": tj(l), "weight": jw(w)}
    if nt is not None:
        js["num_tasks"] = nt
    if expect:
        js["expect"] = expect
    return build_fn_case(js)


def misc_cases(rng: Rng, tier):
    reps = 1500 if tier == "thorough" else 250
    for _ in range(reps):
        nt = rng.choice([1, 1, 2, 3])
        n = rng.choice([0, 1, 2, 5, 9])
        shape = (n,) if nt == 1 else (nt, n)
        # click-through rate
        clicks = [rng.choice([0, 1]) for _ in range(nt * n)]
        x = it(clicks, shape=shape)
        mode = rng.choice(["none", "tensor", "scalar", "zero"])
        if mode in ("tensor", "zero"):
            wv = [Fr(0)] * (nt * n) if mode == "zero" else rng.grid(nt * n, W4 + [Fr(0)])
            w = ft(wv, shape=shape)
        elif mode == "scalar":
            w = float(rng.choice(W4))
        else:
            w = None
        yield case_ctr(x, w, nt)
        # weighted calibration
        pv = rng.grid(nt * n, G4)
        lv = [rng.choice([0, 1]) for _ in range(nt * n)] if rng.random() < 0.85 else [0] * (nt * n)
        p, l = ft(pv, shape=shape), ft(lv, shape=shape)
        if rng.random() < 0.5:
            w = ft(rng.grid(nt * n, W4), shape=shape)
        else:
            w = float(rng.choice(W4))
        yield case_wc(p, l, w, nt)
        # collisions / frequency
        ids = [rng.randrange(4) for _ in range(n)]
        yield build_fn_case({"form": "collisions", "tag": "collisions", "fn": "num_collisions", "input": tj(it(ids))})
        xs = rng.grid(n, [Fr(j, 2) for j in range(0, 9)])
        kk = rng.choice([Fr(0), Fr(1, 2), Fr(2), Fr(7, 2), Fr(-1)])
        yield build_fn_case({"form": "frequency", "tag": "frequency", "fn": "frequency_at_k", "input": tj(ft(xs)), "k": float(kk)})
        # counts held in an INTEGER tensor against a fractional threshold (elements equal to floor(k) are below k)
        ci = [rng.randrange(5) for _ in range(n)]
        yield build_fn_case({"form": "frequency", "tag": "frequency-int", "fn": "frequency_at_k", "input": tj(it(ci)), "k": float(rng.choice([Fr(1, 2), Fr(5, 2), Fr(7, 2), Fr(2)]))})
    # shape / parameter errors
    x2 = it([1, 0, 1, 1], shape=(2, 2))
    yield case_ctr(x2, None, 1, "ctr-shape", "err")
    x1 = it([1, 0])
    yield case_ctr(x1, None, 2, "ctr-shape", "err")
    w3 = ft([1, 1, 1])
    yield case_ctr(x1, w3, 1, "ctr-shape", "err")
    p1, l1 = ft([Fr(1, 2), Fr(1, 4)]), ft([1, 0, 1])
    yield case_wc(p1, l1, None, None, "wc-shape", "err")
    l2 = ft([1, 0])
    yield case_wc(p1, l2, w3, None, "wc-shape", "err")
    yield build_fn_case({"form": "collisions", "tag": "collisions-shape", "fn": "num_collisions", "input": tj(x2), "expect": "err"})

# ------------------------------------------------------------------ text cases

def sent(rng: Rng, V, lo=0, hi=6):
    return [rng.randrange(V) for _ in range(rng.randint(lo, hi))]


def case_edit(a, b):
    return [build_fn_case({"form": "edit", "tag": "edit", "fn": "_edit_distance", "copy": copy, "prediction_tokens": list(a), "reference_tokens": list(b)})
            for copy in ("wer", "helper")]


def case_text(fn, inp, tgt, as_str=False):
    return build_fn_case({"form": "text", "tag": "text", "fn": fn, "input": inp, "target": tgt, "as_str": as_str})


def case_bleu(cands, refss, N, weights):
    return build_fn_case({"form": "bleu", "tag": "bleu", "fn": "bleu_score", "input": cands, "target": refss, "n_gram": N,
                          "weights": None if weights is None else [str(x) for x in weights]})


def text_cases(rng: Rng, tier):
    ab = [list(s) for n in range(0, 4) for s in itertools.product([0, 1], repeat=n)]
    for a in ab:
        for b in ab:
            yield from case_edit(a, b)
            for fn in ("word_error_rate", "word_information_preserved", "word_information_lost"):
                yield case_text(fn, [a], [b], as_str=(len(a) + len(b)) % 2 == 0)
    for _ in range(3000 if tier == "thorough" else 500):
        V = rng.choice([2, 50])
        yield from case_edit(sent(rng, V), sent(rng, V))
        n = rng.choice([0, 1, 2, 3])
        inp = [sent(rng, V) for _ in range(n)]
        tgt = [(list(s) if rng.random() < 0.2 else sent(rng, V)) for s in inp]
        if rng.random() < 0.08:
            tgt = tgt + [sent(rng, V)]          # length mismatch -> rejected
        yield case_text(rng.choice(["word_error_rate", "word_information_preserved", "word_information_lost"]), inp, tgt)
    # str vs list type mismatch (WER / WIP reject, WIL wraps)
    for fn in ("word_error_rate", "word_information_preserved", "word_information_lost"):
        yield build_fn_case({"form": "text-mixed", "tag": "text-type", "fn": fn, "input": [0, 1], "target": [[0, 2]]})
    for _ in range(3000 if tier == "thorough" else 500):
        V = rng.choice([2, 2, 50])
        N = rng.choice([1, 2, 3, 4])
        n = rng.choice([1, 1, 2, 3])
        cands = [sent(rng, V, 0 if rng.random() < 0.1 else N, 6) for _ in range(n)]
        refss = []
        for c in cands:
            refs = []
            for _r in range(rng.randint(1, 3)):
                if V == 50 and rng.random() < 0.7:      # perturb the candidate so that n-grams overlap
                    r = [t if rng.random() < 0.75 else rng.randrange(V) for t in c]
                    if rng.random() < 0.4 and r:
                        r = r[:-1]
                    if rng.random() < 0.4:
                        r = r + [rng.randrange(V)]
                else:
                    r = sent(rng, V)
                refs.append(r)
            refss.append(refs)
        weights = None
        if rng.random() < 0.35:
            weights = rng.choice([[Fr(1, 2)] * N, [Fr(1, 4)] + [Fr(1, 8)] * (N - 1), [Fr(1)] + [Fr(0)] * (N - 1), [Fr(3, 4), Fr(1, 4)]])
        yield case_bleu(cands, refss, N, weights)
    yield case_bleu([[0, 1, 2]], [[]], 1, None)                    # no reference: min([])
    yield case_bleu([[0, 1, 2]], [[[0, 1]], [[2]]], 1, None)       # corpus size mismatch
    yield case_bleu([[0, 1, 2]], [[[0, 1, 2]]], 5, None)           # n_gram out of range
    yield case_bleu([[0, 1]], [[[0, 1, 2], [0]]], 1, None)         # closest-length tie: |3-2| = |1-2| -> shorter
    yield case_bleu([[0, 1, 2, 3]], [[[0, 1, 2, 3]]], 4, None)


def fn_cases(rng, tier):
    yield from rank_cases(rng, tier)
    yield from retrieval_cases(rng, tier)
    yield from misc_cases(rng, tier)
    yield from text_cases(rng, tier)


def fn_agrees(real, exp, tol):
    """the verdict of the definition oracle on one functional case: True / False / None (the definition does not decide)"""
    return oracle_agrees(real, exp, max(tol, 2e-5))


def fn_violation(fn, tag, js, real, exp, extra=None):
    return (f"C08|{fn}|{tag}|differs-from-definition",
            f"{fn} returns {real[1] if real[0] == 'err' else [t.tolist() for t in real[1]]} where the definition gives {exp}",
            {"kind": "fn", "case": js, "definition": str(exp), **(extra or {})})


def check_fn_cases(rep: Report, cases, stream: str):
    cases = list(cases)
    outs = run_driver([c[2] for c in cases])
    nbad = 0
    for (fn, thunk, req, exp, tol, tag, js), o in zip(cases, outs):
        real = thunk()
        model = dec_out(o)
        rep.count(f"fn:{fn}"); rep.count(f"kind:{tag}")
        if real[0] == "err":
            rep.count(f"err:{real[1]}")
        rep.case(nontrivial_key=(fn, req), sample={"request": req, "model": o} if rep.evaluations % 1500 == 0 else None)
        agrees = fn_agrees(real, exp, tol)
        msg = outcomes_agree(real, model, tol=tol or None, strict_kind=True)
        if agrees is False:
            nbad += 1
            rep.violation(*fn_violation(fn, tag, js, real, exp, {"request": req, "model": o}))
        elif msg is not None:
            nbad += 1
            rep.broke(f"correspondence:{stream}:{fn}", f"model and implementation disagree ({msg}); the oracle "
                      + ("agrees with the implementation" if agrees else "does not cover this case"),
                      {"kind": "fn", "case": js, "request": req, "model": o})
        if nbad > 25:
            break
    rep.streams[stream] = {"cases": len(cases), "disagreements": nbad}

# ------------------------------------------------------------------ source identity of the two `_edit_distance` copies

def check_copies(rep: Report):
    a = ast.dump(ast.parse(textwrap.dedent(inspect.getsource(text_helper._edit_distance))))
    b = ast.dump(ast.parse(textwrap.dedent(inspect.getsource(text_wer._edit_distance))))
    rep.case(nontrivial_key=("edit-distance-copies",))
    if a != b:
        # the texts differ (one copy was refactored): the Lean model still uses one definition for both, so the two
        # copies must at least compute the same function — compared on every pair of word lists of length ≤ 4 over
        # a 3-letter vocabulary (14 641 pairs); each copy is also compared with the model through its public entry.
        import itertools
        words = [list(w) for n in range(5) for w in itertools.product("abc", repeat=n)]
        rep.count("edit-distance-copies:texts-differ")
        for x in words:
            for y in words:
                ra, rb = text_helper._edit_distance(x, y), text_wer._edit_distance(x, y)
                if ra != rb:
                    rep.broke("model:editDistanceHelper", f"the two copies of _edit_distance (helper.py, word_error_rate.py) differ on {x} / {y}: "
                              f"{ra} vs {rb}; the Lean model uses one definition for both", {"kind": "copies", "x": x, "y": y})
                    return

# ------------------------------------------------------------------ class forms

def retrieval_definition(kind, cfg, data):
    """the definition on ALL data per query. returns ('ok', [values]) | ('err',)"""
    k, limit = cfg.get("k"), cfg.get("limit_k_to_size", False)
    act = cfg.get("empty_target_action", "neg")
    vals = []
    for items in data:
        if not items:
            vals.append(math.nan)
        elif not any(l == 1 for _, l in items):
            if act == "err":
                return ("err",)
            vals.append({"pos": Fr(1), "neg": Fr(0), "skip": math.nan}[act])
        else:
            vals.append(o_precision(items, k, limit) if kind == "precision" else o_recall(items, k))
    if cfg.get("avg") == "macro":
        good = [v for v in vals if not (isinstance(v, float) and math.isnan(v))]
        return ("ok", [sum(good) / len(good) if good else math.nan])
    return ("ok", vals)


def retrieval_mechanism(kind, cfg, data):
    """is there a query on which pruning to the top-k changes what compute() sees?"""
    k = cfg.get("k")
    if k is None:
        return False
    for items in data:
        rel_all = sum(1 for _, l in items if l == 1)
        rel_top = sum(o_retrieved(items, k))
        if kind == "recall" and rel_all > rel_top:
            return True
        if kind == "precision" and rel_all > 0 and rel_top == 0 and cfg.get("empty_target_action", "neg") != "neg":
            return True
    return False


def gen_retrieval_prog(rng: Rng, name, fixed=None):
    spec = BY_NAME[name]
    if fixed:
        cfg, shards = fixed
    else:
        k = rng.choice([None, 1, 2, 3, 9])
        cfg = {"k": k, "num_queries": rng.choice([1, 1, 2, 3]), "empty_target_action": rng.choice(["neg", "neg", "pos", "skip", "err"])}
        if k is not None and rng.random() < 0.4:
            cfg["limit_k_to_size"] = True
        if rng.random() < 0.3:
            cfg["avg"] = "macro"
        nq = cfg["num_queries"]
        pool = rng.sample([Fr(i, 128) for i in range(128)], 128)
        dens = [rng.choice([0.0, 0.15, 0.5, 0.9]) for _ in range(nq)]
        shards = []
        for _s in range(rng.randint(1, 3)):
            bs = []
            for _b in range(rng.randint(0, 3)):
                n = rng.choice([0, 1, 2, 3, 4])
                idx = [rng.randrange(nq) for _ in range(n)]
                bs.append([(pool.pop(), 1 if rng.random() < dens[q] else 0, q) for q in idx])
            shards.append(bs)
    nq = cfg.get("num_queries", 1)
    p = Prog(spec, cfg)
    data = [[] for _ in range(nq)]
    for s, bs in enumerate(shards):
        for b in bs:
            args = (ft([x for x, _, _ in b]), it([l for _, l, _ in b]))
            if nq > 1:
                args += (it([q for _, _, q in b]),)
            p.u(s, Batch(args))
            for x, l, q in b:
                data[q].append((x, l))
    root = 0
    if len(shards) > 1:
        if rng.random() < 0.5:
            p.m(0, list(range(1, len(shards))))
        else:
            for j in range(1, len(shards)):
                p.m(0, [j])
    p.o(root)
    return p, data


def prog_json(p: Prog) -> dict:
    """`Prog.describe()` (class, public configuration, ops with every batch's tensors incl. dtype and shape) with
    tensor-valued configuration entries (BLEUScore weights) written out as tensor descriptions"""
    d = p.describe()
    d["cfg"] = {k: (tj(v) if isinstance(v, torch.Tensor) else v) for k, v in d["cfg"].items()}
    return d


def prog_from_json(d: dict) -> Prog:
    d = dict(d)
    d["cfg"] = {k: (_tensor(v) if is_tj(v) else v) for k, v in d["cfg"].items()}
    return Prog.from_describe(d)


def retrieval_data(p: Prog, root=0):
    """[(score, label)] per query of everything that reached instance `root` (its own updates and the merged shards')"""
    nq = p.cfg.get("num_queries", 1)
    data = [[] for _ in range(nq)]
    for b in p.flat.get(root, []):
        xs, ls = b.args[0].tolist(), b.args[1].tolist()
        qs = b.args[2].tolist() if len(b.args) > 2 else [0] * len(xs)
        for x, l, q in zip(xs, ls, qs):
            data[q].append((Fr(x), int(l)))
    return data


def retrieval_verdict(kind, p: Prog, real_out):
    """the definition applied to ALL data that reached the root vs compute() of the root: (holds?, definition, data)"""
    cfg = {k: v for k, v in p.cfg.items() if not k.startswith("_")}
    data = retrieval_data(p)
    exp = retrieval_definition(kind, cfg, data)
    if exp[0] == "err":
        ok = real_out[0] == "err"
    else:
        ok = real_out[0] == "ok" and oracle_agrees(("ok", real_out[1]), exp[1]) is True
    return ok, exp, data


def check_retrieval_classes(rep: Report, rng: Rng, n_progs: int):
    wit_recall = ({"k": 1}, [[[(Fr(3), 1, 0), (Fr(2), 1, 0), (Fr(1), 1, 0)]]])
    wit_prec = ({"k": 1, "empty_target_action": "pos"}, [[[(Fr(3), 0, 0), (Fr(2), 1, 0)]]])
    progs = []
    for name, kind, wit in (("RetrievalPrecision", "precision", wit_prec), ("RetrievalRecall", "recall", wit_recall)):
        progs.append((name, kind) + gen_retrieval_prog(rng, name, wit))           # the Lean witness inputs, replayed every run
        for _ in range(n_progs):
            progs.append((name, kind) + gen_retrieval_prog(rng, name))
    reals = [run_real(p) for _, _, p, _ in progs]
    models, lines = model_results([p for _, _, p, _ in progs])
    nbad = 0
    for (name, kind, p, _gen_data), res, mod, line in zip(progs, reals, models, lines):
        cfg = {k: v for k, v in p.cfg.items() if not k.startswith("_")}
        rep.count(f"class:{name}"); rep.count(f"k:{cfg.get('k')}"); rep.count(f"queries:{cfg.get('num_queries', 1)}")
        rep.count(f"policy:{cfg.get('empty_target_action', 'neg')}")
        real_out = res[-1]
        ok, exp, data = retrieval_verdict(kind, p, real_out)       # (the same function decides a replay)
        mech = retrieval_mechanism(kind, cfg, data)
        rep.count(f"relevant-outside-topk:{mech}")
        rep.case(nontrivial_key=(name, line), sample=p.describe() if rep.evaluations % 400 == 0 else None)
        rep.traces += 1
        d = compare_with_model(p, res, mod, 2e-5)
        replay = {"kind": "prog", "check": "retrieval-class", "program": prog_json(p), "driver_line": line, "model": mod, "real": obs_json(real_out),
                  "definition_on_all_data": [str(v) for v in exp[1]] if exp[0] == "ok" else "raises"}
        if not ok:
            explained = mech and d is None
            sig = (SIG_RECALL if kind == "recall" else SIG_PRECISION) if explained else f"C08|{name}|class-vs-definition|unexplained"
            rep.violation(sig, f"{name}{cfg}: compute() gives {obs_json(real_out)} but the definition applied to all data seen gives "
                          f"{replay['definition_on_all_data']} (the class keeps only the top-k (score,label) pairs per query)", replay)
            nbad += 1
        elif d:
            rep.broke(f"correspondence:class-model:{name}", f"model and implementation disagree at op {d[0]}: {d[1]}", replay)
            nbad += 1
    rep.streams["retrieval-classes"] = {"cases": len(progs), "differ-from-definition-or-model": nbad}


def simple_class_progs(rng: Rng, tier):
    """(class name, cfg, batches, definition thunk over all batches) for the additive / cache-all classes."""
    out = []
    reps = 250 if tier == "thorough" else 40
    for _ in range(reps):
        # HitRate / ReciprocalRank: per-sample values in arrival order
        for name, orc in (("HitRate", o_hit), ("ReciprocalRank", o_rr)):
            k = rng.choice([None, 1, 2, 4, 6])
            bs, rows_all, tgt_all = [], [], []
            for _b in range(rng.randint(0, 3)):
                n = rng.choice([0, 1, 2, 3])
                rows = [rng.grid(4, L3) for _ in range(n)]
                tgt = [rng.randrange(4) for _ in range(n)]
                bs.append(Batch((ft([v for r in rows for v in r], shape=(n, 4)), it(tgt))))
                rows_all += rows; tgt_all += tgt
            out.append((name, {"k": k}, bs, orc(rows_all, tgt_all, k), 2e-5))
        # ClickThroughRate / WeightedCalibration
        nt = rng.choice([1, 2])
        bs, ct, wt = [], [Fr(0)] * nt, [Fr(0)] * nt
        for _b in range(rng.randint(0, 3)):
            n = rng.choice([1, 2, 5])
            shape = (n,) if nt == 1 else (nt, n)
            cl = [rng.choice([0, 1]) for _ in range(nt * n)]
            if rng.random() < 0.5:
                wv = rng.grid(nt * n, W4 + [Fr(0)])
                bs.append(Batch((it(cl, shape=shape), ft(wv, shape=shape))))
            else:
                q = rng.choice(W4); wv = [q] * (nt * n)
                bs.append(Batch((it(cl, shape=shape), float(q))) if rng.random() < 0.5 and q != 1 else Batch((it(cl, shape=shape),)))
                if len(bs[-1].args) == 1:
                    wv = [Fr(1)] * (nt * n)
            for r in range(nt):
                ct[r] += sum(c * w for c, w in zip(cl[r * n:(r + 1) * n], wv[r * n:(r + 1) * n]))
                wt[r] += sum(wv[r * n:(r + 1) * n])
        out.append(("ClickThroughRate", {"num_tasks": nt}, bs, [Fr(0) if w == 0 else c / w for c, w in zip(ct, wt)], 1e-9))
        bs, ws, wl = [], [Fr(0)] * nt, [Fr(0)] * nt
        for _b in range(rng.randint(0, 3)):
            n = rng.choice([1, 2, 5])
            shape = (n,) if nt == 1 else (nt, n)
            pv = rng.grid(nt * n, G4); lv = [rng.choice([0, 1]) for _ in range(nt * n)]
            if rng.random() < 0.5:
                wv = rng.grid(nt * n, W4)
                bs.append(Batch((ft(pv, shape=shape), ft(lv, shape=shape), ft(wv, shape=shape))))
            else:
                # a python-scalar weight for the whole batch, different from batch to batch: it cancels within ONE call, not across
                # the accumulated updates of the class
                q = rng.choice(W4); wv = [q] * (nt * n)
                bs.append(Batch((ft(pv, shape=shape), ft(lv, shape=shape), float(q) if rng.random() < 0.7 else int(q) if q == int(q) else float(q))))
            for r in range(nt):
                sl = slice(r * n, (r + 1) * n)
                ws[r] += sum(a * b for a, b in zip(wv[sl], pv[sl])); wl[r] += sum(a * b for a, b in zip(wv[sl], lv[sl]))
        out.append(("WeightedCalibration", {"num_tasks": nt}, bs, [] if all(x == 0 for x in wl) else [xdiv(a, b) for a, b in zip(ws, wl)], 1e-9))   # empty only when NO task has target weight
        # text classes
        V = rng.choice([2, 50])
        inp_all, tgt_all, bs = [], [], []
        for _b in range(rng.randint(0, 3)):
            n = rng.choice([1, 2])
            inp = [sent(rng, V, 1, 6) for _ in range(n)]
            tgt = [sent(rng, V, 1, 6) for _ in range(n)]
            bs.append(Batch(([words(s) for s in inp], [words(s) for s in tgt])))
            inp_all += inp; tgt_all += tgt
        out.append(("WordErrorRate", {}, bs, [o_wer(inp_all, tgt_all)], 2e-5))
        out.append(("WordInformationPreserved", {}, bs, [o_wip(inp_all, tgt_all)], 1e-9))
        out.append(("WordInformationLost", {}, bs, [o_wil(inp_all, tgt_all)], 1e-9))
        N = rng.choice([1, 2, 3])
        weights = None if rng.random() < 0.6 else [Fr(1, 2)] * N
        cands_all, refs_all, bs = [], [], []
        for _b in range(rng.randint(0, 3)):
            n = rng.choice([1, 2])
            cands = [sent(rng, V, N, 6) for _ in range(n)]
            refss = [[[t if rng.random() < 0.7 else rng.randrange(V) for t in c] + ([rng.randrange(V)] if rng.random() < 0.3 else [])
                      for _r in range(rng.randint(1, 3))] for c in cands]
            bs.append(Batch(([words(c) for c in cands], [[words(r) for r in refs] for refs in refss])))
            cands_all += cands; refs_all += refss
        if not cands_all:
            exp = [0.0]
        else:
            _, _, ms, _ = o_bleu_stats(cands_all, refs_all, N)
            exp = [0.0] if sum(ms) == 0 else [o_bleu(cands_all, refs_all, N, weights)]
        cfg = {"n_gram": N}
        if weights is not None:
            cfg["weights"] = ft(weights)
        out.append(("BLEUScore", cfg, bs, exp, 1e-4))
    return out


def class_tol(name):
    return 1e-4 if name == "BLEUScore" else 2e-5


def class_definition(name, cfg, batches):
    """the definition applied to ALL the batches that reached the observed instance, in the order they reached it (update
    order of the root, then the merged shard's): list of expected values.  Computed from the batches themselves — the
    tensors with their dtype, python scalars as given, the sentences — so a replayed program is judged exactly like a swept one."""
    if name in ("HitRate", "ReciprocalRank"):
        rows, tgt = [], []
        for b in batches:
            rows += [[Fr(v) for v in r] for r in b.args[0].tolist()]; tgt += b.args[1].tolist()
        return (o_hit if name == "HitRate" else o_rr)(rows, tgt, cfg["k"])
    if name == "ClickThroughRate":
        nt = cfg.get("num_tasks", 1)
        ct, wt = [Fr(0)] * nt, [Fr(0)] * nt
        for b in batches:
            cl = frows(b.args[0])
            w = b.args[1] if len(b.args) > 1 else 1
            wr = frows(w) if isinstance(w, torch.Tensor) else [[Fr(w)] * len(r) for r in cl]
            for r in range(nt):
                ct[r] += sum(c * q for c, q in zip(cl[r], wr[r])); wt[r] += sum(wr[r])
        return [Fr(0) if w == 0 else c / w for c, w in zip(ct, wt)]
    if name == "WeightedCalibration":
        nt = cfg.get("num_tasks", 1)
        ws, wl = [Fr(0)] * nt, [Fr(0)] * nt
        for b in batches:
            pr, lr = frows(b.args[0]), frows(b.args[1])
            w = b.args[2] if len(b.args) > 2 else 1
            wr = frows(w) if isinstance(w, torch.Tensor) else [[Fr(w)] * len(r) for r in pr]
            for r in range(nt):
                ws[r] += sum(a * q for a, q in zip(wr[r], pr[r])); wl[r] += sum(a * q for a, q in zip(wr[r], lr[r]))
        return [] if all(x == 0 for x in wl) else [xdiv(a, b) for a, b in zip(ws, wl)]      # empty only when NO task has target weight
    if name in ("WordErrorRate", "WordInformationPreserved", "WordInformationLost"):
        inp = [s_.split() for b in batches for s_ in b.args[0]]
        tgt = [s_.split() for b in batches for s_ in b.args[1]]
        return [{"WordErrorRate": o_wer, "WordInformationPreserved": o_wip, "WordInformationLost": o_wil}[name](inp, tgt)]
    if name == "BLEUScore":
        N = cfg["n_gram"]
        weights = None if cfg.get("weights") is None else [Fr(v) for v in cfg["weights"].tolist()]
        cands = [c.split() for b in batches for c in b.args[0]]
        refss = [[r.split() for r in refs] for b in batches for refs in b.args[1]]
        if not cands:
            return [0.0]
        _, _, ms, _ = o_bleu_stats(cands, refss, N)
        return [0.0] if sum(ms) == 0 else [o_bleu(cands, refss, N, weights)]
    raise KeyError(name)


def class_verdict(p: Prog, real_out, root=0):
    """(holds?, definition on all data) for a program over one of the additive / cache-all classes"""
    name = p.spec.name
    exp = class_definition(name, p.cfg, p.flat.get(root, []))
    ok = real_out[0] == "ok" and oracle_agrees(("ok", real_out[1]), exp, class_tol(name)) is True
    return ok, exp


def _same_expectation(a, b):
    return len(a) == len(b) and all(close(float(x), y, 1e-12) for x, y in zip(a, b))


def check_simple_classes(rep: Report, rng: Rng, tier):
    items = simple_class_progs(rng, tier)
    progs = []
    for name, cfg, bs, exp, tol in items:
        p = Prog(BY_NAME[name], cfg)
        k = rng.randint(1, 2)
        for j, b in enumerate(bs):
            p.u(j % k, b)
        if k > 1:
            # order-carrying classes keep merge order: feed shard 0 first, then shard 1
            if name in ("HitRate", "ReciprocalRank"):
                p.ops = [op for op in p.ops if op[1] == 0] + [op for op in p.ops if op[1] == 1]
            p.m(0, [1])
        p.o(0)
        progs.append(p)
    reals = [run_real(p) for p in progs]
    models, lines = model_results(progs)
    nbad = 0
    for (name, cfg, bs, exp, tol), p, res, mod, line in zip(items, progs, reals, models, lines):
        rep.count(f"class:{name}")
        rep.case(nontrivial_key=(name, line) if bs else None)
        rep.traces += 1
        real_out = res[-1]
        gen_exp = exp
        ok, exp = class_verdict(p, real_out)          # the definition on all data in merge order (the same function decides a replay)
        if not (name in ("HitRate", "ReciprocalRank") and any(op[0] == "m" for op in p.ops)) and not _same_expectation(gen_exp, exp):
            # the generator's own bookkeeping of the expectation (python values) and the definition evaluated on the batches disagree
            rep.broke(f"harness:class-definition:{name}", f"generator expects {gen_exp}, the definition on the batches gives {exp}", {"kind": "harness"})
        d = compare_with_model(p, res, mod, max(tol, 2e-5))
        replay = {"kind": "prog", "check": "simple-class", "program": prog_json(p), "driver_line": line, "model": mod, "real": obs_json(real_out),
                  "definition_on_all_data": [str(v) for v in exp]}
        if not ok:
            rep.violation(f"C08|{name}|class-vs-definition|differs", f"{name}: compute() gives {obs_json(real_out)} but the definition on all data gives {replay['definition_on_all_data']}", replay)
            nbad += 1
        elif d:
            rep.broke(f"correspondence:class-model:{name}", f"model and implementation disagree at op {d[0]}: {d[1]}", replay)
            nbad += 1
    rep.streams["additive-classes"] = {"cases": len(progs), "disagreements": nbad}

# ------------------------------------------------------------------ spec oracles of the driver (Lean `TE/Spec`) vs the Python oracle

def check_lean_specs(rep: Report, rng: Rng):
    """keeps the Lean textbook definitions honest: they must agree with the independent Python oracle."""
    reqs, exps = [], []
    for _ in range(40):
        C = 4
        rows = [rng.grid(C, L3) for _ in range(3)]
        tgt = [rng.randrange(C) for _ in range(3)]
        k = rng.choice([None, 1, 2, 5])
        x, y = ft([v for r in rows for v in r], shape=(3, C)), it(tgt)
        reqs.append(f"fn spec.hit_rate input={enc_tensor(x)} target={enc_tensor(y)} k={enc_val(k)}"); exps.append(o_hit(rows, tgt, k))
        reqs.append(f"fn spec.reciprocal_rank input={enc_tensor(x)} target={enc_tensor(y)} k={enc_val(k)}"); exps.append(o_rr(rows, tgt, k))
        n = rng.randint(0, 5)
        items = list(zip(distinct_scores(rng, n), rel_labels(rng, n)))
        k = rng.choice([None, 1, 2, n + 1])
        lim = k is not None and rng.random() < 0.5
        x, y = ft([s for s, _ in items]), it([l for _, l in items])
        reqs.append(f"fn spec.retrieval_precision input={enc_tensor(x)} target={enc_tensor(y)} k={enc_val(k)} limit_k_to_size={enc_val(lim)}"); exps.append([o_precision(items, k, lim)])
        reqs.append(f"fn spec.retrieval_recall input={enc_tensor(x)} target={enc_tensor(y)} k={enc_val(k)}"); exps.append([o_recall(items, k)])
        V = rng.choice([2, 50])
        a, b = sent(rng, V, 0, 5), sent(rng, V, 0, 5)
        for copy in ("prefix", "list"):
            reqs.append(f"fn spec.edit_distance prediction_tokens={enc_sent(a)} reference_tokens={enc_sent(b)} copy={copy}"); exps.append([Fr(lev(tuple(a), tuple(b)))])
        inp, tgt2 = [a, sent(rng, V, 0, 4)], [b, sent(rng, V, 0, 4)]
        for fn, orc in (("word_error_rate", o_wer), ("word_information_preserved", o_wip), ("word_information_lost", o_wil)):
            reqs.append(f"fn spec.{fn} input={enc_sents(inp)} target={enc_sents(tgt2)}"); exps.append([orc(inp, tgt2)])
        N = rng.choice([1, 2, 3, 4])
        c = sent(rng, 2, N, 6)
        refs = [sent(rng, 2, 0, 6) for _ in range(rng.randint(1, 3))]
        e = o_bleu([c], [refs], N, None)
        reqs.append(f"fn spec.bleu_score input={enc_sents([c])} target={enc_refs([refs])} n_gram={N}"); exps.append([e])
    outs = run_driver(reqs)
    for r, o, e in zip(reqs, outs, exps):
        rep.case(nontrivial_key=("spec", r))
        m = dec_out(o)
        good = m[0] == "ok" and len(m[1]) == 1 and len(m[1][0][1]) == len(e) and all(close(float(a), b, 1e-9) for a, b in zip(m[1][0][1], e))
        if not good:
            rep.broke("spec-oracle:" + r.split()[1], f"the Lean textbook definition and the Python oracle disagree: {o} vs {e}", {"kind": "spec", "request": r, "model": o})
    rep.streams["lean-spec-vs-python-oracle"] = {"cases": len(reqs)}

# ------------------------------------------------------------------ entry points

# ------------------------------------------------------------------ kernel stream (generated terms vs the real kernels)
# (T) harness/translators/kernels.py translates click_through_rate / weighted_calibration (update + compute), hit_rate,
# reciprocal_rank, frequency_at_k and num_collisions from their source into terms of TE/Model/TExpr.lean (TE/Gen/KernelsRank.lean,
# regenerated here); TE/Props/C08_Kernels.lean proves the generated terms equal to the models of TE/Model/Rank.lean; this stream runs
# the generated terms against the REAL functions.

KERNEL_MODULES = {"ranking/click_through_rate": "torcheval.metrics.functional.ranking.click_through_rate",
                  "ranking/weighted_calibration": "torcheval.metrics.functional.ranking.weighted_calibration",
                  "ranking/hit_rate": "torcheval.metrics.functional.ranking.hit_rate",
                  "ranking/reciprocal_rank": "torcheval.metrics.functional.ranking.reciprocal_rank",
                  "ranking/frequency": "torcheval.metrics.functional.ranking.frequency",
                  "ranking/num_collisions": "torcheval.metrics.functional.ranking.num_collisions"}


def translate(rep: Report):
    """(T) regenerate lean/TE/Gen/KernelsRank.lean from the kernels' source (TE.Props.C08_Kernels is proved about it)"""
    from ..translators import kernels
    from ..common import LEAN
    rows = kernels.generate(rep, family="C08")
    props = (LEAN / "TE" / "Props" / "C08_Kernels.lean").read_text()
    for r in rows:
        if r["term"] is not None and f"Gen.Rank.k_{r['id']}" not in props.replace(f"Gen.Rank.k_{r['id']}_", ""):
            rep.broke(f"kernels:{r['id']}", f"kernel {r['func']} is translated but no theorem of TE/Props/C08_Kernels.lean is about Gen.Rank.k_{r['id']}", {})


def kenc(v) -> str:
    """typed argument syntax of the `gen.<kernel>` requests (TE/Driver/Kernels.lean)"""
    if isinstance(v, torch.Tensor):
        return enc_tensor(v)
    if v is None:
        return "none"
    if isinstance(v, bool):
        return "b.true" if v else "b.false"
    if isinstance(v, int):
        return f"i.{v}"
    if isinstance(v, float):
        return "q." + fq(v)
    if isinstance(v, str):
        return "s." + v
    raise TypeError(f"kernel argument {v!r}")


def kernel_rows():
    from ..translators import kernels
    rows = {r["id"]: r for r in kernels.facts(family="C08")}
    for r in rows.values():
        if "fn" not in r:
            try:
                mod = importlib.import_module(KERNEL_MODULES[r["module"]])
                r["fn"] = getattr(mod, r["func"], None)
                r["check"] = next((getattr(mod, n) for n in dir(mod) if n.endswith("_input_check")), None)
            except Exception:  # noqa: BLE001
                r["fn"] = r["check"] = None
    return rows


def kernel_calls(rows, js):
    """the kernel calls behind one functional case description: [(kernel id, request arguments, real outcome)]"""
    out = []

    def usable(kid):
        r = rows.get(kid)
        return r is not None and r["term"] is not None and r.get("fn") is not None

    def rejected(kid, *a, **kw):
        """the kernel's `_input_check` (skipped by the translation, C18) rejects the arguments"""
        chk = rows[kid].get("check")
        if chk is None:
            return False
        try:
            chk(*a, **kw)
        except (ValueError, TypeError):
            return True
        except Exception:  # noqa: BLE001
            return False
        return False

    form = js["form"]
    if form == "rank" and usable(js["fn"]):
        x, y, k = _tensor(js["input"]), _tensor(js["target"]), js["k"]
        if not rejected(js["fn"], x, y, k) if js["fn"] == "hit_rate" else not rejected(js["fn"], x, y):
            out.append((js["fn"], {"input": x, "target": y, "k": k}, call_real(rows[js["fn"]]["fn"], x, y, k=k)))
    elif form == "ctr" and usable("click_through_rate_update"):
        x, w, nt = _tensor(js["input"]), wj(js["weights"]), js["num_tasks"]
        w = 1.0 if w is None else w
        if not rejected("click_through_rate_update", x, w, num_tasks=nt):
            real = call_real(rows["click_through_rate_update"]["fn"], x, w, num_tasks=nt)
            out.append(("click_through_rate_update", {"input": x, "weights": w, "num_tasks": nt}, real))
            if real[0] == "ok" and usable("click_through_rate_compute"):
                c, t = real[1]
                out.append(("click_through_rate_compute", {"click_total": c, "weight_total": t, "finfo.tiny": float(torch.finfo(t.dtype).tiny)},
                            call_real(rows["click_through_rate_compute"]["fn"], c, t)))
    elif form == "wc" and usable("weighted_calibration_update"):
        p_, l_, w = _tensor(js["input"]), _tensor(js["target"]), wj(js.get("weight"))
        w = 1.0 if w is None else w
        nt = js.get("num_tasks", 1)
        if not rejected("weighted_calibration_update", p_, l_, w, num_tasks=nt):
            a = {"input": p_, "target": l_, "weight": w, "num_tasks": nt}
            out.append(("weighted_calibration_update", a, call_real(rows["weighted_calibration_update"]["fn"], p_, l_, w, num_tasks=nt)))
            if usable("weighted_calibration_compute"):
                out.append(("weighted_calibration_compute", a, call_real(rows["weighted_calibration_compute"]["fn"], p_, l_, w, num_tasks=nt)))
    elif form == "collisions" and usable("num_collisions"):
        xi = _tensor(js["input"])
        if not rejected("num_collisions", xi):
            out.append(("num_collisions", {"input": xi}, call_real(rows["num_collisions"]["fn"], xi)))
    elif form == "frequency" and usable("frequency_at_k"):
        xf, k = _tensor(js["input"]), js["k"]
        if not rejected("frequency_at_k", xf, k):
            out.append(("frequency_at_k", {"input": xf, "k": float(k)}, call_real(rows["frequency_at_k"]["fn"], xf, k)))
    return out


def kernel_stream(rep: Report, rng: Rng):
    """the GENERATED term of every translated kernel (request `gen.<kernel>`) against the REAL function on the same arguments
    (every case of the rank / ctr / wc / collisions / frequency generators).  A disagreement is a broken correspondence between
    the source and its translation (`kernels:<name>`), never a violation by itself."""
    rows = kernel_rows()
    calls = []
    for gen in (rank_cases, misc_cases):
        for _fn, _thunk, _req, _exp, _tol, _tag, js in gen(rng, rep.tier):
            if js.get("form") in ("rank", "ctr", "wc", "collisions", "frequency"):
                calls += kernel_calls(rows, js)
    lines = [f"fn gen.{kid} " + " ".join(f"{k}={kenc(v)}" for k, v in a.items()) for kid, a, _ in calls]
    outs = run_driver(lines)
    nbad = {}
    for (kid, a, real), line, o in zip(calls, lines, outs):
        rep.count(f"kernel-stream:{kid}")
        if real[0] == "err":
            rep.count(f"kernel-stream:err:{real[1]}")
        rep.case(nontrivial_key=("kernel", line), sample={"request": line[:300], "model": o[:200]} if rep.dist.get(f"kernel-stream:{kid}") == 1 else None)
        rep.traces += 1
        msg = outcomes_agree(real, dec_out(o), strict_kind=True)
        if msg is None:
            continue
        nbad[kid] = nbad.get(kid, 0) + 1
        if nbad[kid] <= 3:
            rep.broke(f"kernels:{kid}", f"the term generated from the source of {rows[kid]['module']}.{rows[kid]['func']} and the real function disagree ({msg}) "
                      f"on {line[:400]}", {"kind": "kernel", "kernel": kid, "request": line, "generated": o,
                                           "real": real[1] if real[0] == "err" else [t.tolist() for t in real[1]]})
    untr = [k for k, r in rows.items() if r["term"] is None]
    rep.streams["kernels"] = {"cases": len(calls), "disagreements": sum(nbad.values()), "untranslated": untr}


def run(rep: Report):
    rng = Rng(rep.seed * 1000003 + 8)
    from .. import opscheck; opscheck.check_ops(rep, ["rank"])
    check_copies(rep)
    check_fn_cases(rep, fn_cases(rng, rep.tier), "functional")
    check_retrieval_classes(rep, rng, 3000 if rep.tier == "thorough" else 400)
    check_simple_classes(rep, rng, rep.tier)
    check_lean_specs(rep, rng)
    kernel_stream(rep, Rng(rep.seed * 1000003 + 888))


def search(rep: Report):
    """the proof or the correspondence broke: look for an input on which the real code leaves the
    definition (thorough-size space, Python oracle only)."""
    rng = Rng(rep.seed * 7919 + 808)
    deadline = time.time() + 120
    for fn, thunk, req, exp, tol, tag, js in fn_cases(rng, "thorough"):
        if time.time() > deadline:
            return
        real = thunk()
        if fn_agrees(real, exp, tol) is False:
            rep.violation(*fn_violation(fn, tag, js, real, exp, {"request": req}))
            return


RETRIEVAL_KIND = {"RetrievalRecall": "recall", "RetrievalPrecision": "precision"}
SIMPLE_CLASSES = ("HitRate", "ReciprocalRank", "ClickThroughRate", "WeightedCalibration", "WordErrorRate", "WordInformationPreserved",
                  "WordInformationLost", "BLEUScore")


def _nothing(reason):
    raise ValueError(f"nothing to replay: {reason}")


def replay(payload) -> bool:
    """True iff the property holds on the recorded input, decided by the oracle that raised the violation:
    `kind: fn`   -> the case is rebuilt by `build_fn_case` from its description, the real function is called, `fn_agrees`;
    `kind: prog` -> the program is rebuilt from its description, run on the real classes, `retrieval_verdict` / `class_verdict`."""
    if not isinstance(payload, dict) or payload.get("kind", "failing-input") != "failing-input":
        _nothing(f"payload kind {payload.get('kind') if isinstance(payload, dict) else type(payload).__name__!r} carries no concrete input")
    r = payload.get("replay")
    if not isinstance(r, dict) or not r:
        _nothing("the payload carries no replay dict")
    kind = r.get("kind")
    if kind == "fn":
        js = r.get("case")
        if not isinstance(js, dict) or js.get("form") not in FN_FORMS:
            _nothing(f"functional case without a known `form` (recorded before the replay format carried dtypes): {sorted(js) if isinstance(js, dict) else js!r}")
        try:
            fn, thunk, _req, exp, tol, _tag, _js = build_fn_case(js)
        except (KeyError, TypeError, AttributeError) as e:
            _nothing(f"the recorded functional case is incomplete ({e!r})")
        if exp is None:
            _nothing(f"the definition oracle does not cover this {fn} input")
        real = thunk()
        ok = fn_agrees(real, exp, tol)
        if ok is False:
            print(f"replay: {fn_violation(fn, js.get('tag'), js, real, exp)[1]}"[:600])
        return ok is True
    if kind == "prog":
        pr = r.get("program")
        if not isinstance(pr, dict) or "class" not in pr or "ops" not in pr:
            _nothing("`prog` payload without a program description")
        name = pr["class"]
        if name not in RETRIEVAL_KIND and name not in SIMPLE_CLASSES:
            _nothing(f"no definition oracle for class programs of {name}")
        try:
            p = prog_from_json(pr)
        except (KeyError, TypeError, AttributeError) as e:
            _nothing(f"the recorded program cannot be rebuilt ({e!r})")
        if not p.ops or p.ops[-1][0] != "o" or p.ops[-1][1] != 0:
            _nothing("the recorded program does not end with compute() of instance 0")
        out = run_real(p)[-1]
        if name in RETRIEVAL_KIND:
            ok, exp, _data = retrieval_verdict(RETRIEVAL_KIND[name], p, out)
            exp_s = [str(v) for v in exp[1]] if exp[0] == "ok" else "raises"
        else:
            ok, exp = class_verdict(p, out)
            exp_s = [str(v) for v in exp]
        if not ok:
            print(f"replay: {name}: compute() gives {obs_json(out)} but the definition on all data gives {exp_s}"[:600])
        return bool(ok)
    _nothing(f"replay kind {kind!r} is not a functional case or a class program")
