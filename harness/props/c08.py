"""C08 — ranking / retrieval / text metrics equal their definitions.
Correspondence: real functional and class forms vs the Lean models through the driver
(`fn …`, `prog …`), over exhaustive small grids + seeded random cases.  Independent
Python oracle (explicit ranking and counting, memoised textbook Levenshtein recursion,
reference BLEU with clipped counts) classifies every disagreement and, for the class
forms, states the definition applied to ALL data seen so far."""
from __future__ import annotations
import ast, inspect, itertools, math, textwrap, time
from fractions import Fraction as Fr
from functools import lru_cache
import torch
from ..common import (Rng, Report, call_real, dec_out, enc_tensor, enc_val, ft, it, outcomes_agree, run_driver, budget, fq)
from ..registry import BY_NAME, Batch
from ..progs import Prog, run_real, model_results, compare_with_model
from ..engine import obs_json
import torcheval.metrics.functional as F
import importlib
text_helper = importlib.import_module("torcheval.metrics.functional.text.helper")
text_wer = importlib.import_module("torcheval.metrics.functional.text.word_error_rate")   # (the package re-exports a function of this name)

LEVEL = "proof"
RULE = ("hit_rate/reciprocal_rank: every 3-candidate row over the grid {0,1/2,1} (ties with the target's score) x target x "
        "k in {None,1..5} plus random 4-candidate batches; retrieval_precision/recall: tie-free scores, n=0..6, k=1..n+2 and None, "
        "limit_k_to_size, 1-2 tasks, zero/one/many relevant; RetrievalPrecision/RetrievalRecall: random programs (1-3 shards, "
        "0-3 update batches per shard, 1-3 queries, every empty-target policy, avg) against the definition on all data; "
        "CTR / weighted calibration / collisions / frequency on grids; text: every pair of token strings of length <=3 over {a,b} "
        "and random sentences over vocabularies of 2 and 50 words, lengths 0..6, 1-3 references, n_gram 1..4, custom weights. "
        "non-trivial = distinct (function, parameters, input)")
MODELLED = ["IEEE rounding of float32/float64 divisions (compared with tolerance)",
            "BLEU's exp/log: evaluated in IEEE double by the driver on the exact rational counts the model returns",
            "torch.topk / torch.sort tie order (retrieval inputs are tie-free; the model's top-k is a stable sort)"]
ASSUMPTIONS = ["retrieval labels are 0/1", "tokens are whitespace-separated words; the wire format sends token ids",
               "an empty query (no data at all) is NaN for the class and for the definition"]

L3 = [Fr(0), Fr(1, 2), Fr(1)]
G4 = [Fr(0), Fr(1, 4), Fr(1, 2), Fr(1)]
W4 = [Fr(1, 2), Fr(1), Fr(2), Fr(3)]
SIG_RECALL = "C08|RetrievalRecall|class-vs-definition|pruned-denominator"
SIG_PRECISION = "C08|RetrievalPrecision|class-vs-definition|empty-target-on-retained"

# ------------------------------------------------------------------ text plumbing

def words(ids):
    return " ".join(f"w{i}" for i in ids)


def enc_sent(ids):
    return f"{len(ids)}:" + ",".join(str(i) for i in ids)


def enc_sents(ss):
    return "[" + ";".join(enc_sent(s) for s in ss) + "]"


def enc_refs(groups):
    parts = []
    for g in groups:
        parts += [enc_sent(r) for r in g] + ["1:-1"]
    return "[" + ";".join(parts) + "]"

# ------------------------------------------------------------------ python oracle

def o_rank(row, t):
    """0-based position of the target's score in the descending ranking."""
    s = sorted(row, reverse=True)
    return s.index(row[t])


def o_hit(rows, tgt, k):
    return [Fr(1) if (k is None or o_rank(r, t) < k) else Fr(0) for r, t in zip(rows, tgt)]


def o_rr(rows, tgt, k):
    out = []
    for r, t in zip(rows, tgt):
        p = o_rank(r, t)
        out.append(Fr(1, p + 1) if (k is None or p < k) else Fr(0))
    return out


def o_retrieved(items, k):
    """items: [(score,label)] -> labels of items with fewer than k strictly higher scores."""
    if k is None:
        return [l for _, l in items]
    return [l for s, l in items if sum(1 for s2, _ in items if s2 > s) < k]


def xdiv(a, b):
    if b == 0:
        return math.nan if a == 0 else (math.inf if a > 0 else -math.inf)
    return Fr(a) / Fr(b)


def o_precision(items, k, limit):
    n = len(items)
    den = n if k is None else (min(k, n) if limit else k)
    return xdiv(sum(o_retrieved(items, k)), den)


def o_recall(items, k):
    return xdiv(sum(o_retrieved(items, k)), sum(l for _, l in items))


@lru_cache(maxsize=None)
def lev(a: tuple, b: tuple) -> int:
    if not a:
        return len(b)
    if not b:
        return len(a)
    return min(lev(a[1:], b) + 1, lev(a, b[1:]) + 1, lev(a[1:], b[1:]) + (0 if a[0] == b[0] else 1))


def o_wer(inp, tgt):
    return xdiv(sum(lev(tuple(a), tuple(b)) for a, b in zip(inp, tgt)), sum(len(b) for b in tgt))


def o_wip(inp, tgt):
    c = sum(max(len(a), len(b)) - lev(tuple(a), tuple(b)) for a, b in zip(inp, tgt))
    nr, nh = sum(len(b) for b in tgt), sum(len(a) for a in inp)
    if nr == 0 or nh == 0:
        return math.nan
    return Fr(c, nr) * Fr(c, nh)


def o_wil(inp, tgt):
    w = o_wip(inp, tgt)
    return w if isinstance(w, float) else 1 - w


def o_bleu_stats(cands, refss, N):
    il = tl = 0
    ms, ps = [0] * N, [0] * N
    for c, refs in zip(cands, refss):
        il += len(c)
        tl += sorted((abs(len(r) - len(c)), len(r)) for r in refs)[0][1]
        for n in range(1, N + 1):
            cg = [tuple(c[i:i + n]) for i in range(len(c) - n + 1)]
            rgs = [[tuple(r[i:i + n]) for i in range(len(r) - n + 1)] for r in refs]
            for g in set(cg):
                ms[n - 1] += min(cg.count(g), max(rg.count(g) for rg in rgs))
            ps[n - 1] += max(len(c) - n + 1, 0)
    return il, tl, ms, ps


def o_bleu(cands, refss, N, weights):
    """reference BLEU; None when the definition is not applicable (code must raise)."""
    if len(cands) != len(refss) or any(len(r) == 0 for r in refss) or N not in (1, 2, 3, 4):
        return None
    il, tl, ms, ps = o_bleu_stats(cands, refss, N)
    if min(ps) == 0:
        return None
    w = torch.tensor([1.0 / N] * N if weights is None else [float(x) for x in weights], dtype=torch.float64)
    if len(w) != N:
        return None
    p = torch.tensor(ms, dtype=torch.float64) / torch.tensor(ps, dtype=torch.float64)
    gm = torch.exp(torch.sum(w * torch.log(p)))
    bp = 1.0 if il > tl else math.exp(1 - tl / il)
    return float(bp * gm)


def close(a, b, tol):
    """a: float from the real code, b: Fraction | float from the oracle."""
    b = float(b)
    if math.isnan(a) or math.isnan(b):
        return math.isnan(a) and math.isnan(b)
    if math.isinf(a) or math.isinf(b):
        return a == b
    return abs(a - b) <= tol * max(1.0, abs(b))


def oracle_agrees(real, exp, tol=2e-5):
    """exp: list of values | 'err' | None (not covered)."""
    if exp is None:
        return None
    if exp == "err":
        return real[0] == "err"
    if real[0] != "ok":
        return False
    vals = []
    for t in real[1]:
        vals += t.reshape(-1).to(torch.float64).tolist()
    return len(vals) == len(exp) and all(close(a, b, tol) for a, b in zip(vals, exp))

# ------------------------------------------------------------------ functional cases
# a case = (fn name, real thunk, driver request, oracle value, tolerance, tag, json)

def tj(t):
    return {"data": t.tolist(), "shape": list(t.shape), "dtype": str(t.dtype).replace("torch.", "")}


def case_rank(fn, rows, tgt, k, C=None):
    C = C if C is not None else (len(rows[0]) if rows else 3)
    x = ft([v for r in rows for v in r], shape=(len(rows), C))
    y = it(tgt)
    valid = all(0 <= t < C for t in tgt)
    if fn == "hit_rate":
        exp = "err" if (k is not None and k <= 0) else (o_hit(rows, tgt, k) if valid else None)
    else:
        exp = (o_rr(rows, tgt, k if (k is None or k > 0) else 0) if valid else "err")
    req = f"fn {fn} input={enc_tensor(x)} target={enc_tensor(y)} k={enc_val(k)}"
    return (fn, lambda: call_real(getattr(F, fn), x, y, k=k), req, exp, 2e-5, "rank",
            {"fn": fn, "input": tj(x), "target": tj(y), "k": k})


def rank_cases(rng: Rng, tier):
    for row in itertools.product(L3, repeat=3):
        for t in range(3):
            for k in (None, 1, 2, 3, 4, 5):
                for fn in ("hit_rate", "reciprocal_rank"):
                    yield case_rank(fn, [list(row)], [t], k)
    for _ in range(2500 if tier == "thorough" else 500):
        C = rng.choice([1, 2, 4, 5])
        n = rng.choice([0, 1, 2, 3, 7])
        rows = [rng.grid(C, L3 if rng.random() < 0.6 else G4) for _ in range(n)]
        tgt = [rng.randrange(C) for _ in range(n)]
        k = rng.choice([None, 1, 2, C - 1 if C > 1 else 1, C, C + 1, C + 2])
        yield case_rank(rng.choice(["hit_rate", "reciprocal_rank"]), rows, tgt, k, C)
    # rejected / degenerate parameters
    yield case_rank("hit_rate", [[Fr(1), Fr(0), Fr(0)]], [1], 0)
    yield case_rank("hit_rate", [[Fr(1), Fr(0), Fr(0)]], [1], -2)
    yield case_rank("reciprocal_rank", [[Fr(1), Fr(0), Fr(0)]], [1], 0)
    yield case_rank("reciprocal_rank", [[Fr(1), Fr(0), Fr(0)]], [1], -1)
    yield case_rank("hit_rate", [[Fr(1), Fr(0), Fr(0)]], [3], 1)        # gather out of range
    yield case_rank("hit_rate", [[Fr(1), Fr(0), Fr(0)]], [3], 3)        # shortcut: target never read
    yield case_rank("reciprocal_rank", [[Fr(1), Fr(0), Fr(0)]], [-1], None)
    # shape errors
    x, y = ft([1, 0, 0, 1], shape=(2, 2)), it([0])
    for fn in ("hit_rate", "reciprocal_rank"):
        yield (fn, (lambda fn=fn: call_real(getattr(F, fn), x, y, k=1)), f"fn {fn} input={enc_tensor(x)} target={enc_tensor(y)} k=1",
               "err", 0, "rank-shape", {"fn": fn, "input": tj(x), "target": tj(y), "k": 1})


def distinct_scores(rng: Rng, n):
    return rng.sample([Fr(i, 64) for i in range(64)], n)


def case_retrieval(fn, rows, k, limit, num_tasks):
    """rows: list of tasks, each a list of (score,label)."""
    oneD = num_tasks == 1
    xs = [float(s) for r in rows for s, _ in r]
    ys = [l for r in rows for _, l in r]
    shape = (len(rows[0]),) if oneD else (len(rows), len(rows[0]))
    x, y = ft(xs, shape=shape), it(ys, shape=shape)
    bad = (k is not None and k <= 0) or (limit and k is None)
    if bad:
        exp = "err"
    elif fn == "retrieval_precision":
        exp = [o_precision(r, k, limit) for r in rows]
    else:
        exp = [o_recall(r, k) for r in rows]
    req = (f"fn {fn} input={enc_tensor(x)} target={enc_tensor(y)} k={enc_val(k)} limit_k_to_size={enc_val(limit)} num_tasks={num_tasks}")
    return (fn, lambda: call_real(getattr(F, fn), x, y, k, limit, num_tasks), req, exp, 2e-5, "retrieval",
            {"fn": fn, "input": tj(x), "target": tj(y), "k": k, "limit_k_to_size": limit, "num_tasks": num_tasks})


def rel_labels(rng: Rng, n):
    mode = rng.choice(["zero", "one", "many", "rnd"])
    if mode == "zero" or n == 0:
        return [0] * n
    if mode == "one":
        l = [0] * n; l[rng.randrange(n)] = 1; return l
    if mode == "many":
        return [1 if rng.random() < 0.7 else 0 for _ in range(n)]
    return [rng.choice([0, 1]) for _ in range(n)]


def retrieval_cases(rng: Rng, tier):
    reps = 20 if tier == "thorough" else 4
    for n in range(0, 7):
        for k in [None] + list(range(1, n + 3)):
            for limit in (False, True):
                for _ in range(reps):
                    for fn in ("retrieval_precision", "retrieval_recall"):
                        nt = 1 if rng.random() < 0.7 else 2
                        rows = [list(zip(distinct_scores(rng, n), rel_labels(rng, n))) for _ in range(nt)]
                        yield case_retrieval(fn, rows, k, limit, nt)
    yield case_retrieval("retrieval_precision", [[(Fr(1, 2), 1)]], 0, False, 1)
    yield case_retrieval("retrieval_recall", [[(Fr(1, 2), 1)]], -1, False, 1)
    # shape errors
    x, y = ft([1, 0, 0], shape=(3,)), it([0, 1])
    for fn in ("retrieval_precision", "retrieval_recall"):
        yield (fn, (lambda fn=fn: call_real(getattr(F, fn), x, y, 1)), f"fn {fn} input={enc_tensor(x)} target={enc_tensor(y)} k=1",
               "err", 0, "retrieval-shape", {"fn": fn, "input": tj(x), "target": tj(y), "k": 1})
        x2, y2 = ft([1, 0, 0, 1], shape=(2, 2)), it([0, 1, 1, 0], shape=(2, 2))
        yield (fn, (lambda fn=fn, x2=x2, y2=y2: call_real(getattr(F, fn), x2, y2, 1)), f"fn {fn} input={enc_tensor(x2)} target={enc_tensor(y2)} k=1",
               "err", 0, "retrieval-shape", {"fn": fn, "input": tj(x2), "target": tj(y2), "k": 1})


def misc_cases(rng: Rng, tier):
    reps = 1500 if tier == "thorough" else 250
    for _ in range(reps):
        nt = rng.choice([1, 1, 2, 3])
        n = rng.choice([0, 1, 2, 5, 9])
        shape = (n,) if nt == 1 else (nt, n)
        # click-through rate
        clicks = [rng.choice([0, 1]) for _ in range(nt * n)]
        x = it(clicks, shape=shape)
        mode = rng.choice(["none", "tensor", "scalar", "zero"])
        rows = [clicks[r * n:(r + 1) * n] for r in range(nt)]
        if mode in ("tensor", "zero"):
            wv = [Fr(0)] * (nt * n) if mode == "zero" else rng.grid(nt * n, W4 + [Fr(0)])
            w = ft(wv, shape=shape)
            wrows = [wv[r * n:(r + 1) * n] for r in range(nt)]
            exp = [(Fr(0) if sum(wr) == 0 else Fr(sum(c * q for c, q in zip(cr, wr))) / sum(wr)) for cr, wr in zip(rows, wrows)]
            args, wenc = (x, w), enc_tensor(w)
        elif mode == "scalar":
            q = rng.choice(W4)
            exp = [(Fr(0) if n == 0 else Fr(sum(cr), n)) for cr in rows]
            args, wenc = (x, float(q)), fq(q)
        else:
            exp = [(Fr(0) if n == 0 else Fr(sum(cr), n)) for cr in rows]
            args, wenc = (x,), "none"
        yield ("click_through_rate", (lambda args=args, nt=nt: call_real(F.click_through_rate, *args, num_tasks=nt)),
               f"fn click_through_rate input={enc_tensor(x)} weights={wenc} num_tasks={nt}", exp, 2e-5, "ctr",
               {"fn": "click_through_rate", "input": tj(x), "weights": wenc, "num_tasks": nt})
        # weighted calibration
        pv = rng.grid(nt * n, G4)
        lv = [rng.choice([0, 1]) for _ in range(nt * n)] if rng.random() < 0.85 else [0] * (nt * n)
        p, l = ft(pv, shape=shape), ft(lv, shape=shape)
        prow = [pv[r * n:(r + 1) * n] for r in range(nt)]
        lrow = [lv[r * n:(r + 1) * n] for r in range(nt)]
        if rng.random() < 0.5:
            wv = rng.grid(nt * n, W4)
            w = ft(wv, shape=shape)
            wrow = [wv[r * n:(r + 1) * n] for r in range(nt)]
            exp = [xdiv(sum(a * b for a, b in zip(wr, pr)), sum(a * b for a, b in zip(wr, lr))) for pr, lr, wr in zip(prow, lrow, wrow)]
            args, wenc = (p, l, w), enc_tensor(w)
        else:
            q = rng.choice(W4)
            exp = [xdiv(q * sum(pr), q * sum(lr)) for pr, lr in zip(prow, lrow)]
            args, wenc = (p, l, float(q)), fq(q)
        yield ("weighted_calibration", (lambda args=args, nt=nt: call_real(F.weighted_calibration, *args, num_tasks=nt)),
               f"fn weighted_calibration input={enc_tensor(p)} target={enc_tensor(l)} weight={wenc} num_tasks={nt}", exp, 2e-5, "wc",
               {"fn": "weighted_calibration", "input": tj(p), "target": tj(l), "weight": wenc, "num_tasks": nt})
        # collisions / frequency
        ids = [rng.randrange(4) for _ in range(n)]
        xi = it(ids)
        yield ("num_collisions", (lambda xi=xi: call_real(F.num_collisions, xi)), f"fn num_collisions input={enc_tensor(xi)}",
               [Fr(sum(1 for j, b in enumerate(ids) if b == a and j != i)) for i, a in enumerate(ids)], 0, "collisions",
               {"fn": "num_collisions", "input": tj(xi)})
        xs = rng.grid(n, [Fr(j, 2) for j in range(0, 9)])
        kk = rng.choice([Fr(0), Fr(1, 2), Fr(2), Fr(7, 2), Fr(-1)])
        xf = ft(xs)
        yield ("frequency_at_k", (lambda xf=xf, kk=kk: call_real(F.frequency_at_k, xf, float(kk))),
               f"fn frequency_at_k input={enc_tensor(xf)} k={fq(kk)}", "err" if kk < 0 else [Fr(1) if v < kk else Fr(0) for v in xs], 0, "frequency",
               {"fn": "frequency_at_k", "input": tj(xf), "k": str(kk)})
    # shape / parameter errors
    x2 = it([1, 0, 1, 1], shape=(2, 2))
    yield ("click_through_rate", lambda: call_real(F.click_through_rate, x2), f"fn click_through_rate input={enc_tensor(x2)} weights=none num_tasks=1",
           "err", 0, "ctr-shape", {"fn": "click_through_rate", "input": tj(x2), "num_tasks": 1})
    x1 = it([1, 0])
    yield ("click_through_rate", lambda: call_real(F.click_through_rate, x1, num_tasks=2), f"fn click_through_rate input={enc_tensor(x1)} weights=none num_tasks=2",
           "err", 0, "ctr-shape", {"fn": "click_through_rate", "input": tj(x1), "num_tasks": 2})
    w3 = ft([1, 1, 1])
    yield ("click_through_rate", lambda: call_real(F.click_through_rate, x1, w3), f"fn click_through_rate input={enc_tensor(x1)} weights={enc_tensor(w3)} num_tasks=1",
           "err", 0, "ctr-shape", {"fn": "click_through_rate", "input": tj(x1), "weights": tj(w3)})
    p1, l1 = ft([Fr(1, 2), Fr(1, 4)]), ft([1, 0, 1])
    yield ("weighted_calibration", lambda: call_real(F.weighted_calibration, p1, l1), f"fn weighted_calibration input={enc_tensor(p1)} target={enc_tensor(l1)}",
           "err", 0, "wc-shape", {"fn": "weighted_calibration", "input": tj(p1), "target": tj(l1)})
    l2 = ft([1, 0])
    yield ("weighted_calibration", lambda: call_real(F.weighted_calibration, p1, l2, w3), f"fn weighted_calibration input={enc_tensor(p1)} target={enc_tensor(l2)} weight={enc_tensor(w3)}",
           "err", 0, "wc-shape", {"fn": "weighted_calibration", "input": tj(p1), "target": tj(l2), "weight": tj(w3)})
    yield ("num_collisions", lambda: call_real(F.num_collisions, x2), f"fn num_collisions input={enc_tensor(x2)}", "err", 0, "collisions-shape",
           {"fn": "num_collisions", "input": tj(x2)})

# ------------------------------------------------------------------ text cases

def sent(rng: Rng, V, lo=0, hi=6):
    return [rng.randrange(V) for _ in range(rng.randint(lo, hi))]


def case_edit(a, b):
    sa, sb = [f"w{i}" for i in a], [f"w{i}" for i in b]
    d = lev(tuple(a), tuple(b))
    out = []
    for copy, mod in (("wer", text_wer), ("helper", text_helper)):
        out.append((f"_edit_distance[{copy}]", (lambda mod=mod: call_real(mod._edit_distance, sa, sb)),
                    f"fn edit_distance prediction_tokens={enc_sent(a)} reference_tokens={enc_sent(b)} copy={copy}", [Fr(d)], 0, "edit",
                    {"fn": "_edit_distance", "copy": copy, "prediction_tokens": a, "reference_tokens": b}))
    return out


def case_text(fn, inp, tgt, as_str=False):
    """inp/tgt: lists of token-id lists (as_str: single sentence passed as `str`)."""
    if as_str:
        ri, rt = words(inp[0]), words(tgt[0])
        ei, et = enc_sent(inp[0]), enc_sent(tgt[0])
    else:
        ri, rt = [words(s) for s in inp], [words(s) for s in tgt]
        ei, et = enc_sents(inp), enc_sents(tgt)
    if len(inp) != len(tgt):
        exp = "err"
    else:
        exp = [{"word_error_rate": o_wer, "word_information_preserved": o_wip, "word_information_lost": o_wil}[fn](inp, tgt)]
    return (fn, lambda: call_real(getattr(F, fn), ri, rt), f"fn {fn} input={ei} target={et}", exp, 1e-9, "text",
            {"fn": fn, "input": inp, "target": tgt, "as_str": as_str})


def case_bleu(cands, refss, N, weights):
    ri = [words(c) for c in cands]
    rt = [[words(r) for r in refs] for refs in refss]
    w = None if weights is None else ft(weights)
    exp = o_bleu(cands, refss, N, weights)
    exp = "err" if exp is None else [exp]
    req = f"fn bleu_score input={enc_sents(cands)} target={enc_refs(refss)} n_gram={N} weights={enc_val(w)}"
    return ("bleu_score", lambda: call_real(F.bleu_score, ri, rt, N, w), req, exp, 1e-4, "bleu",
            {"fn": "bleu_score", "input": cands, "target": refss, "n_gram": N, "weights": None if weights is None else [str(x) for x in weights]})


def text_cases(rng: Rng, tier):
    ab = [list(s) for n in range(0, 4) for s in itertools.product([0, 1], repeat=n)]
    for a in ab:
        for b in ab:
            yield from case_edit(a, b)
            for fn in ("word_error_rate", "word_information_preserved", "word_information_lost"):
                yield case_text(fn, [a], [b], as_str=(len(a) + len(b)) % 2 == 0)
    for _ in range(3000 if tier == "thorough" else 500):
        V = rng.choice([2, 50])
        yield from case_edit(sent(rng, V), sent(rng, V))
        n = rng.choice([0, 1, 2, 3])
        inp = [sent(rng, V) for _ in range(n)]
        tgt = [(list(s) if rng.random() < 0.2 else sent(rng, V)) for s in inp]
        if rng.random() < 0.08:
            tgt = tgt + [sent(rng, V)]          # length mismatch -> rejected
        yield case_text(rng.choice(["word_error_rate", "word_information_preserved", "word_information_lost"]), inp, tgt)
    # str vs list type mismatch (WER / WIP reject, WIL wraps)
    for fn in ("word_error_rate", "word_information_preserved", "word_information_lost"):
        exp = [o_wil([[0, 1]], [[0, 2]])] if fn == "word_information_lost" else "err"
        yield (fn, (lambda fn=fn: call_real(getattr(F, fn), words([0, 1]), [words([0, 2])])), f"fn {fn} input={enc_sent([0, 1])} target={enc_sents([[0, 2]])}",
               exp, 1e-9, "text-type", {"fn": fn, "input": [0, 1], "target": [[0, 2]], "mixed": True})
    for _ in range(3000 if tier == "thorough" else 500):
        V = rng.choice([2, 2, 50])
        N = rng.choice([1, 2, 3, 4])
        n = rng.choice([1, 1, 2, 3])
        cands = [sent(rng, V, 0 if rng.random() < 0.1 else N, 6) for _ in range(n)]
        refss = []
        for c in cands:
            refs = []
            for _r in range(rng.randint(1, 3)):
                if V == 50 and rng.random() < 0.7:      # perturb the candidate so that n-grams overlap
                    r = [t if rng.random() < 0.75 else rng.randrange(V) for t in c]
                    if rng.random() < 0.4 and r:
                        r = r[:-1]
                    if rng.random() < 0.4:
                        r = r + [rng.randrange(V)]
                else:
                    r = sent(rng, V)
                refs.append(r)
            refss.append(refs)
        weights = None
        if rng.random() < 0.35:
            weights = rng.choice([[Fr(1, 2)] * N, [Fr(1, 4)] + [Fr(1, 8)] * (N - 1), [Fr(1)] + [Fr(0)] * (N - 1), [Fr(3, 4), Fr(1, 4)]])
        yield case_bleu(cands, refss, N, weights)
    yield case_bleu([[0, 1, 2]], [[]], 1, None)                    # no reference: min([])
    yield case_bleu([[0, 1, 2]], [[[0, 1]], [[2]]], 1, None)       # corpus size mismatch
    yield case_bleu([[0, 1, 2]], [[[0, 1, 2]]], 5, None)           # n_gram out of range
    yield case_bleu([[0, 1]], [[[0, 1, 2], [0]]], 1, None)         # closest-length tie: |3-2| = |1-2| -> shorter
    yield case_bleu([[0, 1, 2, 3]], [[[0, 1, 2, 3]]], 4, None)


def fn_cases(rng, tier):
    yield from rank_cases(rng, tier)
    yield from retrieval_cases(rng, tier)
    yield from misc_cases(rng, tier)
    yield from text_cases(rng, tier)


def check_fn_cases(rep: Report, cases, stream: str):
    cases = list(cases)
    outs = run_driver([c[2] for c in cases])
    nbad = 0
    for (fn, thunk, req, exp, tol, tag, js), o in zip(cases, outs):
        real = thunk()
        model = dec_out(o)
        rep.count(f"fn:{fn}"); rep.count(f"kind:{tag}")
        if real[0] == "err":
            rep.count(f"err:{real[1]}")
        rep.case(nontrivial_key=(fn, req), sample={"request": req, "model": o} if rep.evaluations % 1500 == 0 else None)
        agrees = oracle_agrees(real, exp, max(tol, 2e-5))
        msg = outcomes_agree(real, model, tol=tol or None, strict_kind=True)
        if agrees is False:
            nbad += 1
            rep.violation(f"C08|{fn}|{tag}|differs-from-definition",
                          f"{fn} returns {real[1] if real[0] == 'err' else [t.tolist() for t in real[1]]} where the definition gives {exp}",
                          {"kind": "fn", "case": js, "request": req, "model": o, "definition": str(exp)})
        elif msg is not None:
            nbad += 1
            rep.broke(f"correspondence:{stream}:{fn}", f"model and implementation disagree ({msg}); the oracle "
                      + ("agrees with the implementation" if agrees else "does not cover this case"),
                      {"kind": "fn", "case": js, "request": req, "model": o})
        if nbad > 25:
            break
    rep.streams[stream] = {"cases": len(cases), "disagreements": nbad}

# ------------------------------------------------------------------ source identity of the two `_edit_distance` copies

def check_copies(rep: Report):
    a = ast.dump(ast.parse(textwrap.dedent(inspect.getsource(text_helper._edit_distance))))
    b = ast.dump(ast.parse(textwrap.dedent(inspect.getsource(text_wer._edit_distance))))
    rep.case(nontrivial_key=("edit-distance-copies",))
    if a != b:
        rep.broke("model:editDistanceHelper", "the two copies of _edit_distance (helper.py, word_error_rate.py) are no longer the same "
                  "program; the Lean model uses one definition for both", {"kind": "copies"})

# ------------------------------------------------------------------ class forms

def retrieval_definition(kind, cfg, data):
    """the definition on ALL data per query. returns ('ok', [values]) | ('err',)"""
    k, limit = cfg.get("k"), cfg.get("limit_k_to_size", False)
    act = cfg.get("empty_target_action", "neg")
    vals = []
    for items in data:
        if not items:
            vals.append(math.nan)
        elif not any(l == 1 for _, l in items):
            if act == "err":
                return ("err",)
            vals.append({"pos": Fr(1), "neg": Fr(0), "skip": math.nan}[act])
        else:
            vals.append(o_precision(items, k, limit) if kind == "precision" else o_recall(items, k))
    if cfg.get("avg") == "macro":
        good = [v for v in vals if not (isinstance(v, float) and math.isnan(v))]
        return ("ok", [sum(good) / len(good) if good else math.nan])
    return ("ok", vals)


def retrieval_mechanism(kind, cfg, data):
    """is there a query on which pruning to the top-k changes what compute() sees?"""
    k = cfg.get("k")
    if k is None:
        return False
    for items in data:
        rel_all = sum(1 for _, l in items if l == 1)
        rel_top = sum(o_retrieved(items, k))
        if kind == "recall" and rel_all > rel_top:
            return True
        if kind == "precision" and rel_all > 0 and rel_top == 0 and cfg.get("empty_target_action", "neg") != "neg":
            return True
    return False


def gen_retrieval_prog(rng: Rng, name, fixed=None):
    spec = BY_NAME[name]
    if fixed:
        cfg, shards = fixed
    else:
        k = rng.choice([None, 1, 2, 3, 9])
        cfg = {"k": k, "num_queries": rng.choice([1, 1, 2, 3]), "empty_target_action": rng.choice(["neg", "neg", "pos", "skip", "err"])}
        if k is not None and rng.random() < 0.4:
            cfg["limit_k_to_size"] = True
        if rng.random() < 0.3:
            cfg["avg"] = "macro"
        nq = cfg["num_queries"]
        pool = rng.sample([Fr(i, 128) for i in range(128)], 128)
        dens = [rng.choice([0.0, 0.15, 0.5, 0.9]) for _ in range(nq)]
        shards = []
        for _s in range(rng.randint(1, 3)):
            bs = []
            for _b in range(rng.randint(0, 3)):
                n = rng.choice([0, 1, 2, 3, 4])
                idx = [rng.randrange(nq) for _ in range(n)]
                bs.append([(pool.pop(), 1 if rng.random() < dens[q] else 0, q) for q in idx])
            shards.append(bs)
    nq = cfg.get("num_queries", 1)
    p = Prog(spec, cfg)
    data = [[] for _ in range(nq)]
    for s, bs in enumerate(shards):
        for b in bs:
            args = (ft([x for x, _, _ in b]), it([l for _, l, _ in b]))
            if nq > 1:
                args += (it([q for _, _, q in b]),)
            p.u(s, Batch(args))
            for x, l, q in b:
                data[q].append((x, l))
    root = 0
    if len(shards) > 1:
        if rng.random() < 0.5:
            p.m(0, list(range(1, len(shards))))
        else:
            for j in range(1, len(shards)):
                p.m(0, [j])
    p.o(root)
    return p, data


def check_retrieval_classes(rep: Report, rng: Rng, n_progs: int):
    wit_recall = ({"k": 1}, [[[(Fr(3), 1, 0), (Fr(2), 1, 0), (Fr(1), 1, 0)]]])
    wit_prec = ({"k": 1, "empty_target_action": "pos"}, [[[(Fr(3), 0, 0), (Fr(2), 1, 0)]]])
    progs = []
    for name, kind, wit in (("RetrievalPrecision", "precision", wit_prec), ("RetrievalRecall", "recall", wit_recall)):
        progs.append((name, kind) + gen_retrieval_prog(rng, name, wit))           # the Lean witness inputs, replayed every run
        for _ in range(n_progs):
            progs.append((name, kind) + gen_retrieval_prog(rng, name))
    reals = [run_real(p) for _, _, p, _ in progs]
    models, lines = model_results([p for _, _, p, _ in progs])
    nbad = 0
    for (name, kind, p, data), res, mod, line in zip(progs, reals, models, lines):
        cfg = {k: v for k, v in p.cfg.items() if not k.startswith("_")}
        rep.count(f"class:{name}"); rep.count(f"k:{cfg.get('k')}"); rep.count(f"queries:{cfg.get('num_queries', 1)}")
        rep.count(f"policy:{cfg.get('empty_target_action', 'neg')}")
        mech = retrieval_mechanism(kind, cfg, data)
        rep.count(f"relevant-outside-topk:{mech}")
        rep.case(nontrivial_key=(name, line), sample=p.describe() if rep.evaluations % 400 == 0 else None)
        rep.traces += 1
        real_out = res[-1]
        exp = retrieval_definition(kind, cfg, data)
        if exp[0] == "err":
            ok = real_out[0] == "err"
        else:
            ok = real_out[0] == "ok" and oracle_agrees(("ok", real_out[1]), exp[1]) is True
        d = compare_with_model(p, res, mod, 2e-5)
        replay = {"kind": "prog", "program": p.describe(), "driver_line": line, "model": mod, "real": obs_json(real_out),
                  "definition_on_all_data": [str(v) for v in exp[1]] if exp[0] == "ok" else "raises"}
        if not ok:
            explained = mech and d is None
            sig = (SIG_RECALL if kind == "recall" else SIG_PRECISION) if explained else f"C08|{name}|class-vs-definition|unexplained"
            rep.violation(sig, f"{name}{cfg}: compute() gives {obs_json(real_out)} but the definition applied to all data seen gives "
                          f"{replay['definition_on_all_data']} (the class keeps only the top-k (score,label) pairs per query)", replay)
            nbad += 1
        elif d:
            rep.broke(f"correspondence:class-model:{name}", f"model and implementation disagree at op {d[0]}: {d[1]}", replay)
            nbad += 1
    rep.streams["retrieval-classes"] = {"cases": len(progs), "differ-from-definition-or-model": nbad}


def simple_class_progs(rng: Rng, tier):
    """(class name, cfg, batches, definition thunk over all batches) for the additive / cache-all classes."""
    out = []
    reps = 250 if tier == "thorough" else 40
    for _ in range(reps):
        # HitRate / ReciprocalRank: per-sample values in arrival order
        for name, orc in (("HitRate", o_hit), ("ReciprocalRank", o_rr)):
            k = rng.choice([None, 1, 2, 4, 6])
            bs, rows_all, tgt_all = [], [], []
            for _b in range(rng.randint(0, 3)):
                n = rng.choice([0, 1, 2, 3])
                rows = [rng.grid(4, L3) for _ in range(n)]
                tgt = [rng.randrange(4) for _ in range(n)]
                bs.append(Batch((ft([v for r in rows for v in r], shape=(n, 4)), it(tgt))))
                rows_all += rows; tgt_all += tgt
            out.append((name, {"k": k}, bs, orc(rows_all, tgt_all, k), 2e-5))
        # ClickThroughRate / WeightedCalibration
        nt = rng.choice([1, 2])
        bs, ct, wt = [], [Fr(0)] * nt, [Fr(0)] * nt
        for _b in range(rng.randint(0, 3)):
            n = rng.choice([1, 2, 5])
            shape = (n,) if nt == 1 else (nt, n)
            cl = [rng.choice([0, 1]) for _ in range(nt * n)]
            if rng.random() < 0.5:
                wv = rng.grid(nt * n, W4 + [Fr(0)])
                bs.append(Batch((it(cl, shape=shape), ft(wv, shape=shape))))
            else:
                q = rng.choice(W4); wv = [q] * (nt * n)
                bs.append(Batch((it(cl, shape=shape), float(q))) if rng.random() < 0.5 and q != 1 else Batch((it(cl, shape=shape),)))
                if len(bs[-1].args) == 1:
                    wv = [Fr(1)] * (nt * n)
            for r in range(nt):
                ct[r] += sum(c * w for c, w in zip(cl[r * n:(r + 1) * n], wv[r * n:(r + 1) * n]))
                wt[r] += sum(wv[r * n:(r + 1) * n])
        out.append(("ClickThroughRate", {"num_tasks": nt}, bs, [Fr(0) if w == 0 else c / w for c, w in zip(ct, wt)], 1e-9))
        bs, ws, wl = [], [Fr(0)] * nt, [Fr(0)] * nt
        for _b in range(rng.randint(0, 3)):
            n = rng.choice([1, 2, 5])
            shape = (n,) if nt == 1 else (nt, n)
            pv = rng.grid(nt * n, G4); lv = [rng.choice([0, 1]) for _ in range(nt * n)]
            wv = rng.grid(nt * n, W4)
            bs.append(Batch((ft(pv, shape=shape), ft(lv, shape=shape), ft(wv, shape=shape))))
            for r in range(nt):
                sl = slice(r * n, (r + 1) * n)
                ws[r] += sum(a * b for a, b in zip(wv[sl], pv[sl])); wl[r] += sum(a * b for a, b in zip(wv[sl], lv[sl]))
        out.append(("WeightedCalibration", {"num_tasks": nt}, bs, [] if all(x == 0 for x in wl) else [xdiv(a, b) for a, b in zip(ws, wl)], 1e-9))   # empty only when NO task has target weight
        # text classes
        V = rng.choice([2, 50])
        inp_all, tgt_all, bs = [], [], []
        for _b in range(rng.randint(0, 3)):
            n = rng.choice([1, 2])
            inp = [sent(rng, V, 1, 6) for _ in range(n)]
            tgt = [sent(rng, V, 1, 6) for _ in range(n)]
            bs.append(Batch(([words(s) for s in inp], [words(s) for s in tgt])))
            inp_all += inp; tgt_all += tgt
        out.append(("WordErrorRate", {}, bs, [o_wer(inp_all, tgt_all)], 2e-5))
        out.append(("WordInformationPreserved", {}, bs, [o_wip(inp_all, tgt_all)], 1e-9))
        out.append(("WordInformationLost", {}, bs, [o_wil(inp_all, tgt_all)], 1e-9))
        N = rng.choice([1, 2, 3])
        weights = None if rng.random() < 0.6 else [Fr(1, 2)] * N
        cands_all, refs_all, bs = [], [], []
        for _b in range(rng.randint(0, 3)):
            n = rng.choice([1, 2])
            cands = [sent(rng, V, N, 6) for _ in range(n)]
            refss = [[[t if rng.random() < 0.7 else rng.randrange(V) for t in c] + ([rng.randrange(V)] if rng.random() < 0.3 else [])
                      for _r in range(rng.randint(1, 3))] for c in cands]
            bs.append(Batch(([words(c) for c in cands], [[words(r) for r in refs] for refs in refss])))
            cands_all += cands; refs_all += refss
        if not cands_all:
            exp = [0.0]
        else:
            _, _, ms, _ = o_bleu_stats(cands_all, refs_all, N)
            exp = [0.0] if sum(ms) == 0 else [o_bleu(cands_all, refs_all, N, weights)]
        cfg = {"n_gram": N}
        if weights is not None:
            cfg["weights"] = ft(weights)
        out.append(("BLEUScore", cfg, bs, exp, 1e-4))
    return out


def check_simple_classes(rep: Report, rng: Rng, tier):
    items = simple_class_progs(rng, tier)
    progs = []
    for name, cfg, bs, exp, tol in items:
        p = Prog(BY_NAME[name], cfg)
        k = rng.randint(1, 2)
        for j, b in enumerate(bs):
            p.u(j % k, b)
        if k > 1:
            # order-carrying classes keep merge order: feed shard 0 first, then shard 1
            if name in ("HitRate", "ReciprocalRank"):
                p.ops = [op for op in p.ops if op[1] == 0] + [op for op in p.ops if op[1] == 1]
            p.m(0, [1])
        p.o(0)
        progs.append(p)
    reals = [run_real(p) for p in progs]
    models, lines = model_results(progs)
    nbad = 0
    for (name, cfg, bs, exp, tol), p, res, mod, line in zip(items, progs, reals, models, lines):
        rep.count(f"class:{name}")
        rep.case(nontrivial_key=(name, line) if bs else None)
        rep.traces += 1
        real_out = res[-1]
        if name in ("HitRate", "ReciprocalRank") and any(op[0] == "m" for op in p.ops):
            # recompute the expectation in merge order
            order = [op[2] for op in p.ops if op[0] == "u"]
            rows, tgt = [], []
            for b in order:
                rows += [[Fr(v) for v in r] for r in b.args[0].tolist()]; tgt += b.args[1].tolist()
            exp = (o_hit if name == "HitRate" else o_rr)(rows, tgt, cfg["k"])
        ok = real_out[0] == "ok" and oracle_agrees(("ok", real_out[1]), exp, max(tol, 2e-5)) is True
        d = compare_with_model(p, res, mod, max(tol, 2e-5))
        replay = {"kind": "prog", "program": p.describe(), "driver_line": line, "model": mod, "real": obs_json(real_out),
                  "definition_on_all_data": [str(v) for v in exp]}
        if not ok:
            rep.violation(f"C08|{name}|class-vs-definition|differs", f"{name}: compute() gives {obs_json(real_out)} but the definition on all data gives {replay['definition_on_all_data']}", replay)
            nbad += 1
        elif d:
            rep.broke(f"correspondence:class-model:{name}", f"model and implementation disagree at op {d[0]}: {d[1]}", replay)
            nbad += 1
    rep.streams["additive-classes"] = {"cases": len(progs), "disagreements": nbad}

# ------------------------------------------------------------------ spec oracles of the driver (Lean `TE/Spec`) vs the Python oracle

def check_lean_specs(rep: Report, rng: Rng):
    """keeps the Lean textbook definitions honest: they must agree with the independent Python oracle."""
    reqs, exps = [], []
    for _ in range(40):
        C = 4
        rows = [rng.grid(C, L3) for _ in range(3)]
        tgt = [rng.randrange(C) for _ in range(3)]
        k = rng.choice([None, 1, 2, 5])
        x, y = ft([v for r in rows for v in r], shape=(3, C)), it(tgt)
        reqs.append(f"fn spec.hit_rate input={enc_tensor(x)} target={enc_tensor(y)} k={enc_val(k)}"); exps.append(o_hit(rows, tgt, k))
        reqs.append(f"fn spec.reciprocal_rank input={enc_tensor(x)} target={enc_tensor(y)} k={enc_val(k)}"); exps.append(o_rr(rows, tgt, k))
        n = rng.randint(0, 5)
        items = list(zip(distinct_scores(rng, n), rel_labels(rng, n)))
        k = rng.choice([None, 1, 2, n + 1])
        lim = k is not None and rng.random() < 0.5
        x, y = ft([s for s, _ in items]), it([l for _, l in items])
        reqs.append(f"fn spec.retrieval_precision input={enc_tensor(x)} target={enc_tensor(y)} k={enc_val(k)} limit_k_to_size={enc_val(lim)}"); exps.append([o_precision(items, k, lim)])
        reqs.append(f"fn spec.retrieval_recall input={enc_tensor(x)} target={enc_tensor(y)} k={enc_val(k)}"); exps.append([o_recall(items, k)])
        V = rng.choice([2, 50])
        a, b = sent(rng, V, 0, 5), sent(rng, V, 0, 5)
        for copy in ("prefix", "list"):
            reqs.append(f"fn spec.edit_distance prediction_tokens={enc_sent(a)} reference_tokens={enc_sent(b)} copy={copy}"); exps.append([Fr(lev(tuple(a), tuple(b)))])
        inp, tgt2 = [a, sent(rng, V, 0, 4)], [b, sent(rng, V, 0, 4)]
        for fn, orc in (("word_error_rate", o_wer), ("word_information_preserved", o_wip), ("word_information_lost", o_wil)):
            reqs.append(f"fn spec.{fn} input={enc_sents(inp)} target={enc_sents(tgt2)}"); exps.append([orc(inp, tgt2)])
        N = rng.choice([1, 2, 3, 4])
        c = sent(rng, 2, N, 6)
        refs = [sent(rng, 2, 0, 6) for _ in range(rng.randint(1, 3))]
        e = o_bleu([c], [refs], N, None)
        reqs.append(f"fn spec.bleu_score input={enc_sents([c])} target={enc_refs([refs])} n_gram={N}"); exps.append([e])
    outs = run_driver(reqs)
    for r, o, e in zip(reqs, outs, exps):
        rep.case(nontrivial_key=("spec", r))
        m = dec_out(o)
        good = m[0] == "ok" and len(m[1]) == 1 and len(m[1][0][1]) == len(e) and all(close(float(a), b, 1e-9) for a, b in zip(m[1][0][1], e))
        if not good:
            rep.broke("spec-oracle:" + r.split()[1], f"the Lean textbook definition and the Python oracle disagree: {o} vs {e}", {"kind": "spec", "request": r, "model": o})
    rep.streams["lean-spec-vs-python-oracle"] = {"cases": len(reqs)}

# ------------------------------------------------------------------ entry points

def run(rep: Report):
    rng = Rng(rep.seed * 1000003 + 8)
    from .. import opscheck; opscheck.check_ops(rep, ["rank"])
    check_copies(rep)
    check_fn_cases(rep, fn_cases(rng, rep.tier), "functional")
    check_retrieval_classes(rep, rng, 3000 if rep.tier == "thorough" else 400)
    check_simple_classes(rep, rng, rep.tier)
    check_lean_specs(rep, rng)


def search(rep: Report):
    """the proof or the correspondence broke: look for an input on which the real code leaves the
    definition (thorough-size space, Python oracle only)."""
    rng = Rng(rep.seed * 7919 + 808)
    deadline = time.time() + 120
    for fn, thunk, req, exp, tol, tag, js in fn_cases(rng, "thorough"):
        if time.time() > deadline:
            return
        real = thunk()
        if oracle_agrees(real, exp, max(tol, 2e-5)) is False:
            rep.violation(f"C08|{fn}|{tag}|differs-from-definition", f"{fn} differs from its definition",
                          {"kind": "fn", "case": js, "request": req, "definition": str(exp)})
            return


def _tensor(d):
    return torch.tensor(d["data"], dtype=getattr(torch, d["dtype"])).reshape(d["shape"])


def replay(payload) -> bool:
    r = payload["replay"]
    if r.get("kind") == "prog":
        pr = r["program"]
        name, cfg = pr["class"], dict(pr["cfg"])
        kind = "recall" if name == "RetrievalRecall" else "precision"
        if name not in ("RetrievalRecall", "RetrievalPrecision"):
            return True
        p = Prog(BY_NAME[name], cfg)
        nq = cfg.get("num_queries", 1)
        data = [[] for _ in range(nq)]
        for op in pr["ops"]:
            if op[0] == "u":
                args = tuple(_tensor(a) for a in op[2]["args"])
                p.u(op[1], Batch(args))
                qs = args[2].tolist() if len(args) > 2 else [0] * len(args[0])
                for x, l, q in zip(args[0].tolist(), args[1].tolist(), qs):
                    data[q].append((Fr(x), int(l)))
            elif op[0] == "m":
                p.m(op[1], op[2])
            elif op[0] == "o":
                p.o(op[1])
        out = run_real(p)[-1]
        exp = retrieval_definition(kind, cfg, data)
        if exp[0] == "err":
            return out[0] == "err"
        return out[0] == "ok" and oracle_agrees(("ok", out[1]), exp[1]) is True
    if r.get("kind") == "fn":
        c = r["case"]
        fn = c["fn"]
        if fn in ("hit_rate", "reciprocal_rank"):
            x, y, k = _tensor(c["input"]), _tensor(c["target"]), c["k"]
            rows = [[Fr(v) for v in row] for row in x.tolist()]
            case = case_rank(fn, rows, y.tolist(), k, x.shape[1])
            return oracle_agrees(case[1](), case[3]) is not False
        if fn in ("retrieval_precision", "retrieval_recall"):
            x, y = _tensor(c["input"]), _tensor(c["target"])
            xs = x.reshape(-1, x.shape[-1]).tolist(); ys = y.reshape(-1, y.shape[-1]).tolist()
            rows = [list(zip([Fr(v) for v in a], [int(v) for v in b])) for a, b in zip(xs, ys)]
            case = case_retrieval(fn, rows, c["k"], c.get("limit_k_to_size", False), c.get("num_tasks", 1))
            return oracle_agrees(case[1](), case[3]) is not False
        if fn in ("word_error_rate", "word_information_preserved", "word_information_lost") and not c.get("mixed"):
            case = case_text(fn, c["input"], c["target"], c.get("as_str", False))
            return oracle_agrees(case[1](), case[3], 1e-9) is not False
        if fn == "bleu_score":
            w = None if c["weights"] is None else [Fr(x) for x in c["weights"]]
            case = case_bleu(c["input"], c["target"], c["n_gram"], w)
            return oracle_agrees(case[1](), case[3], 1e-4) is not False
        if fn == "_edit_distance":
            return all(oracle_agrees(cs[1](), cs[3]) is not False for cs in case_edit(c["prediction_tokens"], c["reference_tokens"]))
    return True
