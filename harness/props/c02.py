"""C02 — distributed sync returns, on every rank, the merge of all ranks' metrics.

The REAL toolkit (`sync_and_compute`, `get_synced_metric`, `get_synced_state_dict` and the
`*_collection` forms) runs for k simulated ranks on `harness/fakedist.py`, for every class of
`harness/registry.py` with per-rank histories of 0..2 updates of uneven batch sizes (idle ranks
included), plus a custom metric `Bag` over every TState kind.
Oracle (independent of the model): on every rank the result equals the REAL local
`clone_metric(m_r).merge_state([m_j | j ≠ r, ascending]).compute()`, and no rank raises,
mismatches or times out; with world size 1 / no process group the input object itself is returned.
Correspondence: the Lean model `TE.Sync` must issue the same per-rank collective trace (and, for
`Bag`, return the same merged state).  Thorough: one case per distinct model trace on real gloo.
"""
from __future__ import annotations
import copy, itertools, json, pickle, time, zlib
import torch
from ..common import Rng, Report, budget
from ..registry import SPECS, BY_NAME, Spec, fresh_cfg, public_cfg, new_metric
from ..engine import observe, same_obs, obs_json
from .. import fakedist as fd
from ..fakedist import World, enc_collection, fmt_trace, world_status, render_compute
from .c15 import model_run, parse_answer, subgroups
from torcheval.metrics import Metric, toolkit
from torcheval.metrics.toolkit import clone_metric

LEVEL = "proof"
RULE = ("toolkit entry points on k simulated ranks (k = 1..4 quick, 1..8 thorough, sub-groups of worlds ≤ 4, uninitialised): every "
        "registered class and configuration with per-rank histories of 0..2 grid-valued updates of uneven batch sizes (an idle rank "
        "forced in half of the cases), single metric and dict-of-metrics forms; custom metric over tensor / list / dict / int / float "
        "states with uneven shapes, list lengths 0..2 and key sets ⊆ {a,b,c}; non-trivial = distinct (class, config, entry, world, "
        "group, per-rank update counts and batch sizes) with at least two ranks whose histories differ")
MODELLED = ["merge_state / compute of the registered classes (real code on both sides of the oracle; their models are C01/C03's)",
            "gloo's behaviour on a collective mismatch (hang / SIGABRT) is represented by the transport's CollectiveMismatch",
            "device moves (.to) and the NCCL branch of _sync_metric_object"]
ASSUMPTIONS = ["all members pass metrics of the same class and configuration (collections: same keys)",
               "ranks outside the process group do not call the toolkit"]
TRUSTED_EXTRA = ["harness/fakedist.py: its rendezvous / validation rules stand in for gloo (cross-checked against real gloo, "
                 "2-4 spawned processes, on one case per distinct model trace in the thorough tier)"]
EXTRA_LEAN_MODULES = ("TE.Driver.Sync",)

# (T) harness/translators/syncskel.py → lean/TE/Gen/SyncSkel.lean; theorems in lean/TE/Props/C02_Skel.lean (and C15_Skel.lean).
from ..translators import syncskel as syncskel_tr  # noqa: E402

TRUSTED_EXTRA = TRUSTED_EXTRA + [
    "harness/translators/syncskel.py (symbolic walk over the AST of the functions of toolkit.py / synclib.py that issue a collective) "
    "producing lean/TE/Gen/SyncSkel.lean; the extracted skeleton of every toolkit entry point is executed as a program next to the real "
    "entry point on the fake transport on every run (syncskel crosscheck: collectives per member, returned metrics / values)"]
_SKEL_ROWS: list = []


def translate(rep: Report):
    _SKEL_ROWS[:] = syncskel_tr.generate(rep)


ENTRIES = ["sync_and_compute", "get_synced_metric", "get_synced_state_dict",
           "sync_and_compute_collection", "get_synced_metric_collection", "get_synced_state_dict_collection"]

# ------------------------------------------------------------------ a custom metric over every TState kind


class Bag(Metric):
    """states: acc (1-d tensor, cat), tot (0-d tensor, add), items (list, extend), tab (dict, add per key),
    cnt (int, add), wt (float, add).  `kinds` ⊆ "atldnf" selects which are registered."""

    def __init__(self, kinds="atldnf", device=None):
        super().__init__(device=device)
        self.kinds = kinds
        if "a" in kinds:
            self._add_state("acc", torch.zeros(0))
        if "t" in kinds:
            self._add_state("tot", torch.tensor(0.0))
        if "l" in kinds:
            self._add_state("items", [])
        if "d" in kinds:
            self._add_state("tab", {})
        if "n" in kinds:
            self._add_state("cnt", 0)
        if "f" in kinds:
            self._add_state("wt", 0.0)

    @torch.inference_mode()
    def update(self, x: torch.Tensor, key: str = "a"):
        k = self.kinds
        if "a" in k:
            self.acc = torch.cat([self.acc, x.reshape(-1)])
        if "t" in k:
            self.tot = self.tot + x.sum()
        if "l" in k:
            self.items.append(x)
        if "d" in k:
            self.tab[key] = self.tab[key] + x if key in self.tab else x.clone()
        if "n" in k:
            self.cnt += int(x.numel())
        if "f" in k:
            self.wt += float(x.sum())
        return self

    @torch.inference_mode()
    def compute(self):
        out = []
        k = self.kinds
        if "a" in k:
            out.append(self.acc)
        if "t" in k:
            out.append(self.tot)
        if "l" in k:
            out.extend(self.items)
        if "d" in k:
            out.extend(self.tab[x] for x in sorted(self.tab))
        if "n" in k:
            out.append(torch.tensor(float(self.cnt), dtype=torch.float64))
        if "f" in k:
            out.append(torch.tensor(self.wt, dtype=torch.float64))
        return tuple(out)

    @torch.inference_mode()
    def merge_state(self, metrics):
        k = self.kinds
        for m in metrics:
            if "a" in k:
                self.acc = torch.cat([self.acc, m.acc])
            if "t" in k:
                self.tot = self.tot + m.tot
            if "l" in k:
                self.items.extend(m.items)
            if "d" in k:
                for key in sorted(m.tab):
                    self.tab[key] = self.tab[key] + m.tab[key] if key in self.tab else m.tab[key]
            if "n" in k:
                self.cnt += m.cnt
            if "f" in k:
                self.wt += m.wt
        return self

# ------------------------------------------------------------------ running the toolkit on the fake transport


def run_toolkit(entry: str, world: int, group, per_rank, initialized=True, jitter_seed=None, timeout=10.0):
    """per_rank: {global rank: metric | {name: metric}}.  returns outs (raw values), traces, status."""
    w = World(world, initialized=initialized, timeout=timeout, jitter_seed=jitter_seed)
    sub = list(group) != list(range(world))
    g = w.new_group(group) if sub else None
    fn = getattr(toolkit, entry)
    outs = w.run(lambda r: fn(per_rank[r], g), ranks=group)
    return outs, [fmt_trace(w.trace[r]) for r in group], world_status([outs[r] for r in group])


def obs_of(entry: str, v):
    """canonical observation of an entry point's return value: text that is equal iff equal."""
    if entry == "sync_and_compute":
        return ("value", v)
    if entry == "get_synced_metric":
        return ("metric", v)
    if entry == "get_synced_state_dict":
        return ("sd", v)
    if entry == "sync_and_compute_collection":
        return ("values", v)
    if entry == "get_synced_metric_collection":
        return ("metrics", v)
    return ("sds", v)


def local_merge(ms: dict, group, r, prepared: bool):
    """the oracle: clone(m_r).merge_state(others in rank order) — real code, no transport.
    `prepared`: every member's `_prepare_for_merge_state()` hook has run first, as the toolkit does (list states are then
    partitioned the same way; `compute()` must not depend on it, which the un-prepared variant checks)."""
    cl = {j: clone_metric(ms[j]) for j in group}
    if prepared:
        for m in cl.values():
            m._prepare_for_merge_state()
    base = clone_metric(cl[r])
    base.merge_state([cl[j] for j in group if j != r])
    return base


def compare_entry(entry: str, got, exp_metric_or_dict, tol) -> str | None:
    """None or a message; `exp_…` is the locally merged metric (or {name: merged metric})."""
    if isinstance(exp_metric_or_dict, tuple):          # (prepared merge, un-prepared merge)
        prep, raw = exp_metric_or_dict
        m = compare_entry(entry, got, prep, tol)
        if m:
            return m
        if entry.startswith("get_synced_state_dict"):
            return None
        return compare_entry(entry.replace("get_synced_metric", "sync_and_compute#") if entry.startswith("get_synced_metric") else entry,
                             got, raw, tol)
    def cmp_metric(g, e):
        if not same_obs(observe(g), observe(e), tol):
            return f"compute() {obs_json(observe(g))} vs local merge {obs_json(observe(e))}"
        return cmp_sd(g.state_dict(), e.state_dict())

    def cmp_value(g, e):
        from ..common import err_kind, flat_out
        if hasattr(g, "compute") and hasattr(g, "merge_state"):
            return None if same_obs(observe(g), observe(e), tol) else f"compute() {obs_json(observe(g))} vs un-prepared local merge {obs_json(observe(e))}"
        try:
            go = ("ok", [t.detach().clone() for t in flat_out(g)])
        except TypeError as x:
            go = ("err", "Unflattenable", repr(x))
        eo = observe(e)
        return None if same_obs(go, eo, tol) else f"value {obs_json(go)} vs local merge {obs_json(eo)}"

    def cmp_sd(g, e_sd):
        a, b = render_sd(g), render_sd(e_sd)
        return None if a == b or sd_close(g, e_sd, tol) else f"state_dict {a[:200]} vs local merge {b[:200]}"

    single = not entry.endswith("_collection")
    if "#" in entry:
        entry = "sync_and_compute" + ("_collection" if not single else "")
    if single:
        if entry == "sync_and_compute":
            return cmp_value(got, exp_metric_or_dict)
        if entry == "get_synced_metric":
            return cmp_metric(got, exp_metric_or_dict)
        return cmp_sd(got, exp_metric_or_dict.state_dict())
    if not isinstance(got, dict) or list(got) != list(exp_metric_or_dict):
        return f"collection keys {list(got) if isinstance(got, dict) else type(got)} vs {list(exp_metric_or_dict)}"
    for k in exp_metric_or_dict:
        e = exp_metric_or_dict[k]
        if entry == "sync_and_compute_collection":
            m = cmp_value(got[k], e)
        elif entry == "get_synced_metric_collection":
            m = cmp_metric(got[k], e)
        else:
            m = cmp_sd(got[k], e.state_dict())
        if m:
            return f"[{k}] {m}"
    return None


def compare_collection(entry: str, got, exp: dict, tol) -> str | None:
    if not isinstance(got, dict) or list(got) != list(exp):
        return f"collection keys {list(got) if isinstance(got, dict) else type(got)} vs {list(exp)}"
    single_entry = entry[: -len("_collection")]
    for k in exp:
        m = compare_entry(single_entry, got[k], exp[k], tol)
        if m:
            return f"[{k}] {m}"
    return None


def render_sd(sd) -> str:
    return render_compute({k: sd[k] for k in sorted(sd)})


def sd_close(a, b, tol) -> bool:
    from ..engine import tensors_close
    if set(a) != set(b):
        return False
    for k in a:
        x, y = a[k], b[k]
        if isinstance(x, torch.Tensor) and isinstance(y, torch.Tensor):
            if not tensors_close(x, y, tol):
                return False
        elif isinstance(x, list) and isinstance(y, list):
            if len(x) != len(y) or not all(tensors_close(p, q, tol) for p, q in zip(x, y)):
                return False
        elif isinstance(x, dict) and isinstance(y, dict):
            if set(x) != set(y) or not all(tensors_close(x[q], y[q], tol) for q in x):
                return False
        elif isinstance(x, (int, float)) and isinstance(y, (int, float)):
            if abs(x - y) > tol * max(1.0, abs(y)):
                return False
        else:
            return False
    return True

# ------------------------------------------------------------------ cases over the registry


def gen_history(rng: Rng, spec: Spec, cfg: dict, group, force_idle: bool):
    """{g: [Batch…]} — 0..2 updates per rank, uneven sizes."""
    n_up = {g: rng.choice([0, 1, 1, 2]) for g in group}
    if force_idle and len(group) > 1:
        n_up[rng.choice(group)] = 0
        if all(v == 0 for v in n_up.values()):
            n_up[rng.choice(group)] = rng.choice([1, 2])
    return {g: [spec.gen(rng, cfg, rng.choice(spec.sizes)) for _ in range(n_up[g])] for g in group}


def build_metrics(spec: Spec, cfg: dict, hist: dict):
    ms = {}
    for g, bs in hist.items():
        m = new_metric(spec, cfg)
        for b in bs:
            b.apply(m)
        ms[g] = m
    return ms


def state_collection(named: dict) -> dict:
    """{name: metric} -> {name: state_dict after _prepare_for_merge_state} (on copies)."""
    out = {}
    for k, m in named.items():
        c = clone_metric(m)
        c._prepare_for_merge_state()
        out[k] = c.state_dict()
    return out


def model_trace_line(world, group, colls: dict) -> str | None:
    """request line for the Lean model (`sync.sync_states`) or None when a state cannot be encoded."""
    try:
        line = (f"fn sync.sync_states world={world} group={','.join(map(str, group))} dst=none "
                + " ".join(f"r{g}={enc_collection(colls[g])}" for g in group))
    except Exception:  # noqa: BLE001   (exotic dtypes / key types)
        return None
    return None if ("nan" in line or "inf" in line or "?" in line) else line


def classify_transport(status: str, colls: dict, group, sub: bool, traces) -> tuple[str, str] | None:
    """known shapes of a transport failure -> (signature, explanation); None when it is something else."""
    if status in ("root-not-in-group", "root-is-not-the-member-meant") and sub:
        # (repaired in synclib by _to_global_rank: an ordinary violation if it ever shows again)
        last = (traces[0] or "-").split(",")[-1]
        if last.startswith("bo/"):
            return ("C02|_sync_dtype_and_shape|subgroup|src-is-group-relative",
                    "broadcast_object_list(src=<group-relative rank>) on a sub-group: torch reads src as a global rank")
    if status in ("dtype-shape-differs", "different-collectives"):
        g0 = group[0]
        for m in colls[g0]:
            for s, v in colls[g0][m].items():
                if isinstance(v, torch.Tensor):
                    nds = {colls[g][m][s].ndim for g in group}
                    if len(nds) > 1 and 0 in nds:
                        return ("C02|send_tensors|ndim-0-vs-1-across-ranks|collective-mismatch",
                                f"state {s} is 0-dim on ranks that never updated and {max(nds)}-dim elsewhere: send_tensors issues "
                                f"all_gather(value) on the former and all_gather(shape) on the latter")
                if isinstance(v, list):
                    sigs = {(x.ndim, str(x.dtype)) for g in group for x in colls[g][m][s]}
                    lens = {len(colls[g][m][s]) for g in group}
                    if len(sigs) > 1 and len(lens) > 1:
                        return ("C02|_sync_list_tensor_states|short-rank-dummy|shape-dtype-of-first-element",
                                f"list state {s} holds tensors of different ndim/dtype and the ranks' lists differ in length: the dummy "
                                f"tensor a short rank sends copies only the first element's dtype/shape")
    return None


def check_case(rep: Report, *, label: str, cls: str, cfg_pub, entry: str, world: int, group, ms: dict, tol: float,
               replay: dict, jitter_seed=None, extra=None, model_lines: list | None = None, pending: list | None = None):
    """ms: {g: metric | {name: metric}} (fresh objects owned by this call)."""
    single = not entry.endswith("_collection")
    sub = list(group) != list(range(world))
    named = {g: ({"tmp": ms[g]} if single else ms[g]) for g in group}
    before = {g: {k: clone_metric(m) for k, m in named[g].items()} for g in group}
    colls = {g: state_collection(before[g]) for g in group}
    outs, traces, status = run_toolkit(entry, world, group, ms, jitter_seed=jitter_seed)
    rep.count(f"entry:{entry}"); rep.count(f"world:{world}"); rep.count(f"group:{'sub' if sub else 'world'}")
    rep.count(f"status:{status}"); rep.count(f"class:{cls}")
    if jitter_seed is not None:
        rep.count("arrival-jitter")
    if len(group) == 1:
        # group of one: the input object itself is returned (collections: the same mapping)
        r = group[0]
        o = outs[r]
        same = o.ok and ((o.value is ms[r]) if entry in ("get_synced_metric", "get_synced_metric_collection") else True)
        if not same or status != "ok":
            rep.violation(f"C02|{entry}|world-size-1|input-not-returned", f"{cls}: group of one: {o}", replay)
        if traces[0] != "":
            rep.violation(f"C02|{entry}|world-size-1|collectives-issued", f"{cls}: group of one issued {traces[0]}", replay)
        return
    # oracle: local merge in rank order, on every rank
    if status != "ok":
        known = classify_transport(status, colls, group, sub, traces)
        errs = {r: outs[r].value for r in group if not outs[r].ok}
        r0 = sorted(errs)[0]
        # an error the local merge (+ compute) raises as well is not a sync problem (e.g. a compute the class rejects)
        local_err = None
        try:
            for k in before[r0]:
                mm = local_merge({g: before[g][k] for g in group}, group, r0, prepared=True)
                if entry.startswith("sync_and_compute"):
                    o = observe(mm)
                    if o[0] == "err":
                        raise {"RuntimeError": RuntimeError, "ValueError": ValueError, "TypeError": TypeError,
                               "IndexError": IndexError, "AssertionError": AssertionError}.get(o[1], Exception)(o[2])
        except Exception as e:  # noqa: BLE001
            local_err = e
        all_empty = [f"{m}.{s}" for m in colls[group[0]] for s, v in colls[group[0]][m].items()
                     if isinstance(v, list) and all(colls[g][m][s] == [] for g in group)]
        if local_err is not None and status.startswith("crashed-") and type(local_err).__name__ == status[len("crashed-"):]:
            rep.count("merge-or-compute-raises-locally-too")
        elif status.startswith("crashed-") and all_empty and known is None:
            # (repaired in synclib: receiving ranks get []; an ordinary violation if it ever shows again)
            sig = "C02|_sync_list_tensor_states|all-ranks-empty|comes-back-as-dict"
            rep.count("violation:" + sig)
            rep.violation(sig, f"{cls}{cfg_pub} {entry} on group {list(group)} of {world}: list state(s) {all_empty} are [] on every rank, "
                          f"sync_states delivers the {{}} placeholder instead and merge_state raises: {errs[r0]!r}"[:600],
                          {**replay, "status": status, "traces": traces})
        elif known:
            rep.count("violation:" + known[0])
            rep.violation(known[0], f"{cls}{cfg_pub} {entry} on group {list(group)} of {world}: {known[1]}; transport: {errs[r0]}"[:600],
                          {**replay, "status": status, "traces": traces})
        else:
            rep.violation(f"C02|{cls}|{entry}|{'subgroup' if sub else 'world'}|{status}",
                          f"{cls}{cfg_pub} {entry} on group {list(group)} of {world}: rank {r0}: {errs[r0]!r}"[:600],
                          {**replay, "status": status, "traces": traces})
    else:
        for r in group:
            try:
                exp = {k: (local_merge({g: before[g][k] for g in group}, group, r, prepared=True),
                           local_merge({g: before[g][k] for g in group}, group, r, prepared=False)) for k in before[r]}
            except Exception as e:  # noqa: BLE001
                rep.violation(f"C02|{cls}|{entry}|sync-succeeds-where-local-merge-raises",
                              f"{cls}{cfg_pub}: local merge on rank {r} raises {e!r} but {entry} returned", replay)
                break
            msg = compare_entry(entry, outs[r].value, exp["tmp"], tol) if single else compare_collection(entry, outs[r].value, exp, tol)
            if msg:
                sig = f"C02|{cls}|{entry}|differs-from-local-merge"
                if extra and extra.get("unequal_keys"):
                    sig = "C02|_sync_dict_tensor_states|unequal-keys|re-keyed-with-local-keys"
                rep.count("violation:" + sig)
                rep.violation(sig, f"{cls}{cfg_pub} {entry} on group {list(group)} of {world}, rank {r}: {msg}"[:700],
                              {**replay, "traces": traces})
                break
    # correspondence with the Lean model: the per-rank collective trace (and outcome) of sync_states on these state dicts
    if model_lines is not None:
        line = model_trace_line(world, group, colls)
        if line is None:
            rep.count("model-skipped:unencodable-state")
        else:
            model_lines.append(line)
            pending.append({"label": label, "status": status, "traces": traces, "replay": replay, "line": line,
                            "world": world, "group": list(group), "entry": entry, "ms_before": before if world <= 4 else None,
                            "single": single})


def flush_model(rep: Report, model_lines: list, pending: list, stream: str):
    if not model_lines:
        return
    raw = model_run(model_lines + [l.replace("fn sync.sync_states ", "fn sync.syncable ", 1).replace(" dst=none ", " ", 1) for l in model_lines])
    answers = [parse_answer(a) for a in raw[:len(model_lines)]]
    nd = rep.streams.setdefault(stream, {"cases": 0, "disagreements": 0})
    for p, a, sy in zip(pending, answers, raw[len(model_lines):]):
        # where the theorems' hypothesis `Syncable` holds (decided by the model's checker) the collectives must complete:
        # the only failure left is an exception inside merge_state / compute
        sy = sy.strip()
        rep.count("syncable:" + sy.replace("ok ", ""))
        if sy == "ok true" and not (p["status"] == "ok" or p["status"].startswith("crashed-")):
            rep.broke("theorem-hypothesis:Syncable", f"{p['label']}: the states satisfy Syncable but the transport reports {p['status']}",
                      {**p["replay"], "request": p["line"][:2000]})
        rep.traces += 1
        nd["cases"] += 1
        p["model"] = a
        msg = None
        st = p["status"]
        # the toolkit adds nothing to sync_states' collectives; a crash inside merge_state happens after them
        if st.startswith("crashed-") and a["status"] == "ok":
            if a["t"] != p["traces"]:
                msg = f"collective traces before the crash: real {p['traces']}, model {a['t']}"
        elif a["status"] != st:
            msg = f"outcome: real {st}, model {a['status']}"
        elif a["t"] != p["traces"]:
            msg = f"collective traces: real {p['traces']}, model {a['t']}"
        if msg:
            nd["disagreements"] += 1
            if nd["disagreements"] <= 25:
                rep.broke(f"correspondence:sync-model:{stream}", f"{p['label']}: model and implementation disagree: {msg}"[:600],
                          {**p["replay"], "request": p["line"][:2000]})


def registry_cases(rep: Report, rng_seed: int, tier: str, deadline: float, collect: list | None = None):
    thorough = tier == "thorough"
    worlds = [2, 3, 4, 5, 8] if thorough else [2, 3, 4]
    per_cfg = 6 if thorough else 2
    lines, pend = [], []
    k = 0
    for spec in SPECS:
        for ci, cfg0 in enumerate(spec.configs):
            if time.time() > deadline:
                rep.notes.append("budget exhausted before all classes were visited")
                flush_model(rep, lines, pend, "registry")
                return
            for rep_i in range(per_cfg):
                k += 1
                case_seed = f"{rng_seed}:{spec.name}:{ci}:{rep_i}"
                run_registry_case(rep, case_seed, tier, k, lines, pend)
    flush_model(rep, lines, pend, "registry")
    if collect is not None:
        collect.extend(pend)


def make_registry_case(case_seed: str, tier: str, k: int):
    """deterministic from its seed string (used by replay)."""
    _s, name, ci, _r = case_seed.rsplit(":", 3)
    spec = BY_NAME[name]
    rng = Rng(case_seed)
    cfg = fresh_cfg(spec.configs[int(ci)])
    worlds = [2, 3, 4, 5, 8] if tier == "thorough" else [2, 3, 4]
    world = worlds[k % len(worlds)]
    entry = ENTRIES[k % len(ENTRIES)]
    group = list(range(world))
    if world <= 4 and rng.random() < 0.3:
        subs = [g for g in subgroups(world) if len(g) >= 2]
        if subs:
            group = rng.choice(subs)
    force_idle = rng.random() < 0.5
    single = not entry.endswith("_collection")
    if single:
        hist = gen_history(rng, spec, cfg, group, force_idle)
        ms = build_metrics(spec, cfg, hist)
        counts = {g: [len(hist[g])] for g in group}
        named = [(None, cfg, hist)]
    else:
        h1 = gen_history(rng, spec, cfg, group, force_idle)
        cfg2 = fresh_cfg(spec.configs[int(ci)])
        h2 = gen_history(rng, spec, cfg2, group, not force_idle)
        m1, m2 = build_metrics(spec, cfg, h1), build_metrics(spec, cfg2, h2)
        ms = {g: {"zeta": m1[g], "alpha": m2[g]} for g in group}     # insertion order ≠ sorted order on purpose
        counts = {g: [len(h1[g]), len(h2[g])] for g in group}
        named = [("zeta", cfg, h1), ("alpha", cfg2, h2)]
        if rng.random() < 0.35:
            # the SAME metric object registered under a second name (e.g. "loss" and "epoch/loss"): every entry of the
            # synced collection is still that metric merged with the other ranks' — once
            for g in group:
                ms[g]["zeta_again"] = m1[g]
            named.append(("zeta_again", cfg, h1, "zeta"))
    make_registry_case.last_record = registry_record(named, group)
    return spec, cfg, world, group, entry, ms, counts


def registry_record(named, group):
    """replayable content of a registry case: per member, per metric (in the collection's insertion order; name None = the single
    metric form) the public configuration and the update history (every batch with its tensors' dtype and shape)"""
    return {str(g): [{"name": ent[0], "cfg": public_cfg(ent[1]), "history": [b.describe() for b in ent[2][g]],
                      **({"alias_of": ent[3]} if len(ent) > 3 else {})} for ent in named] for g in group}


def metrics_from_record(spec: Spec, ranks: dict, group):
    """{g: metric | {name: metric}} rebuilt from `registry_record` (fresh objects, fed their recorded updates)"""
    from ..registry import Batch
    ms = {}
    for g in group:
        built = []
        for ent in ranks[str(g)]:
            if ent.get("alias_of") is not None:        # the same object under a second name
                built.append((ent["name"], dict(built)[ent["alias_of"]]))
                continue
            m = new_metric(spec, dict(ent["cfg"]))
            for d in ent["history"]:
                Batch.from_describe(d).apply(m)
            built.append((ent["name"], m))
        ms[g] = built[0][1] if (len(built) == 1 and built[0][0] is None) else {name: m for name, m in built}
    return ms


def run_registry_case(rep: Report, case_seed: str, tier: str, k: int, lines, pend):
    spec, cfg, world, group, entry, ms, counts = make_registry_case(case_seed, tier, k)
    differ = len({json.dumps(counts[g]) for g in group}) > 1
    desc = {"class": spec.name, "cfg": public_cfg(cfg), "entry": entry, "world": world, "group": group, "updates_per_rank": counts}
    rep.case(nontrivial_key=json.dumps({**desc, "seed": case_seed}, default=str) if differ else None,
             sample=desc if rep.evaluations % 97 == 0 else None)
    rep.count(f"idle-ranks:{min(2, sum(1 for g in group if sum(counts[g]) == 0))}")
    js = (zlib.crc32(case_seed.encode()) % 100000) if k % 4 == 0 else None
    check_case(rep, label=f"{spec.name}{public_cfg(cfg)}", cls=spec.name, cfg_pub=public_cfg(cfg), entry=entry, world=world, group=group,
               ms=ms, tol=spec.tol, replay={"kind": "registry", "case_seed": case_seed, "tier": tier, "k": k, **desc,
                                            "ranks": make_registry_case.last_record, "jitter_seed": js, "tol": spec.tol},
               jitter_seed=js, model_lines=lines, pending=pend)

# ------------------------------------------------------------------ custom metric cases


def bag_tensor(rng: Rng, shape, salt):
    n = 1
    for d in shape:
        n *= d
    return torch.tensor([float((salt * 5 + i * 3 + rng.randrange(4)) % 17) / 8 for i in range(n)], dtype=torch.float32).reshape(shape)


def make_bag_case(case_seed: str):
    rng = Rng(case_seed)
    world = rng.choice([1, 2, 2, 3, 3, 4, 5])
    group = list(range(world))
    if 2 <= world <= 4 and rng.random() < 0.25:
        group = rng.choice([g for g in subgroups(world)])
    kinds = "".join(k for k in "atldnf" if rng.random() < 0.6) or "l"
    variant = rng.choice(["equal-keys", "equal-keys", "unequal-keys", "mixed-ndim-list"])
    keyset = rng.sample(["a", "b", "c"], rng.randint(0, 3))
    ms, extra = {}, {"unequal_keys": False, "mixed": False}
    key_sets = set()
    for g in group:
        m = Bag(kinds)
        if "a" in kinds:
            m.acc = bag_tensor(rng, (rng.choice([0, 1, 2, 3]),), g)
        if "t" in kinds:
            m.tot = torch.tensor(float(rng.randrange(16)) / 8)
        if "l" in kinds:
            ln = rng.choice([0, 0, 1, 2])
            if variant == "mixed-ndim-list":
                m.items = [bag_tensor(rng, (2,) if j == 0 else (2, 2), g + j) for j in range(ln)]
            else:
                m.items = [bag_tensor(rng, (rng.choice([0, 1, 2, 3]),), g + j) for j in range(ln)]
        if "d" in kinds:
            ks = list(keyset) if variant != "unequal-keys" else rng.sample(["a", "b", "c"], rng.randint(0, 3))
            rng.shuffle(ks)
            m.tab = {k: bag_tensor(rng, (2,), g + ord(k)) for k in ks}
            key_sets.add(tuple(sorted(ks)))
        if "n" in kinds:
            m.cnt = rng.randrange(20)
        if "f" in kinds:
            m.wt = float(rng.randrange(40)) / 8
        ms[g] = m
    extra["unequal_keys"] = len(key_sets) > 1
    entry = rng.choice(ENTRIES[:3])
    return world, group, kinds, variant, entry, ms, extra


def bag_record(ms: dict, group):
    """replayable content of a case over the custom metric: per member, per metric (insertion order; name None = single form)
    the registered states as text (`enc_collection`: tensors with dtype and shape, list / dict states in their order, int, float)"""
    out = {}
    for g in group:
        items = [(None, ms[g])] if isinstance(ms[g], Metric) else list(ms[g].items())
        out[str(g)] = [[name, enc_collection({"tmp": clone_metric(m).state_dict()})] for name, m in items]
    return out


def bags_from_record(ranks: dict, group):
    ms = {}
    for g in group:
        built = [(name, bag_from(fd.dec_collection(text).get("tmp", {}))) for name, text in ranks[str(g)]]
        ms[g] = built[0][1] if (len(built) == 1 and built[0][0] is None) else {name: m for name, m in built}
    return ms


def bag_cases(rep: Report, seed: int, n_cases: int, deadline: float):
    lines, pend = [], []
    bag_lines, bag_pend = [], []
    for i in range(n_cases):
        if time.time() > deadline:
            break
        case_seed = f"{seed}:bag:{i}"
        world, group, kinds, variant, entry, ms, extra = make_bag_case(case_seed)
        desc = {"class": "Bag", "kinds": kinds, "variant": variant, "entry": entry, "world": world, "group": group}
        colls = {g: {"tmp": clone_metric(ms[g]).state_dict()} for g in group}
        sig = json.dumps({g: enc_collection(colls[g]) for g in group})
        rep.case(nontrivial_key=sig if len({enc_collection(colls[g]) for g in group}) > 1 else None,
                 sample=desc if i % 151 == 0 else None)
        rep.count(f"bag:{variant}")
        # the model of the whole toolkit flow for this metric (merged state per rank)
        if len(group) >= 1:
            bag_lines.append(f"fn sync.synced_bag world={world} group={','.join(map(str, group))} "
                             + " ".join(f"r{g}={enc_collection(colls[g])}" for g in group))
            bag_pend.append({"entry": entry, "world": world, "group": group, "colls": colls, "desc": desc, "seed": case_seed})
        check_case(rep, label=f"Bag({kinds},{variant})", cls="Bag", cfg_pub={"kinds": kinds, "variant": variant}, entry=entry, world=world,
                   group=group, ms=ms, tol=1e-6, replay={"kind": "bag", "case_seed": case_seed, **desc, "ranks": bag_record(ms, group), "extra": extra,
                                                         "jitter_seed": (i if i % 3 == 0 else None), "tol": 1e-6}, extra=extra,
                   jitter_seed=(i if i % 3 == 0 else None), model_lines=lines, pending=pend)
    flush_model(rep, lines, pend, "bag-trace")
    # merged state of the model vs the real synced metric's state_dict
    if bag_lines:
        answers = [parse_answer(a) for a in model_run(bag_lines)]
        st = rep.streams.setdefault("bag-merged-state", {"cases": 0, "disagreements": 0})
        for p, a in zip(bag_pend, answers):
            world, group = p["world"], p["group"]
            ms = {g: bag_from(p["colls"][g]["tmp"]) for g in group}
            outs, traces, status = run_toolkit("get_synced_metric", world, group, ms)
            st["cases"] += 1
            rep.traces += 1
            msg = None
            if status.startswith("crashed-"):
                if not a["status"].startswith("crashed-"):
                    msg = f"outcome: real {status}, model {a['status']}"
            elif a["status"] != status:
                msg = f"outcome: real {status}, model {a['status']}"
            elif status == "ok":
                real = [enc_collection({"tmp": outs[g].value.state_dict()}) for g in group]
                # the model lists a dict's entries in stored order, python too; compare canonically (sorted keys)
                if [canon(x) for x in real] != [canon(x) for x in a["v"]]:
                    msg = f"merged state: real {real}, model {a['v']}"
            if msg:
                st["disagreements"] += 1
                rep.broke("correspondence:sync-model:bag-merged-state", f"Bag {p['desc']}: {msg}"[:700], {"kind": "bag", "case_seed": p["seed"]})


def canon(coll_text: str) -> str:
    return enc_collection(fd.dec_collection(coll_text), sort=True)


def bag_from(sd: dict) -> Bag:
    kinds = "".join(k for k, n in zip("atldnf", ["acc", "tot", "items", "tab", "cnt", "wt"]) if n in sd)
    m = Bag(kinds)
    for n, v in sd.items():
        setattr(m, n, copy.deepcopy(v))
    return m

# ------------------------------------------------------------------ world size 1 / no process group


def short_circuit_verdict(m, init: bool):
    """world size 1 (`init`) / no process group: the toolkit must hand back the very objects it was given and issue no collective.
    returns None or a description of what came back"""
    w = World(1, initialized=init)
    outs = w.run(lambda r: (toolkit.get_synced_metric(m), toolkit.get_synced_metric_collection({"a": m})))
    o = outs[0]
    coll_ok = o.ok and isinstance(o.value[1], dict) and o.value[1].get("a") is m
    if o.ok and o.value[0] is m and coll_ok and w.trace[0] == []:
        return None
    return f"{o} trace={w.trace[0]}"


def short_circuit_cases(rep: Report, rng: Rng):
    n = 0
    for spec in SPECS[:: 3]:
        cfg = fresh_cfg(spec.configs[0])
        m = new_metric(spec, cfg)
        b = spec.gen(rng, cfg, spec.sizes[-1])
        try:
            b.apply(m)
        except Exception:  # noqa: BLE001
            continue
        for init in (False, True):
            n += 1
            rep.case(nontrivial_key=("ws1", spec.name, init))
            rep.count("short-circuit:" + ("ws1" if init else "uninitialised"))
            bad = short_circuit_verdict(m, init)
            if bad:
                rep.violation(f"C02|get_synced_metric|{'world-size-1' if init else 'uninitialised'}|input-not-returned",
                              f"{spec.name}: {bad}", {"kind": "short-circuit", "class": spec.name, "cfg": public_cfg(cfg), "batch": b.describe(), "init": init})
    rep.streams["short-circuit"] = {"cases": n}

# ------------------------------------------------------------------ a metric without registered states


STATELESS_MAKERS = {"get_synced_metric": lambda g: Bag(""),
                    "sync_and_compute": lambda g: Bag(""),
                    "get_synced_metric_collection": lambda g: {"a": _bag_n(g), "b": Bag("")},
                    "get_synced_state_dict_collection": lambda g: {"b": Bag(""), "a": _bag_n(g)}}


def stateless_cases(rep: Report):
    """a metric that registers no state: `sync_states` gives it an (empty) entry in every rank's collection, no collective is
    issued for it, and the toolkit returns the local merge — single metric and inside a collection, world and sub-group.
    (Repaired defect: it used to raise KeyError('tmp') / KeyError(<name>); an ordinary violation if it ever shows again.)"""
    lines, pend = [], []
    bag_lines, expect = [], []
    n = 0
    for world, group in ((2, [0, 1]), (3, [0, 1, 2]), (3, [1, 2])):
        for entry, mk in STATELESS_MAKERS.items():
            ms = {g: mk(g) for g in group}
            n += 1
            desc = {"class": "Bag", "kinds": "", "variant": "stateless", "entry": entry, "world": world, "group": group}
            rep.case(nontrivial_key=("stateless", world, tuple(group), entry))
            rep.count("stateless-metric")
            check_case(rep, label=f"Bag(stateless,{entry})", cls="Bag", cfg_pub={"kinds": "", "variant": "stateless"}, entry=entry,
                       world=world, group=group, ms=ms, tol=1e-6, replay={"kind": "stateless", **desc, "ranks": bag_record(ms, group), "jitter_seed": None, "tol": 1e-6},
                       model_lines=lines, pending=pend)
            if entry == "get_synced_metric":
                outs, traces, status = run_toolkit(entry, world, group, {g: Bag("") for g in group})
                bag_lines.append(f"fn sync.synced_bag world={world} group={','.join(map(str, group))} " + " ".join(f"r{g}=-" for g in group))
                expect.append((status, traces, [enc_collection({"tmp": outs[g].value.state_dict()}) if outs[g].ok else None for g in group]))
    flush_model(rep, lines, pend, "stateless")
    st = rep.streams.setdefault("stateless", {"cases": n, "disagreements": 0})
    for (status, traces, vals), a in zip(expect, [parse_answer(x) for x in model_run(bag_lines)]):
        rep.traces += 1
        if a["status"] != status or a["t"] != traces or (status == "ok" and [canon(x) for x in a["v"]] != [canon(x) for x in vals]):
            st["disagreements"] += 1
            rep.broke("correspondence:sync-model:stateless", f"real {status} {traces} {vals}, model {a['status']} {a['t']} {a['v']}"[:600],
                      {"kind": "stateless"})


def _bag_n(g):
    m = Bag("n")
    m.cnt = g + 1
    return m

# ------------------------------------------------------------------ thorough: real gloo


def gloo_validation(rep: Report, pend: list, cap_ok=30, cap_fail=8):
    from .. import gloo_run
    strata = {}
    for p in pend:
        if p.get("ms_before") is None or not (2 <= p["world"] <= 4) or "model" not in p:
            continue
        try:
            pickle.dumps(p["ms_before"])
        except Exception:  # noqa: BLE001
            continue
        strata.setdefault((p["world"], tuple(p["group"]), p["model"]["status"], tuple(p["model"]["t"])), p)
    items = list(strata.values())
    oks = [p for p in items if p["status"] == "ok"]
    bads = [p for p in items if p["status"] != "ok"]
    all_oks = oks
    oks = oks[:: max(1, len(oks) // cap_ok)][:cap_ok]
    bads = bads[:: max(1, len(bads) // cap_fail)][:cap_fail]
    # proper sub-groups (incl. those whose traces contain a dtype/shape broadcast `bo/<global src>`): always sampled
    must = [p for p in all_oks if p["group"] != list(range(p["world"])) and not any(p is q for q in oks)]
    must.sort(key=lambda p: 0 if any("bo/" in t for t in p["traces"]) else 1)
    oks = oks + must[:12]
    rep.count("gloo:subgroup-cases", len([p for p in oks if p["group"] != list(range(p["world"]))]))
    rep.count("gloo:subgroup-broadcast-cases", len([p for p in oks if p["group"] != list(range(p["world"])) and any("bo/" in t for t in p["traces"])]))

    def job_of(p):
        single = p["single"]
        per = [None] * p["world"]
        for g in p["group"]:
            per[g] = p["ms_before"][g]["tmp"] if single else dict(p["ms_before"][g])
        sub = p["group"] != list(range(p["world"]))
        return {"kind": "toolkit", "entry": p["entry"], "metrics": per, "group": p["group"] if sub else None,
                "render": "harness.fakedist:render_compute"}
    launches = []
    for world in (2, 3, 4):
        b = [p for p in oks if p["world"] == world]
        for i in range(0, len(b), 10):
            launches.append((world, b[i:i + 10]))
    for p in bads:
        launches.append((p["world"], [p]))
    t0 = time.time()
    results = gloo_run.run_launches([(w, [job_of(p) for p in b]) for w, b in launches],
                                    lambda job, world: job["group"] if job["group"] is not None else list(range(world)))
    nval = ndis = 0
    for (world, batch), row in zip(launches, results):
        for p, (res, j) in zip(batch, row):
            single = p["single"]
            ms = {g: (clone_metric(p["ms_before"][g]["tmp"]) if single else {k: clone_metric(m) for k, m in p["ms_before"][g].items()})
                  for g in p["group"]}
            outs, _tr, status = run_toolkit(p["entry"], world, p["group"], ms)
            gstat = gloo_run.job_status(res, j, p["group"])
            nval += 1
            rep.count(f"gloo:{'ok' if status == 'ok' else 'mismatch'}")
            msg = None
            if status == "ok":
                if gstat != "ok":
                    msg = f"fake: ok; gloo: {[res['results'][r][j] if res['results'][r] and j < len(res['results'][r]) else None for r in p['group']]} exit={res['exit']}"
                else:
                    fv = [render_compute(outs[r].value) for r in p["group"]]
                    gv = [res["results"][r][j][1] for r in p["group"]]
                    if fv != gv:
                        msg = f"values differ: fake {fv} gloo {gv}"
            elif gstat == "ok":
                msg = f"fake reports {status} but every gloo rank returned"
            if msg:
                ndis += 1
                rep.broke("fakedist-vs-gloo", f"{p['label']} {p['entry']}: {msg}"[:600], p["replay"])
    rep.streams["gloo-validation"] = {"strata": len(items), "validated": nval, "disagreements": ndis, "launches": len(launches),
                                     "wall_s": round(time.time() - t0, 1)}
    rep.notes.append(f"real gloo: {nval} toolkit cases (one per distinct model trace, {len(items)} strata), {ndis} disagreements with the fake transport")

# ------------------------------------------------------------------ generated skeleton vs the source


def _skel_bags(rng: Rng, group, kinds: str):
    """{g: Bag} with uneven shapes / lengths, equal key sets inserted in a per-member order, one idle member"""
    keys = rng.sample(["a", "b", "c"], rng.randint(1, 3))
    idle = rng.choice(list(group))
    ms = {}
    for g in group:
        m = Bag(kinds)
        if "a" in kinds:
            m.acc = bag_tensor(rng, (0 if g == idle else rng.choice([1, 2, 3]),), g)
        if "t" in kinds:
            m.tot = torch.tensor(float(rng.randrange(16)) / 8)
        if "l" in kinds:
            m.items = [] if g == idle else [bag_tensor(rng, (rng.choice([0, 1, 2, 3]),), g + j) for j in range(rng.choice([1, 2]))]
        if "d" in kinds:
            ks = list(keys)
            rng.shuffle(ks)
            m.tab = {k: bag_tensor(rng, (2,), g + ord(k)) for k in ks}
        if "n" in kinds:
            m.cnt = rng.randrange(20)
        if "f" in kinds:
            m.wt = float(rng.randrange(40)) / 8
        ms[g] = m
    return ms


def skel_crosscheck(rep: Report):
    """every toolkit entry point, single and collection form, worlds of 2–4 and sub-groups, over the custom metric with every state
    kind: the skeleton's interpreter (harness/translators/syncskel.py: `Interp`, running the EXTRACTED skeleton, not the source)
    must issue on every member the same collectives (kind, dtype, shape, root, group) in the same order as the real entry point and
    return the same metrics / values; plus the world-size-1 and not-initialised short cuts."""
    rows = _SKEL_ROWS or syncskel_tr.extract()
    it = syncskel_tr.Interp(rows)
    rng = Rng(rep.seed * 1000003 + 202)
    st = {"cases": 0, "compared": 0, "disagreements": 0, "untranslated": [r["name"] for r in rows if r["untranslated"]]}
    layouts = [(2, [0, 1]), (3, [0, 1, 2]), (4, [0, 1, 2, 3]), (3, [1, 2]), (4, [0, 2, 3]), (1, [0])]
    k = 0
    for world, group in layouts:
        for entry in ENTRIES:
            for kinds in (["atldnf", "ld", "tn"] if world <= 3 else ["atldnf"]):
                k += 1
                single = not entry.endswith("_collection")
                if single:
                    ms = _skel_bags(rng, group, kinds)
                else:
                    m1, m2 = _skel_bags(rng, group, kinds), _skel_bags(rng, group, "tl" if k % 2 else "dn")
                    ms = {g: {"zeta": m1[g], "alpha": m2[g]} for g in group}        # insertion order ≠ sorted order
                cl = lambda x: clone_metric(x) if single else {n: clone_metric(m) for n, m in x.items()}    # noqa: E731
                init = not (world == 1 and k % 2 == 0)
                sub = list(group) != list(range(world))
                outs, ws = [], []
                for which in ("real", "skel"):
                    w = World(world, initialized=init, timeout=10.0)
                    g = w.new_group(group) if sub else None
                    per = {r: cl(ms[r]) for r in group}
                    if which == "real":
                        fn = getattr(toolkit, entry)
                        o = w.run(lambda r: fn(per[r], g), ranks=group)
                    else:
                        o = w.run(lambda r: it.call(entry, [per[r], g]), ranks=group)
                    outs.append(o)
                    ws.append(w)
                st["cases"] += 1
                s1, s2 = world_status([outs[0][r] for r in group]), world_status([outs[1][r] for r in group])
                if s1 != "ok":
                    continue
                st["compared"] += 1
                rep.traces += 1
                rep.count("syncskel-crosscheck:" + entry)
                t1, t2 = syncskel_tr.traces_of(ws[0], group), syncskel_tr.traces_of(ws[1], group)
                msg = None
                if s2 != "ok":
                    msg = f"the real entry point completes, the skeleton gives {s2}: {[outs[1][r].value for r in group if not outs[1][r].ok][:1]!r}"
                elif t1 != t2:
                    r = next(i for i in range(len(group)) if t1[i] != t2[i])
                    msg = f"collectives of group rank {r}: real {t1[r]}, skeleton {t2[r]}"
                else:
                    v1 = [render_compute(outs[0][r].value) for r in group]
                    v2 = [render_compute(outs[1][r].value) for r in group]
                    if v1 != v2:
                        msg = f"results: real {v1}, skeleton {v2}"
                if msg:
                    st["disagreements"] += 1
                    if st["disagreements"] <= 10:
                        rep.broke(f"syncskel:{entry}", f"generated skeleton and source disagree (Bag({kinds}), group {list(group)} of {world}, "
                                  f"initialised={init}): {msg}"[:700], {"kind": "syncskel", "entry": entry, "world": world, "group": list(group)})
    rep.streams["syncskel-crosscheck"] = st

# ------------------------------------------------------------------ entry points


def run(rep: Report):
    t_end = time.time() + budget(rep.tier, 75, 700)
    skel_crosscheck(rep)
    short_circuit_cases(rep, Rng(rep.seed * 1000003 + 2))
    stateless_cases(rep)
    collected: list = []
    registry_cases(rep, rep.seed, rep.tier, t_end - budget(rep.tier, 15, 150), collect=collected)
    bag_cases(rep, rep.seed, 260 if rep.tier == "quick" else 2500, t_end)
    if rep.tier == "thorough":
        gloo_validation(rep, collected)


def search(rep: Report):
    deadline = time.time() + 120
    k = 0
    for spec in SPECS:
        for ci in range(len(spec.configs)):
            for rep_i in range(3):
                if time.time() > deadline:
                    return
                k += 1
                run_registry_case(rep, f"{rep.seed + 77}:{spec.name}:{ci}:{rep_i}", "thorough", k, None, None)


def _nothing(reason):
    raise ValueError(f"nothing to replay: {reason}")


def replay(payload) -> bool:
    """True iff the property holds on the recorded case.  The per-rank metrics are rebuilt from the recorded content —
    registry classes from their configuration + update history, the custom metric from its recorded states — and judged by
    `check_case` (the oracle of the sweep: the real toolkit on the fake transport vs the real local merge on every rank);
    `short-circuit` cases by `short_circuit_verdict`.  Payloads recorded before the content was part of the replay dict carry
    only the generator seed: the case is regenerated and accepted only if it matches the recorded descriptors."""
    if not isinstance(payload, dict) or payload.get("kind", "failing-input") != "failing-input":
        _nothing(f"payload kind {payload.get('kind') if isinstance(payload, dict) else None!r} carries no concrete input")
    rp = payload.get("replay")
    if not isinstance(rp, dict) or not rp:
        _nothing("the payload carries no replay dict")
    kind = rp.get("kind")
    rep = Report("C02", "quick", 0)
    if kind == "short-circuit":
        from ..registry import Batch
        if rp.get("class") not in BY_NAME or not isinstance(rp.get("batch"), dict) or not isinstance(rp.get("init"), bool):
            _nothing("short-circuit payload without class, configuration, the update batch and the initialised flag")
        spec = BY_NAME[rp["class"]]
        m = new_metric(spec, dict(rp.get("cfg") or {}))
        Batch.from_describe(rp["batch"]).apply(m)
        bad = short_circuit_verdict(m, rp["init"])
        if bad:
            print(f"replay: {spec.name}: {bad}"[:500])
        return bad is None
    if kind not in ("registry", "bag", "stateless"):
        _nothing(f"replay kind {kind!r} is not one of registry / bag / stateless / short-circuit")
    if not all(k in rp for k in ("entry", "world", "group")) or rp["entry"] not in ENTRIES:
        _nothing("the payload lacks the toolkit entry point, the world size or the group")
    entry, world, group = rp["entry"], int(rp["world"]), [int(g) for g in rp["group"]]
    extra, js = rp.get("extra"), rp.get("jitter_seed")
    if isinstance(rp.get("ranks"), dict):
        if sorted(rp["ranks"]) != sorted(str(g) for g in group):
            _nothing("the recorded per-rank content does not cover the members of the group")
        if kind == "registry":
            if rp.get("class") not in BY_NAME:
                _nothing(f"unknown registry class {rp.get('class')!r}")
            spec = BY_NAME[rp["class"]]
            ms, cls, cfg_pub, tol = metrics_from_record(spec, rp["ranks"], group), spec.name, rp.get("cfg", {}), rp.get("tol", spec.tol)
        else:
            ms, cls, cfg_pub, tol = bags_from_record(rp["ranks"], group), "Bag", {"kinds": rp.get("kinds"), "variant": rp.get("variant")}, rp.get("tol", 1e-6)
    elif kind == "registry" and "case_seed" in rp and "k" in rp:
        spec, cfg, world2, group2, entry2, ms, counts = make_registry_case(rp["case_seed"], rp.get("tier", "quick"), rp["k"])
        if (spec.name, world2, list(group2), entry2) != (rp.get("class"), world, group, entry) or \
                ("updates_per_rank" in rp and {str(g): v for g, v in counts.items()} != {str(g): v for g, v in rp["updates_per_rank"].items()}):
            _nothing("seed-only payload: the regenerated case no longer matches the recorded class / entry / world / group / update counts")
        cls, cfg_pub, tol = spec.name, public_cfg(cfg), spec.tol
        js = (zlib.crc32(rp["case_seed"].encode()) % 100000) if rp["k"] % 4 == 0 else None
    elif kind == "bag" and "case_seed" in rp:
        world2, group2, kinds, variant, entry2, ms, extra = make_bag_case(rp["case_seed"])
        if (world2, list(group2), kinds, variant, entry2) != (world, group, rp.get("kinds"), rp.get("variant"), entry):
            _nothing("seed-only payload: the regenerated Bag case no longer matches the recorded descriptors")
        cls, cfg_pub, tol = "Bag", {"kinds": kinds, "variant": variant}, 1e-6
    elif kind == "stateless" and entry in STATELESS_MAKERS:
        # (recorded before the states were part of the payload) the fixed table of stateless_cases: member g holds Bag("") / {a: Bag(n = g+1), b: Bag("")}
        ms, cls, cfg_pub, tol = {g: STATELESS_MAKERS[entry](g) for g in group}, "Bag", {"kinds": "", "variant": "stateless"}, 1e-6
    else:
        _nothing("the payload carries neither the per-rank content nor a generator seed")
    check_case(rep, label=f"{cls}{cfg_pub}", cls=cls, cfg_pub=cfg_pub, entry=entry, world=world, group=group, ms=ms, tol=tol,
               replay={"kind": kind}, jitter_seed=js, extra=extra)
    for v in rep.violations:
        print(f"replay: {v['signature']}: {v['what']}"[:600])
    return not rep.violations
