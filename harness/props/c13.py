"""C13 — windowed metrics report exactly the last N updates/samples; lifetime values report everything;
compute() succeeds whenever the window is non-empty.  (+ the windowed clause of C01: merge pools the live windows.)

Step by step, after EVERY update:
  (a) real windowed class  vs  Lean model (`prog` lines through the driver; the model follows the code, defects included);
  (b) real windowed class  vs  an oracle independent of the model: the real NON-windowed class / functional
      (ClickThroughRate, WeightedCalibration, BinaryNormalizedEntropy, MeanSquaredError, binary_auroc)
      applied to the explicit list of the last N updates (samples), resp. to all updates for the lifetime value.
Merges: flat merge of un-merged sources into a fresh / updated target (must pool exactly the live entries),
sequential merges and update-after-merge (known defects, re-established on the real code every run).
"""
from __future__ import annotations
import copy
import math
from fractions import Fraction as Fr
import torch
from ..common import G5, Rng, Report, ft, it, run_driver
from ..registry import BY_NAME, Batch, W4, new_metric, fresh_cfg
from ..progs import Prog, run_real, model_results, compare_with_model
from ..engine import observe, obs_json
import torcheval.metrics as M
from torcheval.metrics.functional import binary_auroc

LEVEL = "proof"
RULE = ("one windowed metric fed a seeded stream, compute() observed after every update; window sizes N in {1,2,3,5}, "
        "streams of up to 4N+3 updates (below, at and several multiples beyond the window), num_tasks 1 and 2, lifetime on/off, "
        "weights on/off; AUROC: batch sizes from {1,N-1,N,N+1,3N}, scores on {0,1/4,1/2,3/4,1} with extra zeros; "
        "non-trivial = a step whose window differs from the whole history (wrapped) or is partially filled; "
        "merge programs: flat / sequential / update-after-merge over 2-3 instances")
MODELLED = ["float rounding of the final divisions (tolerance 1e-6; normalized entropy 1e-4: torch evaluates the cross entropy in "
            "float32, the model with the C library log in float64)",
            "AUROC targets are 0/1 (pair-counting AUROC = trapezoid over tie groups only then)"]
ASSUMPTIONS = ["a window whose weighted target sum (calibration) is 0 is outside the comparison: the non-windowed class returns an "
               "empty tensor there while the windowed class divides by eps — division by zero is undocumented for both",
               "merge_state sources are distinct objects (no self-merge) and passed as a list"]

# (T) harness/translators/winplumb.py → lean/TE/Gen/WinPlumbing.lean; theorems in lean/TE/Props/C13_Plumb.lean.
from ..translators import winplumb as winplumb_tr  # noqa: E402

TRUSTED_EXTRA = ["harness/translators/winplumb.py (symbolic execution of the AST of __init__ / update / compute / reset / merge_state of the "
                 "windowed classes: subscript assignments, the cursor attribute, index expressions over cursor / counter / window size, the "
                 "`for metric in metrics` loops as step functions) producing lean/TE/Gen/WinPlumbing.lean; its facts are cross-checked on "
                 "instrumented real instances on every run (winplumb:*-crosscheck counters)"]
_WIN_ROWS: list = []


def translate(rep: Report):
    _WIN_ROWS[:] = winplumb_tr.generate(rep)


CLASSES = ["WindowedClickThroughRate", "WindowedWeightedCalibration", "WindowedBinaryNormalizedEntropy", "WindowedMeanSquaredError"]
AUROC = "WindowedBinaryAUROC"
NS = [1, 2, 3, 5]

# ------------------------------------------------------------------ generators

def gen_batch(cls: str, cfg: dict, rng: Rng, n: int, weighted: bool, zero_w: bool = False) -> Batch:
    """`zero_w`: an update whose weights are all zero — it adds nothing to any sum but still is an update
    (it must take a window slot and evict the oldest one)."""
    t = cfg.get("num_tasks", 1)
    W4 = [Fr(0)] if zero_w else globals()["W4"]
    shape = (n,) if t == 1 else (t, n)
    if cls == "WindowedClickThroughRate":
        x = it([rng.choice([0, 1]) for _ in range(t * n)], shape=shape)
        return Batch((x, ft(rng.grid(t * n, W4), shape=shape))) if weighted else Batch((x,))
    if cls == "WindowedWeightedCalibration":
        x = ft(rng.grid(t * n, [Fr(1, 4), Fr(1, 2), Fr(3, 4), Fr(1)]), shape=shape)
        y = [rng.choice([0, 1, 1]) for _ in range(t * n)]
        y = ft(y, shape=shape)
        return Batch((x, y, ft(rng.grid(t * n, W4), shape=shape))) if weighted else Batch((x, y))
    if cls == "WindowedBinaryNormalizedEntropy":
        grid = [Fr(-1), Fr(0), Fr(1, 2), Fr(2)] if cfg.get("from_logits") else [Fr(1, 8), Fr(1, 4), Fr(1, 2), Fr(3, 4), Fr(7, 8)]
        x = ft(rng.grid(t * n, grid), shape=shape)
        y = ft([rng.choice([0, 1]) for _ in range(t * n)], shape=shape)
        return Batch((x, y), {"weight": ft(rng.grid(t * n, W4), shape=shape)}) if weighted else Batch((x, y))
    if cls == "WindowedMeanSquaredError":
        g = [Fr(i, 4) for i in range(-4, 9)]
        sh = (n,) if t == 1 else (n, t)
        x, y = ft(rng.grid(t * n, g), shape=sh), ft(rng.grid(t * n, g), shape=sh)
        return Batch((x, y), {"sample_weight": ft(rng.grid(n, W4))}) if weighted else Batch((x, y))
    raise KeyError(cls)


ZG = [Fr(0), Fr(0), Fr(1, 4), Fr(1, 2), Fr(3, 4), Fr(1)]      # scores, zero twice as likely
NZ = [Fr(1, 8), Fr(1, 4), Fr(3, 8), Fr(1, 2), Fr(5, 8), Fr(3, 4), Fr(7, 8), Fr(1)]


def gen_auroc(cfg: dict, rng: Rng, n: int, weighted: bool, grid=ZG) -> Batch:
    t = cfg.get("num_tasks", 1)
    shape = (n,) if t == 1 else (t, n)
    x = ft(rng.grid(t * n, grid), shape=shape)
    y = it([rng.choice([0, 1]) for _ in range(t * n)], shape=shape)
    if weighted:
        return Batch((x, y, ft(rng.grid(t * n, W4), shape=shape)))
    return Batch((x, y))

# ------------------------------------------------------------------ oracles (real non-windowed code)

def nonwindowed(cls: str, cfg: dict):
    t = cfg.get("num_tasks", 1)
    if cls == "WindowedClickThroughRate":
        return M.ClickThroughRate(num_tasks=t)
    if cls == "WindowedWeightedCalibration":
        return M.WeightedCalibration(num_tasks=t)
    if cls == "WindowedBinaryNormalizedEntropy":
        return M.BinaryNormalizedEntropy(from_logits=cfg.get("from_logits", False), num_tasks=t)
    if cls == "WindowedMeanSquaredError":
        return M.MeanSquaredError(multioutput=cfg.get("multioutput", "uniform_average"))
    raise KeyError(cls)


def oracle_updates(cls: str, cfg: dict, batches: list[Batch]):
    """non-windowed class over an explicit list of updates -> flat list of floats | None (undefined / empty)."""
    if not batches:
        return None
    m = nonwindowed(cls, cfg)
    for b in batches:
        b.apply(m)
    r = m.compute()
    if r.numel() == 0:
        return None
    return r.reshape(-1).to(torch.float64).tolist()


def cols_of(b: Batch, t: int):
    """samples of an AUROC batch as (input, target, weight) tensors of shape (T, n)."""
    x, y = b.args[0].reshape(t, -1), b.args[1].reshape(t, -1)
    w = b.args[2].reshape(t, -1) if len(b.args) > 2 else torch.ones_like(x)
    return x, y, w


def oracle_auroc(cfg: dict, sample_blocks: list):
    """binary_auroc over explicit samples (list of (x,y,w) blocks of shape (T,k)) -> flat floats | None if no sample."""
    t = cfg.get("num_tasks", 1)
    if not sample_blocks:
        return None
    x = torch.cat([s[0] for s in sample_blocks], dim=1)
    y = torch.cat([s[1] for s in sample_blocks], dim=1)
    w = torch.cat([s[2] for s in sample_blocks], dim=1)
    if x.shape[1] == 0:
        return None
    if t == 1:
        r = binary_auroc(x[0], y[0], weight=w[0])
    else:
        r = binary_auroc(x, y, num_tasks=t, weight=w)
    return r.reshape(-1).to(torch.float64).tolist()


def last_samples(blocks: list, n: int):
    """last n samples of the concatenation of (T,k) blocks, as one block."""
    if not blocks:
        return []
    x = torch.cat([s[0] for s in blocks], dim=1)[:, -n:]
    y = torch.cat([s[1] for s in blocks], dim=1)[:, -n:]
    w = torch.cat([s[2] for s in blocks], dim=1)[:, -n:]
    return [(x, y, w)]


def close(real_vals, exp, tol, undefined_ok=False):
    """`undefined_ok`: an entry whose oracle value is an undefined ratio (±inf / nan: the task's weighted target sum is 0)
    is outside the comparison (ASSUMPTIONS) — the windowed class clamps the denominator, the non-windowed one divides."""
    if exp is None:
        return None
    if len(real_vals) != len(exp):
        return False
    for a, b in zip(real_vals, exp):
        if undefined_ok and not math.isfinite(b):
            continue
        if math.isnan(a) or math.isnan(b):
            if not (math.isnan(a) and math.isnan(b)):
                return False
            continue
        if math.isinf(a) or math.isinf(b):
            if a != b:
                return False
            continue
        if abs(a - b) > tol * max(1.0, abs(b)):
            return False
    return True


def vals(t: torch.Tensor):
    return t.reshape(-1).to(torch.float64).tolist()

# ------------------------------------------------------------------ bookkeeping of violations

class Found:
    """one rep.violation per signature; prefer an occurrence whose values differ numerically."""

    def __init__(self):
        self.d = {}

    def add(self, sig, what, replay, strong=True):
        if sig not in self.d or (strong and not self.d[sig][2]):
            self.d[sig] = (what, replay, strong)

    def flush(self, rep: Report):
        for sig, (what, replay, _s) in sorted(self.d.items()):
            rep.violation(sig, what, replay)


class Collected(Found):
    """every reported occurrence, in order (replay judges the recorded step of a re-run stream with it)"""

    def __init__(self):
        super().__init__()
        self.all = []

    def add(self, sig, what, replay, strong=True):
        self.all.append((sig, what, replay))
        super().add(sig, what, replay, strong)


def stream_payload(kind, cls, cfg, batches, step, pre=()):
    """replayable history of an update stream: class, configuration, the first `step` updates (tensors with dtype and shape)
    and the step whose compute() (or update()) is judged"""
    d = {"kind": kind, "class": cls, "cfg": cfg, "updates": [b.describe() for b in batches[:step]], "step": step}
    if pre:
        d["before_reset"] = [b.describe() for b in pre]      # updates that were applied and then wiped by reset()
    return d


def tol_of(cls):
    return 1e-4 if cls == "WindowedBinaryNormalizedEntropy" else 1e-6


def cfg_label(cfg):
    return ",".join(f"{k}={v}" for k, v in sorted(cfg.items()))

# ------------------------------------------------------------------ (1) update streams, four update-granular classes

def stream_prog(cls, cfg, batches, pre=()):
    p = Prog(BY_NAME[cls], cfg)
    for b in pre:                 # a history that reset() must wipe completely — cursor included
        p.u(0, b)
    if pre:
        p.r(0)
    p.o(0)
    for b in batches:
        p.u(0, b)
        p.o(0)
    return p


def check_stream(rep: Report, found: Found, cls, cfg, batches, progs, pre=()):
    N = cfg["max_num_updates"]
    life = cfg.get("enable_lifetime", True)
    p = stream_prog(cls, cfg, batches, pre)
    real = run_real(p)
    progs.append((p, real, tol_of(cls)))
    tol = tol_of(cls)
    k = 0
    skip = len(pre) + 1 if pre else 0          # the wiped history and the reset itself
    _sp = globals()["stream_payload"]

    def stream_payload(kind, c, cf, bs, step):          # payloads of this stream carry the wiped history
        return _sp(kind, c, cf, bs, step, pre)
    for op, r in list(zip(p.ops, real))[skip:]:
        if op[0] == "u":
            k += 1
            if r is not None:
                found.add(f"C13|{cls}|valid-update|raises", f"{cls}({cfg_label(cfg)}) update #{k} raised {r}", stream_payload("stream", cls, cfg, batches, k))
            continue
        if op[0] != "o":
            continue
        rep.case(nontrivial_key=(cls, cfg_label(cfg), k) if (0 < k < N or k > N) else None,
                 sample={"class": cls, "cfg": cfg, "updates": k, "observed": obs_json(r)} if k == N + 1 else None)
        rep.count(f"{cls}:{'empty' if k == 0 else 'partial' if k < N else 'exact' if k == N else 'wrapped'}")
        if k == 0:
            ok = r[0] == "ok" and all(t.numel() == 0 for t in r[1]) and len(r[1]) == (2 if life else 1)
            if not ok:
                found.add(f"C13|{cls}|no-update|not-empty-tensors", f"{cls}({cfg_label(cfg)}) compute() before any update: {obs_json(r)}", stream_payload("stream", cls, cfg, batches, 0))
            continue
        hist = stream_payload("stream", cls, cfg, batches, k)
        if r[0] != "ok":
            found.add(f"C13|{cls}|non-empty-window|compute-raises",
                      f"{cls}({cfg_label(cfg)}) after {k} updates compute() raised {r[1]}: {r[2]}", hist)
            continue
        outs = r[1]
        if len(outs) != (2 if life else 1):
            found.add(f"C13|{cls}|output-arity|wrong", f"{cls}({cfg_label(cfg)}) returned {len(outs)} tensors", hist)
            continue
        win = outs[-1]
        exp_w = oracle_updates(cls, cfg, batches[max(0, k - N):k])
        c = close(vals(win), exp_w, tol, undefined_ok=(cls == "WindowedWeightedCalibration"))
        if c is None:
            rep.count(f"{cls}:oracle-undefined-window")
        elif not c:
            found.add(f"C13|{cls}|update-stream|windowed-ne-lastN",
                      f"{cls}({cfg_label(cfg)}) after {k} updates: windowed {vals(win)} but non-windowed metric on the last {min(k, N)} updates = {exp_w}", hist)
        if life:
            exp_l = oracle_updates(cls, cfg, batches[:k])
            c = close(vals(outs[0]), exp_l, tol, undefined_ok=(cls == "WindowedWeightedCalibration"))
            if c is None:
                rep.count(f"{cls}:oracle-undefined-lifetime")
            elif not c:
                found.add(f"C13|{cls}|update-stream|lifetime-ne-all",
                          f"{cls}({cfg_label(cfg)}) after {k} updates: lifetime {vals(outs[0])} but non-windowed metric on all updates = {exp_l}", hist)



# ------------------------------------------------------------------ (1b) streams with REJECTED update() calls in between

def invalidate(cls: str, cfg: dict, b: Batch, rng: Rng) -> Batch:
    """a batch the class must reject: the second tensor is one sample longer than the first, or (normalized entropy on
    probabilities) a probability above 1."""
    args = list(b.args)
    if cls == "WindowedBinaryNormalizedEntropy" and not cfg.get("from_logits") and rng.random() < 0.5:
        x = args[0].clone()
        x.reshape(-1)[0] = 1.5
        return Batch((x, *args[1:]), dict(b.kwargs))
    if len(args) >= 2:
        y = args[1]
        args[1] = torch.cat([y, y.narrow(-1 if cls != "WindowedMeanSquaredError" else 0, 0, 1)], dim=-1 if cls != "WindowedMeanSquaredError" else 0)
        return Batch(tuple(args), dict(b.kwargs))
    x = args[0]
    return Batch((x.reshape(1, *x.shape, 1),), dict(b.kwargs))       # a 3-D (or 4-D) click tensor


def check_rejected_stream(rep: Report, found: Found, cls, cfg, items):
    """`items`: list of (batch, is_invalid).  A rejected update() is still a call of the history: the windowed value must be
    the non-windowed metric over the last N ACCEPTED updates whatever was rejected in between."""
    N, life = cfg["max_num_updates"], cfg.get("enable_lifetime", True)
    m = new_metric(BY_NAME[cls], fresh_cfg(cfg))
    ref_probe = nonwindowed(cls, cfg)
    accepted, tol = [], tol_of(cls)
    for step, (b, bad) in enumerate(items, 1):
        payload = {"kind": "rejected-stream", "class": cls, "cfg": cfg, "step": step,
                   "items": [[x.describe(), bool(f)] for x, f in items[:step]]}
        try:
            b.apply(m)
            err = None
        except Exception as e:  # noqa: BLE001
            err = e
        if bad:
            try:
                b.apply(copy.deepcopy(ref_probe))
                ref_ok = True
            except Exception:  # noqa: BLE001
                ref_ok = False
            if err is None or ref_ok:
                rep.count(f"{cls}:invalid-batch-not-rejected-by-both")      # not a rejected call after all: no claim about it
                if err is None:
                    accepted.append(b)
                if ref_ok != (err is None):
                    return
            else:
                rep.count(f"{cls}:rejected-update")
        elif err is not None:
            found.add(f"C13|{cls}|valid-update|raises", f"{cls}({cfg_label(cfg)}) update #{step} raised {err!r}", payload)
            return
        else:
            accepted.append(b)
        if not accepted:
            continue
        r = observe(m)
        k = len(accepted)
        rep.case(nontrivial_key=("rejected", cls, cfg_label(cfg), step, k) if any(f for _, f in items[:step]) else None)
        if r[0] != "ok" or len(r[1]) != (2 if life else 1):
            found.add(f"C13|{cls}|non-empty-window|compute-raises", f"{cls}({cfg_label(cfg)}) after {k} accepted updates: {obs_json(r)}", payload)
            return
        exp_w = oracle_updates(cls, cfg, accepted[max(0, k - N):])
        c = close(vals(r[1][-1]), exp_w, tol, undefined_ok=(cls == "WindowedWeightedCalibration"))
        if c is not None and not c:
            found.add(f"C13|{cls}|stream-with-rejected-updates|windowed-ne-lastN-accepted",
                      f"{cls}({cfg_label(cfg)}) after {step} update() calls ({k} accepted): windowed {vals(r[1][-1])} but the non-windowed "
                      f"metric on the last {min(k, N)} accepted updates = {exp_w}", payload)
            return
        if life:
            exp_l = oracle_updates(cls, cfg, accepted)
            c = close(vals(r[1][0]), exp_l, tol, undefined_ok=(cls == "WindowedWeightedCalibration"))
            if c is not None and not c:
                found.add(f"C13|{cls}|stream-with-rejected-updates|lifetime-ne-all-accepted",
                          f"{cls}({cfg_label(cfg)}) after {step} update() calls ({k} accepted): lifetime {vals(r[1][0])} but non-windowed = {exp_l}", payload)
                return


def rejected_items(cls, cfg, rng: Rng):
    N = cfg["max_num_updates"]
    weighted = rng.random() < 0.5
    items = []
    for i in range(3 * N + 3):
        b = gen_batch(cls, cfg, rng, rng.choice([1, 2, 3]), weighted)
        if rng.random() < 0.3:
            items.append((invalidate(cls, cfg, b, rng), True))
        items.append((b, False))
    return items

def update_configs(cls):
    out = []
    for N in NS:
        for t in (1, 2):
            for life in (True, False):
                base = {"num_tasks": t, "max_num_updates": N, "enable_lifetime": life}
                if cls == "WindowedBinaryNormalizedEntropy":
                    out.append({**base, "from_logits": (N + t + life) % 2 == 0})
                elif cls == "WindowedMeanSquaredError":
                    out.append({**base, "multioutput": "raw_values" if (N + t + life) % 2 == 0 else "uniform_average"})
                else:
                    out.append(base)
    return out

# ------------------------------------------------------------------ (2) AUROC sample streams

def classify_auroc(m, cfg, live):
    """name of the known defect that explains a mismatch at this state, or None."""
    t = cfg.get("num_tasks", 1)
    if live == 1:
        return "single-live-sample|compute-raises" if t == 1 else "num_tasks>1-single-sample|squeeze-mixes-tasks"
    N = cfg["max_num_samples"]
    if m.total_samples >= N and bool(torch.all(m.inputs[:, m.next_inserted:] == 0)):
        return "zero-scores-beyond-cursor|treated-as-unfilled"
    return None


def check_auroc_stream(rep: Report, found: Found, cfg, batches, progs):
    N, t = cfg["max_num_samples"], cfg.get("num_tasks", 1)
    spec = BY_NAME[AUROC]
    p = Prog(spec, cfg)
    m = new_metric(spec, cfg)
    real = []
    blocks = []
    total = 0
    for i, b in enumerate(batches):
        p.u(0, b)
        try:
            b.apply(m)
            real.append(None)
        except Exception as e:  # noqa: BLE001
            real.append((type(e).__name__, repr(e)[:120]))
            found.add(f"C13|{AUROC}|valid-update|raises", f"update #{i + 1} raised {e!r}", stream_payload("auroc-stream", AUROC, cfg, batches, i + 1))
            break
        blocks.append(cols_of(b, t))
        total += blocks[-1][0].shape[1]
        p.o(0)
        r = observe(m)
        real.append(r)
        live = min(total, N)
        wrapped = total > N
        rep.case(nontrivial_key=(cfg_label(cfg), i, total) if (wrapped or live < N) else None,
                 sample={"class": AUROC, "cfg": cfg, "samples": total, "observed": obs_json(r)} if i == 2 else None)
        rep.count(f"auroc:{'partial' if total < N else 'exact' if total == N else 'wrapped'}")
        rep.count(f"auroc:batch{'<' if b.args[0].shape[-1] < N else '=' if b.args[0].shape[-1] == N else '>'}N")
        exp = oracle_auroc(cfg, last_samples(blocks, N))
        hist = stream_payload("auroc-stream", AUROC, cfg, batches, i + 1)
        if r[0] == "ok":
            agree = len(r[1]) == 1 and close(vals(r[1][0]), exp, 1e-6)
            numeric = len(r[1]) == 1 and len(vals(r[1][0])) != len(exp or []) and any(abs(a - 0.5) > 1e-9 for a in vals(r[1][0]))
            got = [vals(x) for x in r[1]]
        else:
            agree, numeric, got = False, True, f"raised {r[1]}"
        if agree:
            continue
        why = classify_auroc(m, cfg, live)
        if why is not None:
            rep.count("auroc:known-defect:" + why.split("|")[0])
            found.add(f"C13|{AUROC}|{why}",
                      f"{AUROC}({cfg_label(cfg)}) with {live} live sample(s) after {total} samples: compute() {got}, binary_auroc on the last {live} samples = {exp}",
                      hist, strong=numeric or r[0] != "ok")
        else:
            found.add(f"C13|{AUROC}|sample-stream|windowed-ne-lastN",
                      f"{AUROC}({cfg_label(cfg)}) after {total} samples: compute() {got}, binary_auroc on the last {live} samples = {exp}", hist)
    progs.append((p, real, 1e-6))


def auroc_sizes(N):
    return sorted({s for s in (1, N - 1, N, N + 1, 3 * N) if s >= 1})

# ------------------------------------------------------------------ (3) merges

def merge_oracle(cls, cfg, pools, alls):
    """(windowed, lifetime) expected values over the pooled live entries / over everything."""
    if cls == AUROC:
        return oracle_auroc(cfg, pools), None
    return oracle_updates(cls, cfg, pools), (oracle_updates(cls, cfg, alls) if cfg.get("enable_lifetime", True) else None)


def live_of(cls, cfg, batches):
    """live window of an un-merged instance fed `batches`."""
    if cls == AUROC:
        t = cfg.get("num_tasks", 1)
        return last_samples([cols_of(b, t) for b in batches], cfg["max_num_samples"])
    N = cfg["max_num_updates"]
    return batches[max(0, len(batches) - N):]


def gen_for(cls, cfg, rng, weighted):
    if cls == AUROC:
        return gen_auroc(cfg, rng, rng.choice([1, 2]), weighted, grid=NZ)
    return gen_batch(cls, cfg, rng, rng.choice([1, 2, 3]), weighted)


def tdesc(t: torch.Tensor):
    return {"shape": list(t.shape), "dtype": str(t.dtype).replace("torch.", ""), "data": t.tolist()}


def tundesc(d) -> torch.Tensor:
    return torch.tensor(d["data"], dtype=getattr(torch, d["dtype"])).reshape(tuple(d["shape"]))


def merge_payload(cls, p: Prog, pools, alls, sig_rel, label):
    """replayable merge case: the program (class, configuration, ops with every batch) and what the merged instance must
    report — the pooled live entries (`pools`: update batches, resp. (T,k) sample blocks (x,y,w) for AUROC) and everything
    seen (`alls`, lifetime) — as the sweep derived them for this merge shape (`label`)"""
    if cls == AUROC:
        pj = [[tdesc(t) for t in blk] for blk in pools]
    else:
        pj = [b.describe() for b in pools]
    return {"kind": "merge", **p.describe(), "pools": pj, "alls": [b.describe() for b in alls], "sig_rel": sig_rel, "label": label}


def compare_merge(rep, found, cls, cfg, p, m, pools, alls, sig_rel, label):
    r = observe(m)
    exp_w, exp_l = merge_oracle(cls, cfg, pools, alls)
    tol = tol_of(cls)
    if exp_w is None:
        rep.count(f"merge:{label}:oracle-undefined")
        return
    payload = merge_payload(cls, p, pools, alls, sig_rel, label)
    if r[0] != "ok":
        if cls == AUROC and sum(s[0].shape[1] for s in pools) == 1:
            found.add(f"C13|{AUROC}|single-live-sample|compute-raises",
                      f"{cls}({cfg_label(cfg)}) {label} leaving one live sample: compute() raised {r[1]}, expected {exp_w}", payload)
            return
        found.add(f"C13|{cls}|{sig_rel}", f"{cls}({cfg_label(cfg)}) {label}: compute() raised {r[1]}, expected {exp_w}", payload)
        return
    win = vals(r[1][-1])
    und = cls == "WindowedWeightedCalibration"      # undefined ratios (zero target weight) are outside the comparison
    if not close(win, exp_w, tol, undefined_ok=und):
        found.add(f"C13|{cls}|{sig_rel}",
                  f"{cls}({cfg_label(cfg)}) {label}: windowed {win}, non-windowed metric over the pooled live entries = {exp_w}", payload)
    elif exp_l is not None and len(r[1]) == 2 and close(vals(r[1][0]), exp_l, tol, undefined_ok=und) is False:
        found.add(f"C13|{cls}|{label}|lifetime-ne-all",
                  f"{cls}({cfg_label(cfg)}) {label}: lifetime {vals(r[1][0])}, expected {exp_l}", payload)


def merge_cases(rep: Report, found: Found, cls, rng: Rng, progs, rounds):
    capk = "max_num_samples" if cls == AUROC else "max_num_updates"
    spec = BY_NAME[cls]
    for rd in range(rounds):
        N = rng.choice([2, 3])
        cfg = {"num_tasks": 1 if cls == AUROC else rng.choice([1, 2]), capk: N}
        if cls != AUROC:
            cfg["enable_lifetime"] = rng.choice([True, False])
        weighted = rng.random() < 0.4
        # ---- flat merge of un-merged sources into a fresh / updated / wrapped target
        for kt in (0, 1, N, N + 1, 2 * N + 1):        # fresh / partial / exactly full / wrapped with the cursor inside the buffer (twice)
            for ks in ((1,), (N, 2), (N + 1, 0, 1)):
                p = Prog(spec, cfg)
                data = {0: [gen_for(cls, cfg, rng, weighted) for _ in range(kt)]}
                for j, k in enumerate(ks, 1):
                    data[j] = [gen_for(cls, cfg, rng, weighted) for _ in range(k)]
                for i, bs in data.items():
                    for b in bs:
                        p.u(i, b)
                p.m(0, list(range(1, len(ks) + 1)))
                p.o(0)
                real, inst = run_real(p, keep=True)
                progs.append((p, real, tol_of(cls)))
                pools, alls = [], []
                for i in sorted(data):
                    pools += live_of(cls, cfg, data[i])
                    alls += data[i]
                rep.case(nontrivial_key=(cls, "flat", rd, kt, ks))
                rep.count("merge:flat")
                compare_merge(rep, found, cls, cfg, p, inst[0], pools, alls, "flat-merge|pool-ne-union", "flat-merge")
        # ---- sequential merges: t.merge([a]); t.merge([b])
        for kt, ka, kb in ((2, 2, 1), (0, N, 1), (N, N, N), (1, 1, 1)):
            p = Prog(spec, cfg)
            data = {0: [gen_for(cls, cfg, rng, weighted) for _ in range(kt)],
                    1: [gen_for(cls, cfg, rng, weighted) for _ in range(ka)],
                    2: [gen_for(cls, cfg, rng, weighted) for _ in range(kb)]}
            for i, bs in data.items():
                for b in bs:
                    p.u(i, b)
            p.m(0, [1]); p.m(0, [2]); p.o(0)
            real, inst = run_real(p, keep=True)
            progs.append((p, real, tol_of(cls)))
            pools, alls = [], []
            for i in sorted(data):
                pools += live_of(cls, cfg, data[i])
                alls += data[i]
            rep.case(nontrivial_key=(cls, "seq", rd, kt, ka, kb))
            rep.count("merge:sequential")
            compare_merge(rep, found, cls, cfg, p, inst[0], pools, alls, "sequential-merge|drops-window", "sequential-merge")
        # ---- update after a merge: the new update must join the pool (oldest entry leaves only when the merged buffer is full)
        for kt, ka in ((2, 2), (0, N), (1, 1)):
            p = Prog(spec, cfg)
            data = {0: [gen_for(cls, cfg, rng, weighted) for _ in range(kt)],
                    1: [gen_for(cls, cfg, rng, weighted) for _ in range(ka)]}
            for i, bs in data.items():
                for b in bs:
                    p.u(i, b)
            p.m(0, [1])
            nb = gen_for(cls, cfg, rng, weighted)
            p.u(0, nb); p.o(0)
            real, inst = run_real(p, keep=True)
            progs.append((p, real, tol_of(cls)))
            # the merged buffer was allocated with K = sum of the window sizes: the newest K entries of pool ++ [new]
            pools = live_of(cls, cfg, data[0]) + live_of(cls, cfg, data[1])
            if cls == AUROC:
                pools = last_samples(pools + [cols_of(nb, 1)], 2 * N)
            else:
                pools = (pools + [nb])[-2 * N:]
            alls = data[0] + data[1] + [nb]
            rep.case(nontrivial_key=(cls, "upd-after", rd, kt, ka))
            rep.count("merge:update-after")
            compare_merge(rep, found, cls, cfg, p, inst[0], pools, alls, "update-after-merge|overwrites-live-slot", "update-after-merge")

# ------------------------------------------------------------------ fixed witnesses (the Lean `decide`d witnesses, replayed on the real code)

def witnesses(rep: Report, found: Found, progs):
    # AUROC: N=4, scores [.9,0,0,0] then [.7]: live window [0,0,0,.7] is cut to one sample
    cfg = {"num_tasks": 1, "max_num_samples": 4}
    bs = [Batch((ft([0.75, 0, 0, 0]), it([1, 0, 1, 0]))), Batch((ft([0.5]), it([1])))]
    check_auroc_stream(rep, found, cfg, bs, progs)
    # AUROC: a full window of zero scores with the cursor at 0
    check_auroc_stream(rep, found, {"num_tasks": 1, "max_num_samples": 2}, [Batch((ft([0, 0]), it([1, 0])))], progs)
    # AUROC: one live sample, one task / two tasks
    check_auroc_stream(rep, found, {"num_tasks": 1, "max_num_samples": 3}, [Batch((ft([0.5]), it([1])))], progs)
    check_auroc_stream(rep, found, {"num_tasks": 2, "max_num_samples": 3},
                       [Batch((ft([0.5, 0.25], shape=(2, 1)), it([1, 0], shape=(2, 1))))], progs)

    # AUROC: merge of a wrapped target copies the buffer in slot order and puts the cursor at 0: the next
    # sample evicts the target's NEWEST sample (slot 0) instead of an oldest one
    cfg = {"num_tasks": 1, "max_num_samples": 3}
    spec = BY_NAME[AUROC]
    p = Prog(spec, cfg)
    t1 = Batch((ft([0.5, 0.125]), it([1, 0])))
    t2 = Batch((ft([0.75, 0.25]), it([1, 1])))
    a1 = Batch((ft([0.625, 0.375, 0.875]), it([0, 1, 0])))
    nb = Batch((ft([0.5]), it([0])))
    p.u(0, t1); p.u(0, t2); p.u(1, a1); p.m(0, [1]); p.u(0, nb); p.o(0)
    real, inst = run_real(p, keep=True)
    progs.append((p, real, 1e-6))
    pools = last_samples(live_of(AUROC, cfg, [t1, t2]) + live_of(AUROC, cfg, [a1]) + [cols_of(nb, 1)], 6)
    rep.case(nontrivial_key=("auroc", "witness-update-after-merge"))
    compare_merge(rep, found, AUROC, cfg, p, inst[0], pools, [], "update-after-merge|overwrites-live-slot", "update-after-merge")

# ------------------------------------------------------------------ run

def run(rep: Report):
    rng = Rng(rep.seed * 7919 + 13)
    found = Found()
    progs: list = []
    thorough = rep.tier == "thorough"
    reps = 6 if thorough else 1
    # (0) the extracted ring-buffer plumbing (TE/Gen/WinPlumbing.lean) against instrumented real instances
    winplumb_tr.crosscheck(rep, _WIN_ROWS or winplumb_tr.facts(), Rng(rep.seed * 31 + 5))
    # (1) update-granular streams
    for cls in CLASSES:
        for cfg in update_configs(cls):
            N = cfg["max_num_updates"]
            for _ in range(reps):
                weighted = rng.random() < 0.5
                nb = 4 * N + 3
                batches = [gen_batch(cls, cfg, rng, rng.choice([1, 2, 3]), weighted, zero_w=weighted and rng.random() < 0.2)
                           for _ in range(nb)]
                rep.count(f"{cls}:streams-with-zero-weight-update", int(weighted))
                pre = []
                if rng.random() < 0.35:
                    # a reset in the history: k updates (k not a multiple of N when possible), reset(), then the stream
                    kpre = rng.choice([x for x in range(1, 2 * N + 2) if x % N] or [1])
                    pre = [gen_batch(cls, cfg, rng, rng.choice([1, 2, 3]), weighted) for _ in range(kpre)]
                    rep.count(f"{cls}:streams-after-reset")
                check_stream(rep, found, cls, cfg, batches, progs, pre)
                check_rejected_stream(rep, found, cls, cfg, rejected_items(cls, cfg, rng))
    # (2) AUROC sample streams
    for N in NS:
        for t in (1, 2):
            cfg = {"num_tasks": t, "max_num_samples": N}
            sizes = auroc_sizes(N)
            for rr in range(reps * 3):
                weighted = rr % 2 == 1
                nb = 4 * N + 3 if rr % 3 == 0 else rng.randint(2, 2 * N + 3)
                # first stream of each config walks through every batch size in order, the others draw at random
                batches = [gen_auroc(cfg, rng, sizes[i % len(sizes)] if rr == 0 else rng.choice(sizes), weighted,
                                     grid=ZG if rr % 3 != 2 else [Fr(0), Fr(0), Fr(0), Fr(1, 2), Fr(1)])
                           for i in range(nb)]
                check_auroc_stream(rep, found, cfg, batches, progs)
    witnesses(rep, found, progs)
    # (3) merges
    for cls in CLASSES + [AUROC]:
        merge_cases(rep, found, cls, rng, progs, rounds=3 if thorough else 1)
    # (a) model correspondence for every program run above
    mres, lines = model_results([p for p, _, _ in progs])
    for (p, real, tol), mr, line in zip(progs, mres, lines):
        rep.traces += 1
        bad = compare_with_model(p, real, mr, tol)
        if bad is not None:
            k, msg = bad
            rep.broke("correspondence:window-model", f"{p.spec.name} op #{k}: {msg}", {"line": line[:4000], "op": k})
    # (c) the Lean queue specification (TE/Spec/Window.lean, `spec.<Class>` packs) against the real
    #     update-granular classes on the pure update streams (no merges: the spec has no cursor to merge)
    sp = [(p, real, tol, line) for (p, real, tol), line in zip(progs, lines)
          if p.spec.name in CLASSES and all(op[0] in ("u", "o") for op in p.ops)]
    souts = run_driver([line.replace("prog ", "prog spec.", 1) for _, _, _, line in sp])
    for (p, real, tol, line), so in zip(sp, souts):
        bad = compare_with_model(p, real, [x.strip() for x in so.split(" | ")], tol)
        if bad is not None:
            k, msg = bad
            rep.broke("correspondence:window-spec", f"spec.{p.spec.name} op #{k}: {msg}", {"line": line[:4000], "op": k})
    rep.streams["programs"] = len(progs)
    rep.streams["spec_programs"] = len(sp)
    found.flush(rep)


def search(rep: Report):
    """the run itself compares the real code with an oracle independent of the model at every step;
    when only the model / proof side broke, the same comparison is widened to the thorough bounds
    with another seed, looking for a concrete failing input of the property on the real code."""
    wide = Report(rep.prop, "thorough", rep.seed + 1)
    run(wide)
    rep.violations += wide.violations
    rep.evaluations += wide.evaluations

# ------------------------------------------------------------------ replay

def _nothing(reason):
    raise ValueError(f"nothing to replay: {reason}")


def replay(payload) -> bool:
    """True iff the property holds on the replayed history, decided by the very functions of the sweep:
    `stream` / `auroc-stream` -> the recorded updates are fed again through `check_stream` / `check_auroc_stream`; the verdict is
                                 what they report AT THE RECORDED STEP (the compute() after the last recorded update; step 0 = before any);
    `merge`                   -> the recorded program is run again and `compare_merge` judges it against the recorded pool / lifetime lists."""
    if not isinstance(payload, dict):
        _nothing("payload is not a dict")
    if "replay" in payload or "property" in payload:
        if payload.get("kind", "failing-input") != "failing-input":
            _nothing(f"payload kind {payload.get('kind')!r} carries no concrete input")
        rp = payload.get("replay")
    else:
        rp = payload
    if not isinstance(rp, dict) or not rp:
        _nothing("the payload carries no replay dict")
    kind, cls, cfg = rp.get("kind"), rp.get("class"), rp.get("cfg")
    if cls not in CLASSES + [AUROC] or not isinstance(cfg, dict):
        _nothing(f"no windowed class / configuration in the payload (class {cls!r})")
    rep, found = Report("C13", "quick", 0), Collected()
    if kind in ("stream", "auroc-stream"):
        if not isinstance(rp.get("updates"), list):
            _nothing("stream payload without its list of updates")
        if (kind == "auroc-stream") != (cls == AUROC):
            _nothing(f"payload kind {kind!r} does not fit class {cls}")
        bs = [Batch.from_describe(d) for d in rp["updates"]]
        step = rp.get("step", len(bs))
        if not isinstance(step, int) or not (0 <= step <= len(bs)) or (kind == "auroc-stream" and step == 0):
            _nothing(f"recorded step {step!r} is outside the recorded stream of {len(bs)} updates")
        if cls == AUROC:
            check_auroc_stream(rep, found, cfg, bs[:step], [])
        else:
            check_stream(rep, found, cls, cfg, bs[:step], [], [Batch.from_describe(d) for d in rp.get("before_reset") or []])
        at_step = [(sig, what) for sig, what, pl in found.all if pl.get("step") == step]
        for sig, what in at_step:
            print(f"replay: {sig}: {what}"[:600])
        return not at_step
    if kind == "rejected-stream":
        if not isinstance(rp.get("items"), list) or cls == AUROC:
            _nothing("rejected-stream payload without its items")
        check_rejected_stream(rep, found, cls, cfg, [(Batch.from_describe(d), bool(f)) for d, f in rp["items"]])
        for sig, what, _pl in found.all:
            print(f"replay: {sig}: {what}"[:600])
        return not found.all
    if kind == "merge":
        if not all(k in rp for k in ("ops", "pools", "alls", "sig_rel", "label")):
            _nothing("merge payload without the program and the expected pool / lifetime lists (recorded before they were part of the payload)")
        p = Prog.from_describe({"class": cls, "cfg": cfg, "ops": rp["ops"]})
        if not p.ops or p.ops[-1] != ("o", 0):
            _nothing("the recorded merge program does not end with compute() of instance 0")
        if cls == AUROC:
            pools = [tuple(tundesc(t) for t in blk) for blk in rp["pools"]]
        else:
            pools = [Batch.from_describe(d) for d in rp["pools"]]
        alls = [Batch.from_describe(d) for d in rp["alls"]]
        _real, inst = run_real(p, keep=True)
        compare_merge(rep, found, cls, cfg, p, inst[0], pools, alls, rp["sig_rel"], rp["label"])
        for sig, what, _pl in found.all:
            print(f"replay: {sig}: {what}"[:600])
        return not found.all
    _nothing(f"replay kind {kind!r} is not one of stream / auroc-stream / rejected-stream / merge")
