"""C05 — AUROC, AUPRC, precision-recall curves, recall@fixed-precision = their definitions, incl. ties.
Correspondence: real functional (and class) vs the Lean model through the driver, exhaustive over small
grids (every tie pattern, constant scores, all-positive / all-negative, weights) + tie-heavy random up to
n = 200 with at most 4 distinct scores.  Independent oracle: the *definitions* with Fractions (double sum
over positive/negative pairs; counting the samples scored at or above each distinct score)."""
from __future__ import annotations
import itertools, math, time
from fractions import Fraction as Fr
import torch
from ..common import (G5, Rng, Report, call_real, dec_out, enc_args, ft, it, outcomes_agree, run_driver, budget)
import torcheval.metrics.functional as F

LEVEL = "proof"
RULE = ("functional call on grid-valued inputs: scores in {0,1/4,1/2,3/4,1} (exhaustive blocks enumerate every score/label "
        "vector of the stated size, hence every tie pattern, constant scores, all-positive and all-negative labels), weights in "
        "{1,2}, num_tasks <= 3, C/L <= 3, every `average`, min_precision in {0,1/4,1/2,1}; random blocks: n <= 200 with <= 4 "
        "distinct scores; non-trivial = distinct (function, params, input) containing a tie between two samples or both classes")
MODELLED = ["IEEE rounding of the float32 divisions / the final float64 division of binary_auroc (compared with tolerance)",
            "torch.sort tie order (proved irrelevant: TE.C05.auroc_any_sort / prCurve_any_sort; the model uses a stable merge sort)",
            "`sort` + `gather` are modelled as sorting the zipped samples"]
ASSUMPTIONS = ["binary labels are 0/1 (binary_auroc multiplies by the target; the curve functionals test `target == 1`)",
               "scores are finite (no NaN/inf inputs)",
               "min_precision is a Python float (an int is rejected by the real code before any computation)"]

HALF = Fr(1, 2)
AVGS = ["macro", "none", None]
MINPS = [0.0, 0.25, 0.5, 1.0]
L3 = [Fr(0), Fr(1, 2), Fr(1)]

# ------------------------------------------------------------------ oracle: the definitions, with Fractions

def o_auroc(xs, ts, ws):
    P = sum(w for t, w in zip(ts, ws) if t == 1)
    N = sum(w for t, w in zip(ts, ws) if t == 0)
    if P * N == 0:
        return Fr(1, 2)
    num = Fr(0)
    for si, ti, wi in zip(xs, ts, ws):
        if ti != 1:
            continue
        for sj, tj, wj in zip(xs, ts, ws):
            if tj != 0:
                continue
            num += wi * wj * (1 if si > sj else HALF if si == sj else 0)
    return num / (P * N)


def o_curve(xs, pos):
    T = sorted(set(xs))
    P = sum(1 for p in pos if p)
    prec, rec = [], []
    for t in T:
        tp = sum(1 for x, p in zip(xs, pos) if p and x >= t)
        fp = sum(1 for x, p in zip(xs, pos) if (not p) and x >= t)
        prec.append(Fr(tp, tp + fp))
        rec.append(Fr(tp, P) if P else Fr(1))
    return prec + [Fr(1)], rec + [Fr(0)], T


def o_auprc(prec, rec):
    return sum(((rec[k] - rec[k + 1]) * prec[k] for k in range(len(rec) - 1)), Fr(0))


def o_rp(prec, rec, T, bound):
    cand = [r for p, r in zip(prec, rec) if p >= bound]
    m = max(cand)
    thr = max(t for t, r in zip(T + [Fr(-1)], rec) if r == m)
    return m, abs(thr)


def _avg(vals, average):
    if average == "macro":
        return [sum(vals) / len(vals)] if vals else [math.nan]
    return vals


def _rows(t):
    """tensor -> list of rows of Fractions (1-D: one row)."""
    if t.ndim == 1:
        return [[Fr(v) for v in t.tolist()]]
    return [[Fr(v) for v in r] for r in t.tolist()]


def _cols(t):
    rows = [[Fr(v) for v in r] for r in t.tolist()]
    return [list(c) for c in zip(*rows)] if rows else [[] for _ in range(t.shape[1])]


def oracle(fn: str, kw: dict):
    """flat list of textbook values in the order of the real function's outputs; None if not covered."""
    inp, tgt = kw["input"], kw["target"]
    if inp.numel() == 0 or inp.shape[0] != tgt.shape[0] or inp.ndim > 2:
        return None
    try:
        if fn == "binary_auroc":
            if inp.shape != tgt.shape:
                return None
            w = kw.get("weight")
            wr = _rows(w) if w is not None else [[Fr(1)] * len(r) for r in _rows(inp)]
            return [o_auroc(x, t, ww) for x, t, ww in zip(_rows(inp), _rows(tgt), wr)]
        if fn == "multiclass_auroc":
            labs = tgt.tolist()
            vals = [o_auroc(col, [1 if l == c else 0 for l in labs], [Fr(1)] * len(labs)) for c, col in enumerate(_cols(inp))]
            return _avg(vals, kw.get("average", "macro"))
        if fn in ("binary_auprc", "binary_precision_recall_curve", "binary_recall_at_fixed_precision"):
            if inp.shape != tgt.shape:
                return None
            curves = [o_curve(x, [v == 1 for v in t]) for x, t in zip(_rows(inp), _rows(tgt))]
        elif fn.startswith("multiclass"):
            labs = tgt.tolist()
            curves = [o_curve(col, [l == c for l in labs]) for c, col in enumerate(_cols(inp))]
        elif fn.startswith("multilabel"):
            if inp.shape != tgt.shape:
                return None
            curves = [o_curve(col, [v == 1 for v in tc]) for col, tc in zip(_cols(inp), _cols(tgt))]
        else:
            return None
        if fn.endswith("precision_recall_curve"):
            return [v for c in curves for v in c[0]] + [v for c in curves for v in c[1]] + [v for c in curves for v in c[2]]
        if fn.endswith("auprc"):
            vals = [o_auprc(c[0], c[1]) for c in curves]
            return _avg(vals, kw.get("average", "macro")) if not fn.startswith("binary") else vals
        if fn.endswith("recall_at_fixed_precision"):
            rs = [o_rp(c[0], c[1], c[2], Fr(kw["min_precision"])) for c in curves]
            return [r[0] for r in rs] + [r[1] for r in rs]
    except Exception:  # noqa: BLE001  (malformed case: the oracle does not decide)
        return None
    return None


def oracle_agrees(real, exp):
    if exp is None:
        return None
    if real[0] != "ok":
        return False
    vals = []
    for t in real[1]:
        vals += t.reshape(-1).to(torch.float64).tolist()
    if len(vals) != len(exp):
        return False
    for a, b in zip(vals, exp):
        b = float(b)
        if math.isnan(b) != math.isnan(a):
            return False
        if not math.isnan(b) and abs(a - b) > 2e-5 * max(1, abs(b)):
            return False
    return True

# ------------------------------------------------------------------ case generation

BIN_FNS = ["binary_auroc", "binary_auprc", "binary_precision_recall_curve", "binary_recall_at_fixed_precision"]


def binary_exhaustive(rng: Rng, tier):
    """every (score, label) vector of size n; unweighted functions on all of them; weighted AUROC on every weight
    vector for small n and on a deterministic slice for the largest n."""
    nmax = 5 if tier == "thorough" else 4
    wfull = 4 if tier == "thorough" else 3
    k = 0
    for n in range(1, nmax + 1):
        for xs in itertools.product(G5, repeat=n):
            for ys in itertools.product([0, 1], repeat=n):
                x, y = ft(xs), it(ys)
                k += 1
                yield "binary_auroc", {"input": x, "target": y}, ("exh", n)
                yield "binary_auprc", {"input": x, "target": y}, ("exh", n)
                yield "binary_precision_recall_curve", {"input": x, "target": y}, ("exh", n)
                yield "binary_recall_at_fixed_precision", {"input": x, "target": y, "min_precision": MINPS[k % 4]}, ("exh", n)
                if n <= wfull:
                    for ws in itertools.product([1, 2], repeat=n):
                        if any(w == 2 for w in ws):
                            yield "binary_auroc", {"input": x, "target": y, "weight": ft(ws)}, ("exh-w", n)
                elif k % (8 if tier == "thorough" else 6) == 0:
                    ws = [rng.choice([1, 2]) for _ in range(n)]
                    yield "binary_auroc", {"input": x, "target": y, "weight": ft(ws)}, ("slice-w", n)
    # every min_precision on every (score,label) vector up to n = 3
    for n in range(1, 4):
        for xs in itertools.product(G5, repeat=n):
            for ys in itertools.product([0, 1], repeat=n):
                for mp in MINPS:
                    yield "binary_recall_at_fixed_precision", {"input": ft(xs), "target": it(ys), "min_precision": mp}, ("exh-mp", n)


def tie_heavy(rng: Rng, n):
    vals = rng.sample(G5, rng.randint(1, 4))
    return [rng.choice(vals) for _ in range(n)]


def labels(rng: Rng, n):
    r = rng.random()
    if r < 0.1:
        return [1] * n
    if r < 0.2:
        return [0] * n
    return [rng.choice([0, 1]) for _ in range(n)]


def binary_random(rng: Rng, tier):
    reps = 1500 if tier == "thorough" else 260
    for _ in range(reps):
        n = rng.choice([1, 2, 3, 6, 10, 33, 100, 200])
        tasks = rng.choice([1, 1, 2, 3])
        fn = rng.choice(BIN_FNS)
        if fn in ("binary_precision_recall_curve", "binary_recall_at_fixed_precision"):
            tasks = 1
        xs = [v for _ in range(tasks) for v in tie_heavy(rng, n)]
        ys = [v for _ in range(tasks) for v in labels(rng, n)]
        shape = (n,) if tasks == 1 else (tasks, n)
        kw = {"input": ft(xs, shape=shape), "target": it(ys, shape=shape)}
        if fn in ("binary_auroc", "binary_auprc") and (tasks > 1 or rng.random() < 0.3):
            kw["num_tasks"] = tasks
            if tasks == 1 and fn == "binary_auprc" and rng.random() < 0.5:
                kw["input"], kw["target"] = kw["input"].reshape(1, n), kw["target"].reshape(1, n)
        if fn == "binary_auroc" and rng.random() < 0.6:
            kw["weight"] = ft([rng.choice([1, 2]) for _ in range(tasks * n)], shape=shape)
        if fn == "binary_recall_at_fixed_precision":
            kw["min_precision"] = rng.choice(MINPS)
        yield fn, kw, ("rnd", n)


def multi_cases(rng: Rng, tier):
    mc = ["multiclass_auroc", "multiclass_auprc", "multiclass_precision_recall_curve"]
    ml = ["multilabel_auprc", "multilabel_precision_recall_curve", "multilabel_recall_at_fixed_precision"]
    k = 0
    # exhaustive: every score matrix over {0,1/2,1} and every label vector
    sizes = [(1, 2), (2, 2), (1, 3), (2, 3)] + ([(3, 2)] if tier == "thorough" else [])
    for n, C in sizes:
        for xs in itertools.product(L3, repeat=n * C):
            x = ft(xs, shape=(n, C))
            for ls in itertools.product(range(C), repeat=n):
                k += 1
                fn = mc[k % 3]
                kw = {"input": x, "target": it(ls), "num_classes": C}
                if fn != "multiclass_precision_recall_curve":
                    kw["average"] = AVGS[(k // 3) % 3]
                yield fn, kw, ("exh-mc", n, C)
            if C == 2 or tier == "thorough" or k % 5 == 0:
                for ts in itertools.product([0, 1], repeat=n * C):
                    k += 1
                    if n * C >= 6 and k % 4:
                        continue
                    fn = ml[k % 3]
                    kw = {"input": x, "target": it(ts, shape=(n, C)), "num_labels": C}
                    if fn == "multilabel_auprc":
                        kw["average"] = AVGS[(k // 3) % 3]
                    if fn == "multilabel_recall_at_fixed_precision":
                        kw["min_precision"] = MINPS[(k // 3) % 4]
                    yield fn, kw, ("exh-ml", n, C)
    reps = 1500 if tier == "thorough" else 300
    for _ in range(reps):
        n = rng.choice([1, 2, 3, 5, 12, 40, 200])
        C = rng.choice([2, 3])
        cols = [tie_heavy(rng, n) for _ in range(C)]
        xs = [cols[c][i] for i in range(n) for c in range(C)]
        if rng.random() < 0.5:
            fn = rng.choice(mc)
            present = rng.sample(range(C), rng.randint(1, C))
            kw = {"input": ft(xs, shape=(n, C)), "target": it([rng.choice(present) for _ in range(n)]), "num_classes": C}
            if fn != "multiclass_precision_recall_curve":
                kw["average"] = rng.choice(AVGS)
            elif rng.random() < 0.3:
                del kw["num_classes"]
        else:
            fn = rng.choice(ml)
            tcols = [labels(rng, n) for _ in range(C)]
            kw = {"input": ft(xs, shape=(n, C)), "target": it([tcols[c][i] for i in range(n) for c in range(C)], shape=(n, C)),
                  "num_labels": C}
            if fn == "multilabel_auprc":
                kw["average"] = rng.choice(AVGS)
            if fn == "multilabel_recall_at_fixed_precision":
                kw["min_precision"] = rng.choice(MINPS)
        yield fn, kw, ("rnd-multi", n)


def rejected_cases(rng: Rng, tier):
    """inputs the real code rejects (shape / parameter checks, empty tensors): the model must reject them too."""
    x4, y4 = ft([Fr(1, 2), Fr(1, 2), Fr(1, 4), Fr(3, 4)]), it([1, 0, 1, 0])
    X, Y = ft(rng.grid(6), shape=(2, 3)), it([0, 2])
    YL = it([1, 0, 0, 0, 1, 1], shape=(2, 3))
    e, ei = ft([]), it([])
    yield "binary_auroc", {"input": x4, "target": y4[:3]}, ("rej",)
    yield "binary_auroc", {"input": x4, "target": y4, "weight": ft([1, 2])}, ("rej",)
    yield "binary_auroc", {"input": x4, "target": y4, "num_tasks": 2}, ("rej",)
    yield "binary_auroc", {"input": x4.reshape(2, 2), "target": y4.reshape(2, 2)}, ("rej",)
    yield "binary_auroc", {"input": x4.reshape(2, 2), "target": y4.reshape(2, 2), "num_tasks": 3}, ("rej",)
    yield "binary_auroc", {"input": e, "target": ei}, ("rej",)
    yield "binary_auprc", {"input": x4, "target": y4[:3]}, ("rej",)
    yield "binary_auprc", {"input": x4.reshape(2, 2), "target": y4.reshape(2, 2)}, ("rej",)
    yield "binary_auprc", {"input": x4.reshape(2, 2), "target": y4.reshape(2, 2), "num_tasks": 3}, ("rej",)
    yield "binary_auprc", {"input": x4[:2], "target": y4[:2], "num_tasks": 2}, ("rej",)
    yield "binary_auprc", {"input": e, "target": ei}, ("rej",)
    yield "binary_precision_recall_curve", {"input": x4.reshape(2, 2), "target": y4.reshape(2, 2)}, ("rej",)
    yield "binary_precision_recall_curve", {"input": x4, "target": y4[:2]}, ("rej",)
    yield "binary_precision_recall_curve", {"input": e, "target": ei}, ("rej",)
    yield "binary_recall_at_fixed_precision", {"input": x4, "target": y4, "min_precision": 1.5}, ("rej",)
    yield "binary_recall_at_fixed_precision", {"input": x4, "target": y4, "min_precision": -0.25}, ("rej",)
    yield "binary_recall_at_fixed_precision", {"input": x4, "target": y4[:2], "min_precision": 0.5}, ("rej",)
    yield "binary_recall_at_fixed_precision", {"input": e, "target": ei, "min_precision": 0.5}, ("rej",)
    for fn in ("multiclass_auroc", "multiclass_auprc"):
        yield fn, {"input": X, "target": Y, "num_classes": 3, "average": "micro"}, ("rej",)
        yield fn, {"input": X, "target": Y, "num_classes": 2}, ("rej",)
        yield fn, {"input": X[:, :1], "target": Y, "num_classes": 1}, ("rej",)
        yield fn, {"input": X, "target": it([0, 1, 2]), "num_classes": 3}, ("rej",)
        yield fn, {"input": X, "target": YL, "num_classes": 3}, ("rej",)
        yield fn, {"input": ft([], shape=(0, 3)), "target": ei, "num_classes": 3}, ("rej",)
    yield "multiclass_precision_recall_curve", {"input": X, "target": Y, "num_classes": 2}, ("rej",)
    yield "multiclass_precision_recall_curve", {"input": X, "target": it([0, 1, 2])}, ("rej",)
    yield "multiclass_precision_recall_curve", {"input": ft([], shape=(0, 3)), "target": ei, "num_classes": 3}, ("rej",)
    for fn in ("multilabel_auprc", "multilabel_precision_recall_curve"):
        yield fn, {"input": X, "target": YL[:1], "num_labels": 3}, ("rej",)
        yield fn, {"input": X, "target": YL, "num_labels": 2}, ("rej",)
        yield fn, {"input": X[0], "target": YL[0], "num_labels": 3}, ("rej",)
        yield fn, {"input": ft([], shape=(0, 3)), "target": it([], shape=(0, 3)), "num_labels": 3}, ("rej",)
    yield "multilabel_auprc", {"input": X, "target": YL, "num_labels": 3, "average": "weighted"}, ("rej",)
    yield "multilabel_auprc", {"input": X[:, :1], "target": YL[:, :1], "num_labels": 1}, ("rej",)
    yield "multilabel_recall_at_fixed_precision", {"input": X, "target": YL, "num_labels": 3, "min_precision": 2.0}, ("rej",)
    yield "multilabel_recall_at_fixed_precision", {"input": X, "target": YL, "num_labels": 2, "min_precision": 0.5}, ("rej",)
    # labels outside [0, C) are simply never positive
    yield "multiclass_auroc", {"input": X, "target": it([0, 5]), "num_classes": 3, "average": None}, ("odd-label",)
    yield "multiclass_auprc", {"input": X, "target": it([-1, 1]), "num_classes": 3, "average": None}, ("odd-label",)
    yield "multiclass_precision_recall_curve", {"input": X, "target": it([7, 1]), "num_classes": 3}, ("odd-label",)


def _bound_pairs():
    """(k, m) such that the precision k/m can be asked for as the python float k/m WITHOUT an ill-defined outcome: the double
    nearest to k/m is not above k/m (so, in exact arithmetic on the numbers actually passed, the point with precision k/m reaches
    the bound), and the float32 quotient the implementation forms equals the float32 rounding of the bound (so a correct
    single-precision implementation agrees).  Non-dyadic bounds only: the exact decimals 1/4, 1/2 … are in MINPS already."""
    out = []
    for m in (3, 5, 6, 7, 9, 10, 11, 12, 20):
        for k in range(1, m):
            b = k / m
            if Fr(b) == Fr(k, m):
                continue                      # dyadic
            if Fr(b) > Fr(k, m):
                continue                      # the double lies above k/m: k/m does not reach it
            if float(torch.tensor(float(k)) / torch.tensor(float(m))) != float(torch.tensor(b, dtype=torch.float32)):
                continue
            out.append((k, m))
    return out


def bound_on_point(rng: Rng, tier):
    """recall@precision with the bound EXACTLY on a curve point whose precision is not a dyadic rational (7 of the 10 best-scored
    samples positive, min_precision=0.7): the point qualifies, and it is the one that decides the answer (every later point has a
    lower precision, every earlier qualifying point a lower recall)."""
    pairs = _bound_pairs()
    reps = len(pairs) if tier == "thorough" else min(len(pairs), 14)
    for (k, m) in (pairs if tier == "thorough" else rng.sample(pairs, reps)):
        head = [1] * k + [0] * (m - k)
        # the m-th best sample must be a positive (else the point at m shares its recall with the point at m-1, whose precision is higher)
        body = head[:-1]
        rng.shuffle(body)
        top = body[: m - 1]
        top = [v for v in top]
        # make sure exactly k-1 positives precede the closing positive
        top = ([1] * (k - 1) + [0] * (m - k))
        rng.shuffle(top)
        top.append(1)
        tail_neg = rng.randint(m, 2 * m)            # enough negatives that no later point climbs back to k/m
        extra_pos = rng.randint(1, 3)
        ys = top + [0] * tail_neg + [1] * extra_pos
        n = len(ys)
        xs = [Fr(n - i, 256) for i in range(n)]    # distinct, exactly representable, descending
        order = list(range(n))
        rng.shuffle(order)
        x = ft([xs[i] for i in order]); y = it([ys[i] for i in order])
        yield "binary_recall_at_fixed_precision", {"input": x, "target": y, "min_precision": k / m}, ("bound-on-point", n)
        # the same column as label 1 of a two-label problem (label 0: a dyadic control)
        x2 = ft([v for i in order for v in (Fr(1, 2), xs[i])], shape=(n, 2))
        y2 = it([v for i in order for v in (ys[i], ys[i])], shape=(n, 2))
        yield "multilabel_recall_at_fixed_precision", {"input": x2, "target": y2, "num_labels": 2, "min_precision": k / m}, ("bound-on-point-ml", n)


def all_cases(rng, tier):
    yield from rejected_cases(rng, tier)
    yield from bound_on_point(rng, tier)
    yield from binary_exhaustive(rng, tier)
    yield from binary_random(rng, tier)
    yield from multi_cases(rng, tier)


def kw_json(fn, kw):
    return {"fn": fn, **{k: (v.tolist() if isinstance(v, torch.Tensor) else v) for k, v in kw.items()},
            **{f"{k}.shape": list(v.shape) for k, v in kw.items() if isinstance(v, torch.Tensor)}}


def tdesc(t: torch.Tensor):
    return {"shape": list(t.shape), "dtype": str(t.dtype).replace("torch.", ""), "data": t.tolist()}


def is_tdesc(v):
    return isinstance(v, dict) and {"shape", "dtype", "data"} <= set(v)


def tundesc(d) -> torch.Tensor:
    return torch.tensor(d["data"], dtype=getattr(torch, d["dtype"])).reshape(tuple(d["shape"]))


def case_desc(fn, kw):
    """replayable description of a functional case: every tensor with its dtype and shape, every parameter as the python
    value it is (None, str, int, float keep their type through JSON)"""
    return {"fn": fn, "kwargs": {k: (tdesc(v) if isinstance(v, torch.Tensor) else v) for k, v in kw.items()}}


def case_from_desc(c):
    return c["fn"], {k: (tundesc(v) if is_tdesc(v) else v) for k, v in c["kwargs"].items()}


def definition_verdict(fn, kw, real):
    """the definition oracle on one functional case and its real outcome: (agrees: True | False | None = the definition does
    not cover the case, definition values).  Used by the sweep, by search() and by replay()."""
    exp = oracle(fn, kw)
    return oracle_agrees(real, exp), exp


def definition_violation(fn, kw, real, exp, extra=None):
    rj = real[1] if real[0] == "err" else [t.tolist() for t in real[1]]
    dj = [str(x) for x in exp] if exp else None
    return (f"C05|{fn}|{cfg_of(kw)}|differs-from-definition", f"{fn} returns {rj} where the definition gives {dj}",
            {"kind": "functional", "case": case_desc(fn, kw), "real": rj, "definition": dj, **(extra or {})})


def real_call(fn, kw):
    kw = dict(kw)
    a = [kw.pop("input"), kw.pop("target")]
    return call_real(getattr(F, fn), *a, **kw)


def cfg_of(kw):
    return ",".join(f"{k}={kw[k]}" for k in ("average", "num_tasks", "min_precision") if k in kw) + (",weighted" if kw.get("weight") is not None else "")


def has_tie_or_both(kw):
    inp, tgt = kw["input"], kw["target"]
    if inp.numel() == 0:
        return False
    rows = inp.tolist() if inp.ndim == 1 else None
    if rows is not None:
        tie = len(set(rows)) < len(rows)
    else:
        tie = True
    return tie or len(set(tgt.reshape(-1).tolist())) > 1


def check_chunk(rep: Report, cases, stream: str, always_oracle: bool, state: dict):
    lines = ["fn " + fn + " " + enc_args(kw) for fn, kw, _ in cases]
    outs = run_driver(lines)
    for (fn, kw, tag), line, o in zip(cases, lines, outs):
        real = real_call(fn, kw)
        model = dec_out(o)
        rep.count(fn)
        rep.count(f"size:{tag[0]}")
        if real[0] == "err":
            rep.count(f"err:{real[1]}")
        if tag[0].startswith("exh") or tag[0].startswith("rnd"):
            n = kw["input"].shape[-1] if fn.startswith("binary") else kw["input"].shape[0]
            rep.count(f"n:{n if n <= 5 else ('6-50' if n <= 50 else '51-200')}")
        rep.case(nontrivial_key=(fn, repr(kw_json(fn, kw))) if has_tie_or_both(kw) else None,
                 sample={"request": line, "model": o} if rep.evaluations % 40000 == 0 else None)
        msg = outcomes_agree(real, model)
        exp = None
        agrees = None
        if msg is not None or (always_oracle and real[0] == "ok"):
            agrees, exp = definition_verdict(fn, kw, real)
            if exp is not None:
                rep.count("oracle-evaluated")
        if msg is None and agrees is not False:
            continue
        state["bad"] += 1
        replay = {"kind": "functional", "case": case_desc(fn, kw), "real": real[1] if real[0] == "err" else [t.tolist() for t in real[1]],
                  "model": o, "definition": [str(x) for x in exp] if exp else None, "mismatch": msg}
        if agrees is False:
            rep.violation(*definition_violation(fn, kw, real, exp, {"model": o, "mismatch": msg}))
        else:
            rep.broke(f"correspondence:{stream}:{fn}", f"model and implementation disagree ({msg}); definition oracle "
                      + ("agrees with the implementation" if agrees else "does not cover this case"), replay)


def check_cases(rep: Report, cases, stream: str, deadline: float):
    state = {"bad": 0}
    chunk, total = [], 0
    for c in cases:
        chunk.append(c)
        if len(chunk) >= 8000:
            total += len(chunk)
            check_chunk(rep, chunk, stream, True, state)
            chunk = []
            if state["bad"] > 25:
                break
            if time.time() > deadline:
                rep.notes.append(f"{stream}: budget exhausted after {total} cases")
                break
    if chunk and state["bad"] <= 25:
        total += len(chunk)
        check_chunk(rep, chunk, stream, True, state)
    rep.streams[stream] = {"cases": total, "disagreements": state["bad"]}

# ------------------------------------------------------------------ class forms (cache-all classes through `prog`)

def class_programs(rep: Report, rng: Rng):
    from ..registry import SPECS, fresh_cfg, public_cfg
    from ..progs import Prog, run_real, model_results, compare_with_model
    per = 10 if rep.tier == "quick" else 80
    n_prog = n_bad = 0
    for spec in SPECS:
        if spec.family != "curve" or not spec.model:
            continue
        for cfg0 in spec.configs:
            progs = []
            for _ in range(per):
                cfg = fresh_cfg(cfg0)
                p = Prog(spec, cfg)
                k = rng.randint(1, 3)
                if rng.random() < 0.15:
                    p.o(0)                               # compute() before any update
                for _u in range(rng.randint(1, 5)):
                    p.u(rng.randrange(k), spec.gen(rng, cfg, rng.choice(spec.sizes)))
                if k > 1:
                    p.m(0, list(range(1, k)))
                p.o(0)
                if rng.random() < 0.3:
                    p.r(0); p.u(0, spec.gen(rng, cfg, rng.choice(spec.sizes))); p.o(0)
                progs.append(p)
            reals = [run_real(p) for p in progs]
            models, lines = model_results(progs)
            for p, res, mres, line in zip(progs, reals, models, lines):
                n_prog += 1
                rep.count(f"class:{spec.name}")
                rep.case(nontrivial_key=("class", spec.name, line))
                rep.traces += 1
                d = compare_with_model(p, res, mres, spec.tol)
                if d:
                    n_bad += 1
                    rep.broke(f"correspondence:class-model:{spec.name}", f"class model and implementation disagree at op {d[0]}: {d[1]}",
                              {"program": p.describe(), "driver_line": line, "model": mres})
    rep.streams["class-programs"] = {"cases": n_prog, "disagreements": n_bad}



# ------------------------------------------------------------------ dtype stream (real code vs the definition)

DTYPE_FORMS = ("binary_auroc", "binary_auprc", "BinaryAUROC", "BinaryAUPRC")
DTYPE_TOL = 1e-5


def dtype_expected(name, x: torch.Tensor, t: torch.Tensor):
    """the definition (exact fractions) of AUROC / AUPRC on the recorded scores: every half / double precision value is a rational"""
    xs = [Fr(v) for v in x.reshape(-1).tolist()]
    ts = [int(v) for v in t.reshape(-1).tolist()]
    if name in ("binary_auroc", "BinaryAUROC"):
        return o_auroc(xs, ts, [Fr(1)] * len(xs))
    curve = o_curve(xs, [v == 1 for v in ts])
    return o_auprc(curve[0], curve[1])


def dtype_real(name, x: torch.Tensor, t: torch.Tensor, split: int):
    """the real functional, or the real class fed the stream in two batches cut at `split`"""
    import torcheval.metrics as M
    if name in ("binary_auroc", "binary_auprc"):
        return call_real(getattr(F, name), x, t)

    def run_cls():
        m = getattr(M, name)()
        m.update(x[:split], t[:split]); m.update(x[split:], t[split:])
        return m.compute()
    return call_real(run_cls)


def dtype_holds(real, exp):
    """(holds, value): a dtype the function refuses is not a wrong value (holds = True, value None)"""
    if real[0] != "ok":
        return True, None
    got = float(real[1][0].reshape(-1)[0])
    return abs(got - float(exp)) <= DTYPE_TOL * max(1.0, abs(float(exp))), got


def dtype_stream(rep: Report, rng: Rng):
    """Scores arrive in half precision, double precision or as integers in practice.  Grid-valued scores are exact in
    every one of these dtypes, so the definition (exact fractions) is the same — but counts of several hundred samples
    are not representable in float16 / bfloat16, so any internal counting done in the score dtype shows here.
    Functional and class forms, n large enough to pass 256 and 2048, weights absent (the class creates its own)."""
    reps = 2 if rep.tier == "quick" else 10
    for r in range(reps):
        for dt in (torch.float16, torch.bfloat16, torch.float64):
            n = rng.choice([300, 700]) if dt != torch.float16 else rng.choice([300, 2300])
            xs = [rng.choice(G5 + [Fr(1, 8), Fr(3, 8), Fr(5, 8), Fr(7, 8)]) for _ in range(n)]
            if dt == torch.float64 and r % 2 == 0:
                # double precision scores that differ by less than single precision resolves (saturated probabilities):
                # distinct scores are distinct thresholds; any internal down-cast of the scores merges them
                xs = [v + Fr(rng.choice([0, 1, 2, 3]), 1 << 40) for v in xs]
                rep.count("dtype-stream:float64-near-ties")
            ts = [rng.choice([0, 1]) for _ in range(n)]
            x = torch.tensor([float(v) for v in xs], dtype=dt)
            t = torch.tensor(ts, dtype=torch.int64)
            exps = {"binary_auroc": dtype_expected("binary_auroc", x, t), "binary_auprc": dtype_expected("binary_auprc", x, t)}
            exps["BinaryAUROC"], exps["BinaryAUPRC"] = exps["binary_auroc"], exps["binary_auprc"]
            split = n // 3
            for name in DTYPE_FORMS:
                real, exp = dtype_real(name, x, t, split), exps[name]
                dts = str(dt).replace("torch.", "")
                rep.case(nontrivial_key=("dtype", name, str(dt), n, r), sample=None)
                rep.count(f"dtype-stream:{dts}")
                if real[0] != "ok":
                    rep.count(f"dtype-stream:raises:{name}:{dts}")
                holds, got = dtype_holds(real, exp)
                if not holds:
                    rep.violation(f"C05|{name}|{dts}-scores|differs-from-definition",
                                  f"{name} on {n} grid-valued {dts} scores returns {got} where the definition gives {float(exp)}",
                                  {"kind": "dtype", "fn": name, "input": tdesc(x), "target": tdesc(t), "split": split,
                                   "expected": float(exp), "got": got})
                    return


# ------------------------------------------------------------------ scale stream (the counts of a large evaluation set)

SCALE_FNS = [("binary_auroc", {}), ("binary_auprc", {}), ("binary_precision_recall_curve", {}),
             ("binary_recall_at_fixed_precision", {"min_precision": 0.5}),
             ("multiclass_auroc", {"num_classes": 3, "average": None}), ("multiclass_auprc", {"num_classes": 3, "average": None}),
             ("multiclass_precision_recall_curve", {"num_classes": 3}),
             ("multilabel_auprc", {"num_labels": 3, "average": None}), ("multilabel_precision_recall_curve", {"num_labels": 3})]


def scale_small(fn: str, seed: int):
    """the small data set of a scale case, a function of (fn, seed) only"""
    rng = Rng(seed)
    n0 = 40
    g = G5 + [Fr(1, 8), Fr(3, 8)]
    if fn.startswith("binary"):
        x = torch.tensor([float(rng.choice(g)) for _ in range(n0)], dtype=torch.float32)
        t = torch.tensor([rng.choice([0, 1]) for _ in range(n0)], dtype=torch.int64)
    elif fn.startswith("multiclass"):
        x = torch.tensor([[float(rng.choice(g)) for _ in range(3)] for _ in range(n0)], dtype=torch.float32)
        t = torch.tensor([rng.choice([0, 1, 2]) for _ in range(n0)], dtype=torch.int64)
    else:
        x = torch.tensor([[float(rng.choice(g)) for _ in range(3)] for _ in range(n0)], dtype=torch.float32)
        t = torch.tensor([[rng.choice([0, 1]) for _ in range(3)] for _ in range(n0)], dtype=torch.int64)
    return x, t


def scale_verdict(fn: str, params: dict, seed: int, log2r: int):
    """every sample of the small set replicated 2^log2r times (sample dimension): ranks, counts, precision, recall and the
    areas are ratios of counts, so the DEFINITION of the large set is that of the small one (duplication invariance,
    TE.Props.C17) — which the oracle computes exactly.  Returns (agrees, expected, real)."""
    x, t = scale_small(fn, seed)
    r = 1 << log2r
    kw_small = {"input": x, "target": t, **params}
    kw_big = {"input": x.repeat_interleave(r, dim=0), "target": t.repeat_interleave(r, dim=0), **params}
    real = real_call(fn, kw_big)
    agrees, exp = definition_verdict(fn, kw_small, real)
    return agrees, exp, real


def scale_stream(rep: Report, rng: Rng):
    """evaluation sets of 163 840 samples (40 distinct samples x 2^12): per-class products of counts pass 2^31, counts pass
    2^16 — any counting done in a narrower type than the code's int64 / float64 shows as a wrong value."""
    reps = 1 if rep.tier == "quick" else 4
    for _ in range(reps):
        for fn, params in SCALE_FNS:
            seed = rng.randrange(1 << 30)
            agrees, exp, real = scale_verdict(fn, params, seed, 12)
            rep.case(nontrivial_key=("scale", fn, seed))
            rep.count("scale-stream:163840-samples")
            if agrees is False:
                rj = real[1] if real[0] == "err" else [tt.reshape(-1)[:12].tolist() for tt in real[1]]
                rep.violation(f"C05|{fn}|163840-samples|differs-from-definition",
                              f"{fn} on 40 distinct samples each replicated 4096 times returns {rj} where the definition gives {[float(v) for v in exp][:12]}",
                              {"kind": "scale", "fn": fn, "params": params, "seed": seed, "log2r": 12})
                return

# ------------------------------------------------------------------ kernel stream (generated terms vs the real kernels)
# (T) harness/translators/kernels.py translates the curve kernels it covers (family "C05": `_riemann_integral`, `_compute_for_each_class`,
# `_binary_precision_recall_curve_compute`, `_binary_auroc_compute_jit` for one task, `_binary_auprc_compute` (one task and the loop over
# `num_tasks` rows), `_recall_at_precision`, `_binary_recall_at_fixed_precision_compute`) from their
# source into terms of TE/Model/TExpr.lean (TE/Gen/KernelsCurve.lean, regenerated here); TE/Props/C05_Kernels.lean proves the generated
# terms equal to the models of TE/Model/Curve.lean; this stream runs the generated terms against the REAL functions.

KERNEL_MODULES = {"tensor_utils": "torcheval.metrics.functional.tensor_utils",
                  "classification/precision_recall_curve": "torcheval.metrics.functional.classification.precision_recall_curve",
                  "classification/auroc": "torcheval.metrics.functional.classification.auroc",
                  "classification/auprc": "torcheval.metrics.functional.classification.auprc",
                  "classification/recall_at_fixed_precision": "torcheval.metrics.functional.classification.recall_at_fixed_precision"}


def translate(rep: Report):
    """(T) regenerate lean/TE/Gen/KernelsCurve.lean from the kernels' source (TE.Props.C05_Kernels is proved about it)"""
    from ..translators import kernels
    from ..common import LEAN
    rows = kernels.generate(rep, family="C05")
    props = (LEAN / "TE" / "Props" / "C05_Kernels.lean").read_text()
    for r in rows:
        if r["term"] is not None and f"Gen.Curve.k_{r['id']}" not in props.replace(f"Gen.Curve.k_{r['id']}_", ""):
            rep.broke(f"kernels:{r['id']}", f"kernel {r['func']} is translated but no theorem of TE/Props/C05_Kernels.lean is about Gen.Curve.k_{r['id']}", {})


def kernel_stream(rep: Report, rng: Rng):
    """the GENERATED term of every translated kernel (request `gen.<kernel>`) against the REAL private function on the same
    arguments (grid values: the sums are exact in float32).  A disagreement is a broken correspondence between the source and its
    translation (`kernels:<name>`), never a violation by itself."""
    import importlib
    from ..common import enc_tensor
    from ..translators import kernels
    rows = {r["id"]: r for r in kernels.facts(family="C05")}
    for r in rows.values():
        if "fn" not in r:
            try:
                r["fn"] = getattr(importlib.import_module(KERNEL_MODULES[r["module"]]), r["func"], None)
            except Exception:  # noqa: BLE001
                r["fn"] = None
    calls = []
    if rows.get("riemann_integral", {}).get("term") is not None and rows["riemann_integral"].get("fn") is not None:
        grid = [Fr(j, 8) for j in range(0, 9)]
        for _ in range(1500 if rep.tier == "thorough" else 300):
            n = rng.choice([0, 1, 2, 3, 5, 9])
            xs = sorted(rng.grid(n, grid), reverse=rng.random() < 0.8) if rng.random() < 0.7 else rng.grid(n, grid)
            x, y = ft(xs), ft(rng.grid(n, grid))
            calls.append(("riemann_integral", {"x": x, "y": y}, call_real(rows["riemann_integral"]["fn"], x, y)))
    def usable(kid):
        return rows.get(kid, {}).get("term") is not None and rows[kid].get("fn") is not None
    if any(usable(k_) for k_ in ("compute_for_each_class", "binary_precision_recall_curve_compute", "binary_auprc_compute",
                                 "recall_at_precision", "binary_recall_at_fixed_precision_compute")):
        # scores with ties, all-negative / all-positive targets (recall NaN -> 1), n = 0 (RuntimeError inside TorchScript)
        cases = []
        for n in range(0, 4):
            for xs in itertools.product([Fr(0), Fr(1, 2), Fr(1)], repeat=n):
                for tsv in itertools.product([0, 1], repeat=n):
                    cases.append((list(xs), list(tsv)))
        for _ in range(1200 if rep.tier == "thorough" else 250):
            n = rng.choice([4, 5, 6, 9, 17])
            cases.append((tie_heavy(rng, n) if rng.random() < 0.7 else rng.grid(n, G5), labels(rng, n)))
        for xs, tsv in cases:
            x, t = ft(xs), it(tsv)
            if usable("compute_for_each_class"):
                calls.append(("compute_for_each_class", {"input": x, "target": t, "pos_label": 1},
                              call_real(rows["compute_for_each_class"]["fn"], x, t, 1)))
            if usable("binary_precision_recall_curve_compute"):
                calls.append(("binary_precision_recall_curve_compute", {"input": x, "target": t},
                              call_real(rows["binary_precision_recall_curve_compute"]["fn"], x, t)))
            if usable("binary_auprc_compute"):
                # one task, 1-d (the `for i in range(num_tasks)` branch is outside the grammar: kernels_coverage)
                calls.append(("binary_auprc_compute", {"input": x, "target": t, "num_tasks": 1},
                              call_real(rows["binary_auprc_compute"]["fn"], x, t, 1)))
            # recall at fixed precision: dyadic bounds (exactly comparable with float32 precisions), a bound above 1 (`torch.max` of an
            # empty selection raises); `_recall_at_precision` on the curve the REAL curve kernel returned
            mp = rng.choice([Fr(0), Fr(1, 4), Fr(1, 2), Fr(3, 4), Fr(1), Fr(3, 2)])
            if usable("binary_recall_at_fixed_precision_compute"):
                calls.append(("binary_recall_at_fixed_precision_compute", {"input": x, "target": t, "min_precision": mp},
                              call_real(rows["binary_recall_at_fixed_precision_compute"]["fn"], x, t, float(mp))))
            if usable("recall_at_precision") and usable("binary_precision_recall_curve_compute"):
                cur = call_real(rows["binary_precision_recall_curve_compute"]["fn"], x, t)
                if cur[0] == "ok":
                    p_, r_, t_ = cur[1]
                    calls.append(("recall_at_precision", {"precision": p_, "recall": r_, "thresholds": t_, "min_precision": mp},
                                  call_real(rows["recall_at_precision"]["fn"], p_, r_, t_, float(mp))))
    if usable("binary_auprc_compute"):
        # several tasks: (num_tasks, n) inputs, one AUPRC per row (the Python-level loop of the kernel), also one row and n = 0
        for _ in range(600 if rep.tier == "thorough" else 150):
            rows_, n = rng.choice([1, 2, 2, 3]), rng.choice([0, 1, 2, 3, 5, 9])
            xs = [v for _r in range(rows_) for v in (tie_heavy(rng, n) if rng.random() < 0.6 else rng.grid(n, G5))]
            tsv = [v for _r in range(rows_) for v in labels(rng, n)]
            x, t = ft(xs, shape=(rows_, n)), it(tsv, shape=(rows_, n))
            calls.append(("binary_auprc_compute", {"input": x, "target": t, "num_tasks": rows_},
                          call_real(rows["binary_auprc_compute"]["fn"], x, t, rows_)))
    if usable("binary_auroc_compute_jit"):
        # one task (1-d): ties, constant targets (factor 0 -> 0.5), with and without per-sample weights, n = 0 (RuntimeError);
        # the `num_tasks > 1` branch is outside the grammar (kernels_coverage)
        W3 = [Fr(1, 2), Fr(1), Fr(2)]
        cases = [([], [])]
        for n in range(1, 4):
            for xs in itertools.product([Fr(0), Fr(1, 2), Fr(1)], repeat=n):
                for tsv in itertools.product([0, 1], repeat=n):
                    cases.append((list(xs), list(tsv)))
        for _ in range(1200 if rep.tier == "thorough" else 250):
            n = rng.choice([4, 5, 6, 9, 17])
            cases.append((tie_heavy(rng, n) if rng.random() < 0.7 else rng.grid(n, G5), labels(rng, n)))
        for xs, tsv in cases:
            x, t = ft(xs), ft(tsv)
            w = ft(rng.grid(len(xs), W3)) if rng.random() < 0.5 else None
            calls.append(("binary_auroc_compute_jit", {"input": x, "target": t, "weight": w},
                          call_real(rows["binary_auroc_compute_jit"]["fn"], x, t, w)))
    def enc_kv(v):
        if isinstance(v, torch.Tensor):
            return enc_tensor(v)
        if v is None:
            return "none"
        return "q." + str(v) if isinstance(v, Fr) else "i." + str(v)
    lines = [f"fn gen.{kid} " + " ".join(f"{k}={enc_kv(v)}" for k, v in a.items()) for kid, a, _ in calls]
    outs = run_driver(lines)
    nbad = {}
    for (kid, a, real), line, o in zip(calls, lines, outs):
        rep.count(f"kernel-stream:{kid}")
        if real[0] == "err":
            rep.count(f"kernel-stream:err:{real[1]}")
        rep.case(nontrivial_key=("kernel", line), sample={"request": line[:300], "model": o[:200]} if rep.dist.get(f"kernel-stream:{kid}") == 1 else None)
        rep.traces += 1
        msg = outcomes_agree(real, dec_out(o), strict_kind=True)
        if msg is None:
            continue
        nbad[kid] = nbad.get(kid, 0) + 1
        if nbad[kid] <= 3:
            rep.broke(f"kernels:{kid}", f"the term generated from the source of {rows[kid]['module']}.{rows[kid]['func']} and the real function disagree ({msg}) "
                      f"on {line[:400]}", {"kind": "kernel", "kernel": kid, "request": line, "generated": o,
                                           "real": real[1] if real[0] == "err" else [t.tolist() for t in real[1]]})
    rep.streams["kernels"] = {"cases": len(calls), "disagreements": sum(nbad.values()), "untranslated": [k for k, r in rows.items() if r["term"] is None]}


def run(rep: Report):
    rng = Rng(rep.seed * 1000003 + 5)
    from .. import opscheck; opscheck.check_ops(rep, ["curve"])
    deadline = time.time() + budget(rep.tier, 48, 800)
    check_cases(rep, all_cases(rng, rep.tier), "functional", deadline)
    class_programs(rep, Rng(rep.seed * 1000003 + 55))
    dtype_stream(rep, Rng(rep.seed * 1000003 + 555))
    scale_stream(rep, Rng(rep.seed * 1000003 + 5555))
    kernel_stream(rep, Rng(rep.seed * 1000003 + 55555))


def search(rep: Report):
    """a proof obligation or the correspondence broke: look for an input where the real code leaves the definition
    (thorough-size space, definition oracle only, capped)."""
    rng = Rng(rep.seed * 7919 + 505)
    deadline = time.time() + 120
    for k, (fn, kw, tag) in enumerate(all_cases(rng, "thorough")):
        if k % 512 == 0 and time.time() > deadline:
            return
        if oracle(fn, kw) is None:
            continue
        real = real_call(fn, kw)
        agrees, exp = definition_verdict(fn, kw, real)
        if real[0] == "ok" and agrees is False:
            rep.violation(*definition_violation(fn, kw, real, exp))
            return


def _nothing(reason):
    raise ValueError(f"nothing to replay: {reason}")


def replay(payload) -> bool:
    """True iff the property holds on the recorded input.
    `kind: functional` -> the call is rebuilt (tensors with their recorded dtype and shape, parameters as recorded), run on the
                          real code and judged by `definition_verdict` (the oracle of the sweep and of search());
    `kind: dtype`      -> the recorded half / double precision scores through `dtype_real` / `dtype_expected` / `dtype_holds`."""
    if not isinstance(payload, dict) or payload.get("kind", "failing-input") != "failing-input":
        _nothing(f"payload kind {payload.get('kind') if isinstance(payload, dict) else None!r} carries no concrete input")
    r = payload.get("replay")
    if not isinstance(r, dict) or not r:
        _nothing("the payload carries no replay dict")
    kind = r.get("kind")
    if kind == "dtype":
        if r.get("fn") not in DTYPE_FORMS or not is_tdesc(r.get("input")) or not is_tdesc(r.get("target")) or "split" not in r:
            _nothing("dtype-stream payload without the recorded tensors (dtype, shape, data), form name and batch split")
        x, t = tundesc(r["input"]), tundesc(r["target"])
        exp = dtype_expected(r["fn"], x, t)
        real = dtype_real(r["fn"], x, t, int(r["split"]))
        holds, got = dtype_holds(real, exp)
        print(f"replay: {r['fn']} on {x.numel()} {r['input']['dtype']} scores: " + (f"raised {real[1]} (a refused dtype is not a wrong value)" if real[0] != "ok"
              else f"returns {got}, the definition gives {float(exp)}"))
        return bool(holds)
    if kind == "scale":
        if r.get("fn") not in [f for f, _ in SCALE_FNS] or not isinstance(r.get("seed"), int) or not isinstance(r.get("log2r"), int):
            _nothing("scale payload without function name, seed and replication exponent")
        agrees, exp, real = scale_verdict(r["fn"], dict(r.get("params") or {}), r["seed"], r["log2r"])
        if agrees is None:
            _nothing("the definition oracle does not cover this input")
        if agrees is False:
            print(f"replay: {r['fn']} on the replicated set returns {real[1] if real[0] == 'err' else [tt.reshape(-1)[:8].tolist() for tt in real[1]]}, "
                  f"the definition gives {[float(v) for v in exp][:8]}"[:600])
        return agrees is True
    if kind == "functional":
        c = r.get("case")
        if not isinstance(c, dict) or "fn" not in c or not isinstance(c.get("kwargs"), dict) or not all(is_tdesc(c["kwargs"].get(k)) for k in ("input", "target")):
            _nothing("functional payload without a case description {fn, kwargs: tensors with dtype and shape}")
        fn, kw = case_from_desc(c)
        if not hasattr(F, fn):
            _nothing(f"unknown functional {fn!r}")
        real = real_call(fn, kw)
        agrees, exp = definition_verdict(fn, kw, real)
        if agrees is None:
            _nothing(f"the definition oracle does not cover this {fn} input")
        if agrees is False:
            print(f"replay: {definition_violation(fn, kw, real, exp)[1]}"[:600])
        return agrees is True
    if kind is None and "case" in r:
        _nothing("case recorded without tensor dtypes (old format): it cannot be rebuilt faithfully")
    _nothing(f"replay kind {kind!r} is neither `functional` nor `dtype`")
