"""C19 — accumulated counts stay exact over long histories (no silent saturation).
(T) dtypes translator → lean/TE/Gen/Dtypes.lean; Lean decides which accumulators are wide
enough (≥ 53 significand bits) and proves exactness below 2^p / saturation at 2^p.
(D) a large state is injected through load_state_dict and k more samples are applied by
small and by large updates; the accumulator must grow by exactly the statistics of the
added samples."""
from __future__ import annotations
import time
import torch
from ..common import Rng, Report, budget
from ..registry import SPECS, Spec, fresh_cfg, public_cfg, new_metric
from ..engine import fed, gen_stream, try_update
from ..translators import dtypes as dtypes_tr

LEVEL = "proof"
RULE = ("every registry class with count/sum accumulators × configuration: inject totals 2^24−2 … 2^24+2, 2^31, 2^52 into each accumulator via "
        "load_state_dict, apply 1–3 further grid-valued batches, compare the accumulator with injected + (statistics the same batches "
        "produce on a fresh instance), exactly; non-trivial = distinct (class, state, injected magnitude, batch)")
MODELLED = ["accumulators are modelled as non-negative integers (weights in the injected runs are 1)"]
ASSUMPTIONS = ["weights/sample_weight omitted in the injected runs so that the statistics are integers; a case whose added statistic is not integer-valued (a sum of sample values rather than a count/weight) is skipped and counted as skipped:non-integer-statistic"]
TRUSTED_EXTRA = ["harness/translators/dtypes.py (reads dtypes off live objects) producing lean/TE/Gen/Dtypes.lean"]

MAGS = [2 ** 24 - 2, 2 ** 24 - 1, 2 ** 24, 2 ** 24 + 1, 2 ** 24 + 2, 2 ** 31, 2 ** 31 + 1, 2 ** 52, 2 ** 52 + 1]   # incl. values float32 cannot hold (2^24+1, 2^31+1)


def translate(rep: Report):
    dtypes_tr.generate(rep)


def integer_batch(spec, cfg, rng):
    for _ in range(20):
        b = spec.gen(rng, cfg, rng.choice(spec.sizes))
        if not b.kwargs and all(not (isinstance(a, float)) for a in b.args) and len(b.args) <= 2 + (1 if spec.kind == "retrieval" else 0):
            return b
    return None


def _as64(v):
    return v.to(torch.float64) if isinstance(v, torch.Tensor) else torch.tensor(float(v), dtype=torch.float64)


def measure(spec: Spec, cfg: dict, st: str, mag: int, warm, bs, via: str = "load"):
    """the property's oracle on one case.  State `st` (tensor or python int) of a metric warmed by `warm` is set to `mag`
    and must afterwards grow by exactly the statistics of what is added:
      via="load"  : injected through load_state_dict, then `bs` are applied; want = injected + increase of a fresh twin;
      via="reset" : the metric is reset() first and re-warmed, the value is written IN PLACE (the dtype reset() left
                    is kept), then `bs` are applied — a reset that re-creates accumulators in a narrower dtype shows here;
      via="merge" : the injected metric is a merge SOURCE of a twin that saw warm + `bs`; want = twin's value + injected —
                    a merge that caps or re-casts the incoming totals shows here.
    returns a string (reason the case is outside the comparison) or a dict got / want / delta / inj / dtype / ok."""
    m = new_metric(spec, cfg)
    if not hasattr(m, st):
        return "no such state"
    warm.apply(m)                       # establishes state shapes
    if via == "reset":
        m.reset()
        warm.apply(m)
    base = m.state_dict()
    cur = base[st]
    if isinstance(cur, bool) or not isinstance(cur, (torch.Tensor, int)):
        return "state is neither a tensor nor an int"
    if isinstance(cur, torch.Tensor):
        inj = torch.full_like(cur, float(mag)) if cur.is_floating_point() else torch.full_like(cur, mag)
        if inj.to(torch.float64).max().item() != float(mag):
            return "magnitude not representable in this dtype at all"
        dtype = cur.dtype
    else:
        inj, dtype = mag, "python-int"
    if via == "reset" and isinstance(cur, torch.Tensor):
        with torch.inference_mode():
            getattr(m, st).copy_(inj)   # in place: keeps whatever dtype reset() + update left there
    else:
        base[st] = inj
        m.load_state_dict(base)
    fresh = new_metric(spec, cfg)
    warm.apply(fresh)
    f0 = _as64(getattr(fresh, st)).clone()
    if via == "merge":
        for b in bs:
            if try_update(fresh, b) is not None:
                return "an update raised"
        before = _as64(getattr(fresh, st)).clone()
        delta = before - f0
        try:
            fresh.merge_state([m])
        except Exception as e:  # noqa: BLE001
            return f"merge raised {type(e).__name__}"
        got = _as64(getattr(fresh, st))
        want = before + _as64(inj)
    else:
        prev = f0
        for b in bs:
            if try_update(m, b) is not None or try_update(fresh, b) is not None:
                return "an update raised"
            cur_f = _as64(getattr(fresh, st)).clone()
            if cur_f.shape == prev.shape and not torch.equal(cur_f - prev, (cur_f - prev).round()):
                # a batch whose own statistic is not an integer (a sum of sample VALUES that only happens to total an
                # integer over the batches): intermediate totals need not be representable — not a count, C07's subject
                return "skipped:non-integer-statistic"
            prev = cur_f
        delta = _as64(getattr(fresh, st)) - f0
        got = _as64(getattr(m, st))
        want = _as64(inj) + delta
    if not torch.equal(delta, delta.round()):
        # a sum of non-integer sample VALUES (Mean.weighted_sum, Sum, MSE's squared error …) is not a count:
        # injected + delta need not be representable at all; rounding of value sums is C07's subject, not C19's
        return "skipped:non-integer-statistic"
    if got.shape != want.shape:
        return "skipped:state-shape-changed"
    return {"got": got, "want": want, "delta": delta, "inj": inj, "dtype": dtype, "ok": torch.equal(got, want)}


def one(rep: Report, rng: Rng, spec: Spec, cfg0: dict, st: str, mag: int):
    cfg = fresh_cfg(cfg0)
    cfg["_v"] = 0.99      # unweighted variant of every generator
    if not hasattr(new_metric(spec, cfg), st):
        return
    bs = [integer_batch(spec, cfg, rng) for _ in range(rng.randint(1, 3))]
    if any(b is None for b in bs):
        return
    warm = integer_batch(spec, cfg, rng)
    via = rng.choice(["load", "load", "reset", "merge"])
    rep.count(f"via:{via}")
    r = measure(spec, cfg, st, mag, warm, bs, via)
    if isinstance(r, str):
        if r.startswith("skipped:"):
            rep.count(r)
        return
    got, want, delta, dtype = r["got"], r["want"], r["delta"], r["dtype"]
    rep.count(f"dtype:{dtype}"); rep.count(f"mag:2^{mag.bit_length()-1}")
    nontriv = bool((delta != 0).any())
    rep.case(nontrivial_key=(spec.name, st, mag, repr(delta.tolist())) if nontriv else None,
             sample={"class": spec.name, "state": st, "dtype": str(dtype), "injected": mag, "delta": delta.reshape(-1).tolist()[:6]} if rep.evaluations % 97 == 0 else None)
    if not r["ok"]:
        kind = str(dtype).replace("torch.", "")
        rep.violation(f"C19|{spec.name}|{st}|{kind}-saturates",
                      f"{spec.name}.{st} ({kind}) injected {mag} (via {via}), statistics of the added samples {delta.reshape(-1).tolist()[:6]}: accumulator is {got.reshape(-1).tolist()[:6]} instead of {want.reshape(-1).tolist()[:6]}",
                      {"class": spec.name, "cfg": public_cfg(cfg), "state": st, "injected": mag, "via": via, "warm": warm.describe(), "batches": [b.describe() for b in bs],
                       "got": got.reshape(-1).tolist(), "want": want.reshape(-1).tolist()})


def big_weight_cases(rep: Report, rng: Rng):
    """weights given as large integers (bucket counts used as weights): the weight totals must grow by exactly their
    sum, whatever the dtype of the weight tensor (int64 / int32 / float64) and of the scores (float32 / float64)."""
    import torcheval.metrics as M
    plans = [("Mean", lambda: M.Mean(), "weights", lambda m, x, w: m.update(x, weight=w)),
             ("ClickThroughRate", lambda: M.ClickThroughRate(), "weight_total", lambda m, x, w: m.update((x > 0).long(), w)),
             ("BinaryNormalizedEntropy", lambda: M.BinaryNormalizedEntropy(), "num_examples",
              lambda m, x, w: m.update(x.clamp(0.125, 0.875), (x > 0.5).to(x.dtype), weight=w.to(x.dtype)))]
    for name, ctor, st, upd in plans:
        for wdt in (torch.int64, torch.int32, torch.float64):
            for xdt in (torch.float32, torch.float64):
                if name == "BinaryNormalizedEntropy" and not (wdt == torch.float64 and xdt == torch.float64):
                    continue        # its weights must have the dtype of the scores; float32 weights cannot hold the values at all
                base = rng.choice([9_000_000, 2 ** 23 + 1, 12_345_679])
                ws = [base, base + 1, base + rng.choice([2, 4])]
                ws[2] += (1 - sum(ws)) % 8          # the batch total is ≡ 1 (mod 8): float32 cannot hold it (spacing 2..8 here)
                x = torch.tensor([0.25, 0.5, 0.75], dtype=xdt)
                w = torch.tensor(ws, dtype=wdt)
                m = ctor()
                try:
                    upd(m, x, w)
                    upd(m, x, w)
                except Exception as e:  # noqa: BLE001
                    rep.count(f"big-weights:raises:{name}:{type(e).__name__}")
                    continue
                got = getattr(m, st).to(torch.float64).reshape(-1)[0].item()
                want = float(2 * sum(ws))
                rep.case(nontrivial_key=("big-weights", name, str(wdt), str(xdt), tuple(ws)), sample=None)
                rep.count("big-weights:cases")
                if got != want:
                    rep.violation(f"C19|{name}|{st}|integer-weights-rounded",
                                  f"{name}.{st} after two updates with weights {ws} ({str(wdt).replace('torch.', '')}, scores {str(xdt).replace('torch.', '')}) is {got:.1f} instead of {want:.1f}",
                                  {"kind": "big-weights", "class": name, "state": st, "weights": ws, "weight_dtype": str(wdt), "score_dtype": str(xdt), "got": got, "want": want})


SCALAR_PLANS = {
    "Sum.weighted_sum": (lambda M: M.Sum(), "weighted_sum", lambda m, x, w: m.update(x, weight=w)),
    "Mean.weights": (lambda M: M.Mean(), "weights", lambda m, x, w: m.update(x, weight=w)),
    "Mean.weighted_sum": (lambda M: M.Mean(), "weighted_sum", lambda m, x, w: m.update(x, weight=w)),
}


def scalar_weight_case(plan: str, w: float, n: int, reps: int):
    """float64 samples all equal to 1 with a python-float weight that float32 cannot hold (2^24+1, 2^30+1 …): every total is an
    integer far below 2^53, so the float64 accumulators must hold n·reps·w exactly — a scalar weight that is squeezed through a
    float32 tensor on its way shows here.  returns (got, want)."""
    import torcheval.metrics as M
    ctor, st, upd = SCALAR_PLANS[plan]
    m = ctor(M)
    x = torch.ones(n, dtype=torch.float64)
    for _ in range(reps):
        upd(m, x, w)
    return getattr(m, st).to(torch.float64).reshape(-1)[0].item(), float(n * reps) * w


def scalar_weight_cases(rep: Report, rng: Rng):
    for plan in SCALAR_PLANS:
        for w in (float(2 ** 24 + 1), float(2 ** 30 + 1), float(2 ** 24 + 1) * 3):
            n, reps = rng.choice([1, 3, 5]), rng.choice([1, 2, 3])
            got, want = scalar_weight_case(plan, w, n, reps)
            rep.case(nontrivial_key=("scalar-weight", plan, w, n, reps), sample=None)
            rep.count("scalar-weights:cases")
            if got != want:
                cls, st = plan.split(".")
                rep.violation(f"C19|{cls}|{st}|scalar-weight-rounded",
                              f"{plan} after {reps} update(s) of {n} float64 ones with the python float weight {w:.1f} is {got:.1f} instead of {want:.1f}",
                              {"kind": "scalar-weight", "plan": plan, "weight": w, "n": n, "reps": reps, "got": got, "want": want})


def lowp_case(avg, dtname: str, n: int, seed: int):
    """one update of MulticlassAccuracy(k=2) with n half-precision score rows (a 3-level grid, exact in every float dtype): the hit
    counters must hold exactly what the same scores give in float32 — a count kept in the dtype of the scores stops being exact at
    2048 (float16) / 256 (bfloat16).  returns (got, want) as lists"""
    import torcheval.metrics as M
    g = torch.Generator().manual_seed(seed)
    C = 3
    x = torch.randint(0, 3, (n, C), generator=g).to(torch.float32) / 2
    y = torch.randint(0, C, (n,), generator=g)
    ref = M.MulticlassAccuracy(num_classes=C, k=2, average=avg); ref.update(x, y)
    m = M.MulticlassAccuracy(num_classes=C, k=2, average=avg); m.update(x.to(getattr(torch, dtname)), y)
    return m.num_correct.to(torch.float64).reshape(-1).tolist(), ref.num_correct.to(torch.float64).reshape(-1).tolist()


def lowp_count_cases(rep: Report, rng: Rng):
    for avg in ("micro", "macro"):
        for dtname, n in (("float16", 9000), ("bfloat16", 1500)):
            seed = rng.randrange(1 << 30)
            got, want = lowp_case(avg, dtname, n, seed)
            rep.case(nontrivial_key=("lowp-scores", avg, dtname, n, seed)); rep.count("lowp-scores:cases")
            if got != want:
                rep.violation(f"C19|MulticlassAccuracy|num_correct|{dtname}-scores-counted-in-the-score-dtype",
                              f"MulticlassAccuracy(k=2, average={avg}).num_correct after one update of {n} {dtname} score rows is {got} instead of {want}",
                              {"kind": "lowp-scores", "average": avg, "dtype": dtname, "n": n, "seed": seed, "got": got, "want": want})


def sweep(rep, rng, reps, deadline):
    for spec in SPECS:
        if not spec.count_states:
            continue
        for cfg0 in spec.configs:
            for st in spec.count_states:
                for mag in MAGS:
                    for _ in range(reps):
                        if time.time() > deadline:
                            rep.notes.append("budget exhausted"); return
                        one(rep, rng, spec, cfg0, st, mag)


def run(rep: Report):
    big_weight_cases(rep, Rng(rep.seed * 1000003 + 1919))
    scalar_weight_cases(rep, Rng(rep.seed * 1000003 + 1920))
    lowp_count_cases(rep, Rng(rep.seed * 1000003 + 1921))
    sweep(rep, Rng(rep.seed * 1000003 + 19), 3 if rep.tier == "quick" else 8, time.time() + budget(rep.tier, 40, 400))


def search(rep: Report):
    sweep(rep, Rng(rep.seed * 3 + 1919), 4, time.time() + 120)


def replay(payload) -> bool:
    """True iff the property holds on the recorded case (class, state, injected magnitude, warm-up batch, batches): the
    accumulator after the batches equals injected + their statistics, judged by `measure` (the sweep's oracle)."""
    rp = payload.get("replay") or {}
    if rp.get("kind") == "lowp-scores":
        got, want = lowp_case(rp["average"], rp["dtype"], int(rp["n"]), int(rp["seed"]))
        return got == want
    if rp.get("kind") == "scalar-weight":
        got, want = scalar_weight_case(rp["plan"], float(rp["weight"]), int(rp["n"]), int(rp["reps"]))
        return got == want
    if rp.get("kind") == "big-weights":
        r2 = Report("C19", "quick", 0)
        import torcheval.metrics as M
        # re-run exactly this plan entry
        plans = {"Mean": (lambda: M.Mean(), lambda m, x, w: m.update(x, weight=w)),
                 "ClickThroughRate": (lambda: M.ClickThroughRate(), lambda m, x, w: m.update((x > 0).long(), w)),
                 "BinaryNormalizedEntropy": (lambda: M.BinaryNormalizedEntropy(), lambda m, x, w: m.update(x.clamp(0.125, 0.875), (x > 0.5).to(x.dtype), weight=w.to(x.dtype)))}
        ctor, upd = plans[rp["class"]]
        wdt = getattr(torch, rp["weight_dtype"].replace("torch.", "")); xdt = getattr(torch, rp["score_dtype"].replace("torch.", ""))
        x = torch.tensor([0.25, 0.5, 0.75], dtype=xdt); w = torch.tensor(rp["weights"], dtype=wdt)
        m = ctor(); upd(m, x, w); upd(m, x, w)
        return getattr(m, rp["state"]).to(torch.float64).reshape(-1)[0].item() == float(2 * sum(rp["weights"]))
    if payload.get("kind", "failing-input") != "failing-input" or not {"class", "state", "injected", "batches"} <= set(rp):
        raise ValueError(f"nothing to replay: payload kind {payload.get('kind')!r} carries no case (class, state, injected, batches)")
    from ..registry import BY_NAME, Batch
    spec, cfg = BY_NAME[rp["class"]], dict(rp.get("cfg") or {})
    bs = [Batch.from_describe(d) for d in rp["batches"]]
    if not bs:
        raise ValueError("nothing to replay: no batches recorded")
    # payloads written before the warm-up batch was recorded: it only establishes the state shapes (its own statistics
    # are replaced by the injected value and subtracted on the fresh side), any recorded batch serves
    warm = Batch.from_describe(rp["warm"]) if rp.get("warm") else bs[0]
    r = measure(spec, cfg, rp["state"], int(rp["injected"]), warm, bs, rp.get("via", "load"))
    if isinstance(r, str):
        raise ValueError(f"nothing to replay: the case is outside the comparison on this tree ({r})")
    if not r["ok"]:
        print(f"replay: {spec.name}.{rp['state']} ({str(r['dtype']).replace('torch.', '')}) injected {rp['injected']}, statistics of the added samples "
              f"{r['delta'].reshape(-1).tolist()[:6]}: accumulator is {r['got'].reshape(-1).tolist()[:6]} instead of {r['want'].reshape(-1).tolist()[:6]}")
    return bool(r["ok"])
