"""C15 — gathering state across ranks is lossless and correctly addressed.

The REAL `synclib.send_tensors` / `synclib.sync_states` run for k simulated ranks on
`harness/fakedist.py` (one thread per rank, a transport that checks that every rank issues
the same collective).  Oracle (independent of the model): every receiving rank holds, for
every member in rank order, exactly the value that member sent (shape, dtype, content,
container type, keys) and non-destination ranks hold None; no rank raises, mismatches or
times out.  Correspondence: the Lean model `TE.Sync` (through the driver) must produce the
same per-rank collective trace, the same outcome and the same values.
Thorough tier: one case per distinct model trace is re-run on REAL gloo processes to
validate the fake transport.
"""
from __future__ import annotations
import itertools, json, os, subprocess, tempfile, time
from dataclasses import dataclass, field
import torch
from ..common import LEAN, Rng, Report, run_driver, budget
from .. import fakedist as fd
from ..fakedist import World, enc_t, dec_t, enc_collection, dec_collection, render_send, render_sync, fmt_trace, world_status
from torcheval.metrics import synclib

LEVEL = "proof"
RULE = ("send_tensors / sync_states on k simulated ranks (k = 1..6 quick, 1..8 thorough; every sub-group of worlds ≤ 4 with "
        "destination None and every member, for every state kind incl. all-empty / some-empty lists and dicts): per-rank "
        "tensors of equal ndim ≤ 4 with extents in {0,1,2,3} over the nine dtypes gloo carries, list states of 0..3 tensors per rank incl. all-empty "
        "and some-empty, dict states with equal / unequal key sets, ints, floats, mixed collections of metrics, destination None "
        "and every member; non-trivial = distinct (entry, world, group, dst, per-rank value classes) in which at least two ranks "
        "hold values of different shape, length or key set")
MODELLED = ["payload bytes of torch.empty dummies (a junk parameter in the model; they never surface)",
            "gloo's behaviour on a collective mismatch (hang / SIGABRT) is represented by the transport's CollectiveMismatch"]
ASSUMPTIONS = ["all members hold the same metric / state names with the same state kind (metrics of the same type)",
               "`rank=` of send_tensors/sync_states names a member by its group rank (that is what synclib compares it with and "
               "translates with dist.get_global_rank before handing it to torch)"]
TRUSTED_EXTRA = ["harness/fakedist.py: its rendezvous / validation rules stand in for gloo (cross-checked against real gloo, "
                 "2-4 spawned processes, on one case per distinct model trace in the thorough tier)"]
EXTRA_LEAN_MODULES = ("TE.Driver.Sync",)

# (T) harness/translators/syncskel.py → lean/TE/Gen/SyncSkel.lean; theorems in lean/TE/Props/C15_Skel.lean (and C02_Skel.lean).
from ..translators import syncskel as syncskel_tr  # noqa: E402

TRUSTED_EXTRA = TRUSTED_EXTRA + [
    "harness/translators/syncskel.py (symbolic walk over the AST of every function of synclib.py / toolkit.py that issues a collective: "
    "substitution of locals, inlining of one-line helpers, binding of call arguments to the callee's parameters, one normal form for "
    "list-building loops and comprehensions) producing lean/TE/Gen/SyncSkel.lean; the extracted skeleton is executed as a program next to "
    "the real functions on the fake transport on every run (syncskel crosscheck: collective kinds, dtypes, shapes, roots, groups, values)"]
_SKEL_ROWS: list = []


def translate(rep: Report):
    _SKEL_ROWS[:] = syncskel_tr.generate(rep)


# every dtype the gloo backend of torch.distributed carries (int16 is rejected by gloo itself: "Invalid scalar type";
# the fake transport rejects it the same way, see transport_selftest)
DTYPE_NAMES = ["float32", "float64", "int64", "int32", "uint8", "bool", "float16", "bfloat16", "int8"]

# ------------------------------------------------------------------ the Lean model

_FALLBACK_MAIN = """import TE.Driver.Sync
open TE TE.Driver
def toks (s : String) : List String := (s.trimAscii.toString.splitOn " ").filter (· ≠ "")
def handle (line : String) : String :=
  match toks line with
  | "fn" :: name :: rest =>
    match syncFns.find? (·.1 = name), parseArgs rest with
    | some (_, f), .ok a => (match f a with | .ok s => s!"ok {s}" | .error e => errOut e)
    | none, _ => s!"bad unknown function {name}"
    | _, .error m => s!"bad {m}"
  | _ => "bad"
partial def loop (h : IO.FS.Stream) (out : IO.FS.Stream) : IO Unit := do
  let line ← h.getLine
  if line.isEmpty then return ()
  out.putStrLn (handle line)
  loop h out
def main : IO Unit := do
  let out ← IO.getStdout
  loop (← IO.getStdin) out
  out.flush
"""
_driver_knows_sync = None


def model_run(lines: list[str]) -> list[str]:
    """answers of the Lean sync model; through `tedriver` once it carries `syncFns`, else by interpreting
    TE/Driver/Sync.lean with `lake env lean --run` on a throw-away main."""
    global _driver_knows_sync
    if not lines:
        return []
    if _driver_knows_sync is None:
        try:
            _driver_knows_sync = run_driver(["fn sync.ping"])[0].strip() == "ok pong"
        except Exception:  # noqa: BLE001
            _driver_knows_sync = False
    if _driver_knows_sync:
        return run_driver(lines)
    d = tempfile.mkdtemp(prefix="verif_syncmain_", dir="/tmp")
    try:
        main = os.path.join(d, "SyncMain.lean")
        with open(main, "w") as f:
            f.write(_FALLBACK_MAIN)
        p = subprocess.run(["lake", "env", "lean", "--run", main], cwd=LEAN, input="\n".join(lines) + "\n",
                           capture_output=True, text=True, timeout=900)
        out = p.stdout.split("\n")
        if out and out[-1] == "":
            out.pop()
        if p.returncode != 0 or len(out) != len(lines):
            raise RuntimeError(f"sync model (interpreted) rc={p.returncode} in={len(lines)} out={len(out)} {p.stderr[-300:]}")
        return out
    finally:
        for fn in os.listdir(d):
            os.unlink(os.path.join(d, fn))
        os.rmdir(d)


def parse_answer(line: str) -> dict:
    """`ok status=… t0=… v0=…` -> {'status':…, 't':[…], 'v':[…]}"""
    line = line.strip()
    if not line.startswith("ok "):
        return {"status": "bad:" + line, "t": [], "v": []}
    t, v, status = {}, {}, None
    for tok in line[3:].split(" "):
        k, _, val = tok.partition("=")
        if k == "status":
            status = val
        elif k[0] == "t":
            t[int(k[1:])] = val
        elif k[0] == "v":
            v[int(k[1:])] = val
    return {"status": status, "t": [t[i] for i in sorted(t)], "v": [v[i] for i in sorted(v)]}

# ------------------------------------------------------------------ cases


@dataclass
class Case:
    entry: str                 # "send" | "sync"
    world: int
    group: list                # global ranks of the members (ascending); == range(world) for the world group
    dst: int | None            # the `rank=` argument
    vals: dict                 # global rank -> tensor | {metric: {state: value}}
    tag: str = ""
    intended: int | None = None   # global rank of the member that is meant to receive (None: everybody)

    @property
    def sub(self):
        return self.group != list(range(self.world))

    def describe(self):
        enc = enc_t if self.entry == "send" else enc_collection
        return {"entry": self.entry, "world": self.world, "group": self.group, "dst": self.dst, "intended": self.intended,
                "tag": self.tag, "vals": {str(g): enc(self.vals[g]) for g in self.group}}

    def model_line(self):
        enc = enc_t if self.entry == "send" else enc_collection
        fn = "sync.send_tensors" if self.entry == "send" else "sync.sync_states"
        return (f"fn {fn} world={self.world} group={','.join(map(str, self.group))} dst={'none' if self.dst is None else self.dst} "
                + " ".join(f"r{g}={enc(self.vals[g])}" for g in self.group))


def _syncable_line(self):
    return (f"fn sync.syncable world={self.world} group={','.join(map(str, self.group))} "
            + " ".join(f"r{g}={enc_collection(self.vals[g])}" for g in self.group))


Case.syncable_line = _syncable_line


def case_from(d: dict) -> Case:
    dec = dec_t if d["entry"] == "send" else dec_collection
    return Case(d["entry"], d["world"], list(d["group"]), d["dst"], {int(g): dec(s) for g, s in d["vals"].items()},
                d.get("tag", ""), d.get("intended"))


def run_fake(c: Case, jitter_seed=None, timeout=10.0):
    w = World(c.world, timeout=timeout, jitter_seed=jitter_seed)
    g = w.new_group(c.group) if c.sub else None

    def body(r):
        if c.entry == "send":
            return synclib.send_tensors(c.vals[r], group=g, rank=c.dst)
        st = c.vals[r]
        order = synclib.metrics_traversal_order(st)
        return synclib.sync_states(st, {k: torch.device("cpu") for k in st}, order, process_group=g, rank=c.dst)
    outs = w.run(body, ranks=c.group)
    return outs, [fmt_trace(w.trace[r]) for r in c.group], world_status([outs[r] for r in c.group]), w

# ------------------------------------------------------------------ oracle: what every rank must hold


def same_tensor(a, b) -> bool:
    return (isinstance(a, torch.Tensor) and isinstance(b, torch.Tensor) and a.dtype == b.dtype
            and tuple(a.shape) == tuple(b.shape) and torch.equal(a, b))


def same_state(exp, got) -> bool:
    if isinstance(exp, torch.Tensor):
        return same_tensor(exp, got)
    if isinstance(exp, list):
        return isinstance(got, list) and len(got) == len(exp) and all(same_tensor(x, y) for x, y in zip(exp, got))
    if isinstance(exp, dict):
        return isinstance(got, dict) and set(got) == set(exp) and all(same_tensor(exp[k], got[k]) for k in exp)
    return type(got) is type(exp) and got == exp


def kind_of(v) -> str:
    return "tensor" if isinstance(v, torch.Tensor) else "list" if isinstance(v, list) else "dict" if isinstance(v, dict) else type(v).__name__


def receiver(c: Case, r: int) -> bool:
    return c.intended is None or r == c.intended


def oracle(c: Case, outs, status, traces=None) -> list[tuple[str, str]]:
    """[(signature, what)] — empty iff the property holds on this case."""
    fn = "send_tensors" if c.entry == "send" else "sync_states"
    gclass = "subgroup" if c.sub else "world"
    n = len(c.group)
    bad: list[tuple[str, str]] = []
    if status != "ok":
        errs = {r: outs[r].value for r in c.group if not outs[r].ok}
        r0 = sorted(errs)[0]
        e = errs[r0]
        last = ((traces[c.group.index(r0)] if traces else "") or "-").split(",")[-1]
        if status in ("root-not-in-group", "root-is-not-the-member-meant"):
            # misaddressed root (repaired in synclib by _to_global_rank): an ordinary violation if it ever shows again
            if last.startswith("bo/"):
                site = "_sync_dtype_and_shape"; rel = "src-is-group-relative"
            elif last.startswith("go/"):
                site = "_sync_obj_states"; rel = "dst-is-group-relative"
            else:
                site = "send_tensors"; rel = "dst-is-group-relative"
            bad.append((f"C15|{site}|{gclass}|{rel}", f"{fn} on group {c.group} of a world of {c.world} with rank={c.dst}: {e}"))
        else:
            bad.append((f"C15|{fn}|{gclass}|{c.tag.split(':')[0] or 'case'}|{status}", f"{fn} on group {c.group}/{c.world}, rank={c.dst}: rank {r0}: {e!r}"[:400]))
        return bad
    for r in c.group:
        got = outs[r].value
        if not receiver(c, r):
            if got is not None:
                bad.append((f"C15|{fn}|{gclass}|non-destination-received-data", f"rank {r} is not the destination but received {str(got)[:120]}"))
            continue
        if c.entry == "send":
            exp = [c.vals[g] for g in c.group]
            if not (isinstance(got, list) and len(got) == n and all(same_tensor(x, y) for x, y in zip(exp, got))):
                bad.append((f"C15|send_tensors|{gclass}|differs-from-sent", f"rank {r} received {render_send(got)} for {render_send(exp)}"))
            continue
        if not isinstance(got, list):
            bad.append((f"C15|sync_states|{gclass}|differs-from-sent", f"rank {r} received {str(got)[:120]}"))
            continue
        if len(got) != n:
            surplus_empty = len(got) == c.world and all(all(v == {} for st in row.values() for v in st.values()) for row in got[n:])
            if c.sub and surplus_empty:
                bad.append(("C15|sync_states|subgroup|sized-by-global-world",
                            f"sync_states on group {c.group} of a world of {c.world} returns {len(got)} entries (dist.get_world_size()), "
                            f"the last {len(got) - n} hold only the {{}} placeholder"))
            else:
                bad.append((f"C15|sync_states|{gclass}|wrong-number-of-entries", f"rank {r} received {len(got)} entries for {n} members"))
        for i, g in enumerate(c.group[:len(got)]):
            sent = c.vals[g]
            for m in sent:
                for s in sent[m]:
                    exp = sent[m][s]
                    try:
                        have = got[i][m][s]
                    except Exception:  # noqa: BLE001
                        bad.append((f"C15|sync_states|{gclass}|state-missing", f"rank {r}: entry {i} lacks {m}.{s}"))
                        continue
                    if same_state(exp, have):
                        continue
                    k = kind_of(exp)
                    if k == "list" and exp == [] and have == {} and all(c.vals[x][m][s] == [] for x in c.group):
                        bad.append(("C15|_sync_list_tensor_states|all-ranks-empty|comes-back-as-dict",
                                    f"list state {m}.{s} is [] on every rank and comes back as {{}} (the placeholder dict), not []"))
                    elif k == "dict" and len({tuple(sorted(c.vals[x][m][s])) for x in c.group}) > 1:
                        bad.append(("C15|_sync_dict_tensor_states|unequal-keys|re-keyed-with-local-keys",
                                    f"dict state {m}.{s}: rank {g} sent keys {sorted(exp)} and rank {r} (own keys {sorted(c.vals[r][m][s])}) "
                                    f"holds them as {sorted(have) if isinstance(have, dict) else have}"))
                    else:
                        bad.append((f"C15|sync_states|{k}|differs-from-sent",
                                    f"rank {r}, entry {i}, {m}.{s}: sent {fd.enc_state(exp)}, received {fd.enc_state(have) if not isinstance(have, type(None)) else None}"))
    return bad


# ------------------------------------------------------------------ generators


def mk_tensor(rng: Rng, shape, dtype_name: str, salt: int) -> torch.Tensor:
    n = 1
    for d in shape:
        n *= d
    mod = 2 if dtype_name == "bool" else 97
    vals = [(salt * 31 + i * 7 + 1 + rng.randrange(3)) % mod for i in range(n)]
    return torch.tensor(vals, dtype=torch.float64).to(fd.DTYPES[dtype_name]).reshape(tuple(shape))


def rand_shape(rng: Rng, ndim: int):
    return tuple(rng.choice([0, 1, 2, 3]) for _ in range(ndim))


def subgroups(world: int):
    for k in range(1, world + 1):
        for ms in itertools.combinations(range(world), k):
            if list(ms) != list(range(world)):
                yield list(ms)


def dst_options(rng: Rng, group, world, all_dst: bool):
    """(dst argument, intended global rank) — None plus members named by their group rank."""
    opts = [(None, None)]
    idx = list(range(len(group)))
    if not all_dst and len(idx) > 2:
        idx = sorted(rng.sample(idx, 2))
    opts += [(i, group[i]) for i in idx]
    return opts


def gen_state(rng: Rng, kind: str, group, salt: int, variant: str):
    """per-member values {g: value} of one state of the given kind."""
    out = {}
    if kind == "tensor":
        ndim = rng.choice([0, 1, 1, 2, 2, 3, 4])
        dt = rng.choice(DTYPE_NAMES)
        same = variant == "same"
        sh0 = rand_shape(rng, ndim)
        for g in group:
            out[g] = mk_tensor(rng, sh0 if same else rand_shape(rng, ndim), dt, salt + g)
    elif kind == "list":
        ndim = rng.choice([0, 1, 1, 2, 3])
        dt = rng.choice(DTYPE_NAMES)
        if variant == "all-empty":
            lens = {g: 0 for g in group}
        elif variant == "some-empty":
            lens = {g: rng.choice([0, 1, 2, 3]) for g in group}
            lens[rng.choice(group)] = 0
            if len(group) > 1 and all(v == 0 for v in lens.values()):
                lens[rng.choice(group)] = rng.choice([1, 2])
        elif variant == "none-empty":
            lens = {g: rng.choice([1, 2, 3]) for g in group}
        else:
            lens = {g: rng.choice([0, 1, 2, 3]) for g in group}
        for g in group:
            out[g] = [mk_tensor(rng, rand_shape(rng, ndim), dt, salt + g * 5 + j) for j in range(lens[g])]
    elif kind == "dict":
        ndim = rng.choice([0, 1, 2])
        dt = rng.choice(DTYPE_NAMES)
        keys_all = ["a", "b", "c"]
        if variant == "equal-keys":
            ks = rng.sample(keys_all, rng.randint(0, 3))
            per = {g: list(ks) for g in group}
            for g in group:
                rng.shuffle(per[g])               # insertion order is not part of a key set
        elif variant == "unequal-same-size":
            k = rng.randint(1, 2)
            per = {g: rng.sample(keys_all, k) for g in group}
            if len(group) > 1 and len({tuple(sorted(v)) for v in per.values()}) == 1:
                g0 = group[-1]
                per[g0] = [x for x in keys_all if x not in per[g0]][:k] or per[g0]
        else:
            per = {g: rng.sample(keys_all, rng.randint(0, 3)) for g in group}
        for g in group:
            out[g] = {k: mk_tensor(rng, rand_shape(rng, ndim), dt, salt + g * 3 + ord(k)) for k in per[g]}
    elif kind == "int":
        for g in group:
            out[g] = rng.randint(-5, 40) + g
    else:
        for g in group:
            out[g] = float(rng.randint(-16, 64)) / 8 + g
    return out


STATE_VARIANTS = {"tensor": ["same", "uneven"], "list": ["all-empty", "some-empty", "none-empty", "any"],
                  "dict": ["equal-keys", "unequal-same-size", "any"], "int": ["-"], "float": ["-"]}


def gen_collection(rng: Rng, group, layout):
    """layout: [(metric, state, kind, variant)] -> {g: {metric: {state: value}}}"""
    vals = {g: {} for g in group}
    for j, (m, s, kind, variant) in enumerate(layout):
        col = gen_state(rng, kind, group, 11 * j + 1, variant)
        for g in group:
            vals[g].setdefault(m, {})[s] = col[g]
    # dict insertion order of states/metrics differs per rank on purpose (traversal order must not depend on it)
    for g in group:
        ms = list(vals[g])
        rng.shuffle(ms)
        vals[g] = {m: dict(rng.sample(list(vals[g][m].items()), len(vals[g][m]))) for m in ms}
    return vals


def gen_cases(rng: Rng, tier: str):
    thorough = tier == "thorough"
    worlds = range(1, 9) if thorough else range(1, 7)
    reps = 3 if thorough else 1
    # A. send_tensors: exhaustive shape pairs for two ranks (1-d and 2-d), every dst
    for ndim in (1, 2):
        shapes = list(itertools.product([0, 1, 2, 3], repeat=ndim))
        pairs = list(itertools.product(shapes, shapes))
        if ndim == 2 and not thorough:
            pairs = rng.sample(pairs, 90)
        for sa, sb in pairs:
            dt = rng.choice(DTYPE_NAMES)
            vals = {0: mk_tensor(rng, sa, dt, 1), 1: mk_tensor(rng, sb, dt, 2)}
            d, it_ = rng.choice([(None, None), (0, 0), (1, 1)])
            yield Case("send", 2, [0, 1], d, vals, f"send:exh{ndim}d", it_)
    # A'. send_tensors: every world size, ndim 0..4, every dtype, None and every dst
    for n in worlds:
        group = list(range(n))
        for ndim in range(0, 5):
            for rep_i in range(2 * reps):
                dt = DTYPE_NAMES[(n + ndim + rep_i * 3) % len(DTYPE_NAMES)]
                same = rep_i % 2 == 1 and ndim > 0
                sh0 = rand_shape(rng, ndim)
                vals = {g: mk_tensor(rng, sh0 if same else rand_shape(rng, ndim), dt, g) for g in group}
                for d, it_ in dst_options(rng, group, n, all_dst=(n <= 4 and rep_i == 0)):
                    yield Case("send", n, group, d, vals, f"send:n{n}:nd{ndim}", it_)
    # B. sync_states, one state per kind and variant, every world size
    for n in worlds:
        group = list(range(n))
        for kind, variants in STATE_VARIANTS.items():
            for variant in variants:
                for rep_i in range(2 * reps if kind in ("list", "dict") else reps):
                    vals = gen_collection(rng, group, [("m", "s", kind, variant)])
                    for d, it_ in dst_options(rng, group, n, all_dst=(n <= 3)):
                        yield Case("sync", n, group, d, vals, f"sync:{kind}:{variant}", it_)
    # B'. list lengths exhaustively for ≤ 3 ranks
    for n in (2, 3):
        group = list(range(n))
        for lens in itertools.product([0, 1, 2, 3], repeat=n):
            if n == 3 and not thorough and rng.random() < 0.5:
                continue
            ndim = rng.choice([0, 1, 2])
            dt = rng.choice(DTYPE_NAMES)
            vals = {g: {"m": {"l": [mk_tensor(rng, rand_shape(rng, ndim), dt, g * 4 + j) for j in range(lens[g])]}} for g in group}
            yield Case("sync", n, group, None, vals, "sync:list:exh-lengths", None)
    # B''. mixed collections of metrics
    kinds = list(STATE_VARIANTS)
    for n in worlds:
        group = list(range(n))
        for rep_i in range(6 * reps):
            layout = []
            for m in rng.sample(["acc", "bag", "zeta"], rng.randint(1, 3)):
                for s in rng.sample(["x", "y", "n", "w"], rng.randint(1, 3)):
                    k = rng.choice(kinds)
                    v = rng.choice(STATE_VARIANTS[k])
                    if k == "dict" and v != "equal-keys" and rng.random() < 0.7:
                        v = "equal-keys"
                    layout.append((m, s, k, v))
            vals = gen_collection(rng, group, layout)
            for d, it_ in dst_options(rng, group, n, all_dst=False)[: (3 if n <= 4 else 2)]:
                yield Case("sync", n, group, d, vals, "sync:mixed", it_)
    # C. every proper sub-group of worlds ≤ 4
    for world in (2, 3, 4):
        for group in subgroups(world):
            n = len(group)
            for rep_i in range(reps):
                dt = rng.choice(DTYPE_NAMES)
                ndim = rng.choice([1, 2])
                tv = {g: mk_tensor(rng, rand_shape(rng, ndim), dt, g) for g in group}
                for d, it_ in dst_options(rng, group, world, all_dst=True):
                    yield Case("send", world, group, d, tv, "send:subgroup", it_)
                for kind, variant in (("tensor", "uneven"), ("list", "some-empty"), ("list", "none-empty"), ("list", "all-empty"),
                                      ("dict", "equal-keys"), ("int", "-"), ("float", "-")):
                    vals = gen_collection(rng, group, [("m", "s", kind, variant)])
                    for d, it_ in dst_options(rng, group, world, all_dst=True):      # None and every member
                        yield Case("sync", world, group, d, vals, f"sync:subgroup:{kind}:{variant}", it_)
            if n >= 2:
                # each single member empty in turn: who broadcasts dtype/shape depends on it
                for empty in group:
                    vals = {g: {"m": {"l": ([] if g == empty else [mk_tensor(rng, (2,), "float32", g)])}} for g in group}
                    for d, it_ in dst_options(rng, group, world, all_dst=True):
                        yield Case("sync", world, group, d, vals, "sync:subgroup:list:one-empty", it_)


def nontrivial(c: Case) -> bool:
    """at least two ranks hold values of different shape / length / key set."""
    def cls(v):
        return list(v.shape) if c.entry == "send" else _shape_class(v)
    return len({json.dumps(cls(c.vals[g]), sort_keys=True, default=str) for g in c.group}) > 1


def _shape_class(coll):
    out = {}
    for m in coll:
        for s, v in coll[m].items():
            if isinstance(v, torch.Tensor):
                out[f"{m}.{s}"] = list(v.shape)
            elif isinstance(v, list):
                out[f"{m}.{s}"] = [list(x.shape) for x in v]
            elif isinstance(v, dict):
                out[f"{m}.{s}"] = {k: list(v[k].shape) for k in sorted(v)}
            else:
                out[f"{m}.{s}"] = "num"
    return out

# ------------------------------------------------------------------ evaluation


def real_values(c: Case, outs):
    rnd = render_send if c.entry == "send" else render_sync
    return [rnd(outs[r].value) for r in c.group]


def evaluate(rep: Report, cases: list[Case], stream: str, jitter: bool):
    if not cases:
        return
    raw = model_run([c.model_line() for c in cases] + [c.syncable_line() for c in cases if c.entry == "sync"])
    answers = [parse_answer(a) for a in raw[:len(cases)]]
    syncable = dict(zip([i for i, c in enumerate(cases) if c.entry == "sync"], [a.strip() for a in raw[len(cases):]]))
    ndis = 0
    for idx, (c, ans) in enumerate(zip(cases, answers)):
        js = (rep.seed * 7919 + idx) if (jitter and idx % 5 == 0) else None
        outs, traces, status, _w = run_fake(c, jitter_seed=js)
        if True:
            rep.count(f"entry:{c.entry}"); rep.count(f"world:{c.world}"); rep.count(f"group:{'sub' if c.sub else 'world'}")
            rep.count(f"dst:{'none' if c.dst is None else 'member'}"); rep.count(f"tag:{c.tag.split(':')[1] if ':' in c.tag else c.tag}")
            rep.count(f"status:{status}")
            if js is not None:
                rep.count("arrival-jitter")
            key = json.dumps(c.describe(), sort_keys=True) if nontrivial(c) else None
            rep.case(nontrivial_key=key, sample={"request": c.model_line()[:300], "model": ans["status"], "trace0": traces[0]}
                     if rep.evaluations % 499 == 0 else None)
            bad = oracle(c, outs, status, traces)
            seen = set()
            for sig, what in bad:
                if sig in seen:
                    continue
                seen.add(sig)
                rep.count("violation:" + sig)
                rep.violation(sig, what, {"kind": "sync-case", "case": c.describe(), "jitter_seed": js, "status": status, "traces": traces,
                                          "received": real_values(c, outs) if status == "ok" else None})
            # the hypothesis of the theorems (`Syncable`, decided by the model's checker): where it holds the real code
            # must complete and deliver exactly what was sent (TE.C15.syncable_checker_sound, checked against the code)
            if idx in syncable:
                sy = syncable[idx]
                rep.count("syncable:" + sy.replace("ok ", ""))
                if sy not in ("ok true", "ok false"):
                    rep.broke("driver:sync.syncable", f"unexpected answer {sy!r}", {"request": c.syncable_line()})
                elif sy == "ok true" and (status != "ok" or bad):
                    rep.broke("theorem-hypothesis:Syncable", f"the case satisfies Syncable but the real code gives {status} / {bad[:1]}"[:500],
                              {"case": c.describe()})
            # correspondence with the Lean model: outcome, per-rank trace, per-rank value
            rep.traces += 1
            msg = None
            if ans["status"] != status:
                msg = f"outcome: real {status}, model {ans['status']}"
            elif ans["t"] != traces:
                msg = f"collective traces: real {traces}, model {ans['t']}"
            elif status == "ok" and ans["v"] != real_values(c, outs):
                msg = f"values: real {real_values(c, outs)}, model {ans['v']}"
            if msg:
                ndis += 1
                if ndis <= 25:
                    rep.broke(f"correspondence:sync-model:{stream}", f"model and implementation disagree: {msg}"[:600],
                              {"case": c.describe(), "request": c.model_line()})
    rep.streams[stream] = {"cases": len(cases), "disagreements": ndis}


def transport_selftest(rep: Report):
    """the fake transport itself: it must detect what gloo would turn into a hang, and never hang."""
    import torch.distributed as dist
    problems = []
    # a member that skips a collective
    w = World(3, timeout=3.0)
    def f(r):
        t = torch.zeros(2)
        if r != 1:
            dist.all_gather([torch.zeros(2) for _ in range(3)], t)
        return r
    outs = w.run(f)
    if world_status(outs) != "peer-finished":
        problems.append(f"skipped collective: {outs}")
    # different shapes
    w = World(2, timeout=3.0)
    outs = w.run(lambda r: dist.all_gather([torch.zeros(r + 1) for _ in range(2)], torch.zeros(r + 1)))
    if world_status(outs) != "dtype-shape-differs":
        problems.append(f"shape mismatch: {outs}")
    # different collectives
    w = World(2, timeout=3.0)
    def g(r):
        if r == 0:
            dist.all_gather_object([None, None], 1)
        else:
            dist.all_gather([torch.zeros(1), torch.zeros(1)], torch.zeros(1))
    if world_status(w.run(g)) != "different-collectives":
        problems.append("different collectives not detected")
    # a member that is late beyond the timeout: TransportTimeout, not a hang
    w = World(2, timeout=0.4)
    def h(r):
        if r == 1:
            time.sleep(1.2)
        dist.all_gather_object([None, None], r)
    t0 = time.time()
    outs = w.run(h)
    if not any(isinstance(o.value, fd.TransportTimeout) for o in outs if not o.ok) or time.time() - t0 > 6:
        problems.append(f"timeout: {outs} after {time.time() - t0:.1f}s")
    # global-rank addressing
    w = World(3, timeout=3.0); grp = w.new_group([1, 2])
    def k(r):
        lst = [None]
        dist.broadcast_object_list(lst if r != 2 else ["payload"], src=1, group=grp)
    if world_status(w.run(k, ranks=[1, 2])) != "root-is-not-the-member-meant":
        problems.append("misaddressed broadcast not detected")
    # a dtype gloo does not carry
    w = World(2, timeout=3.0)
    outs = w.run(lambda r: synclib.send_tensors(torch.ones(r + 1, dtype=torch.int16)))
    if not all((not o.ok) and isinstance(o.value, RuntimeError) and "Invalid scalar type" in str(o.value) for o in outs):
        problems.append(f"int16 accepted: {outs}")
    # group rank -> global rank translation, as synclib's _to_global_rank uses it
    w = World(4, timeout=3.0); grp = w.new_group([3, 1])
    outs = w.run(lambda r: (dist.get_global_rank(grp, 0), dist.get_global_rank(grp, 1), dist.get_rank(grp), dist.get_world_size(grp)), ranks=[3, 1])
    if [outs[3].value, outs[1].value] != [(3, 1, 0, 2), (3, 1, 1, 2)]:
        problems.append(f"get_global_rank: {outs}")
    rep.streams["transport-selftest"] = {"checks": 7, "problems": problems}
    for p in problems:
        rep.broke("fakedist:selftest", p[:400], {})


def gloo_validation(rep: Report, cases: list[Case], cap_ok=36, cap_fail=10):
    """one case per distinct model trace on REAL gloo: fake ok ⇒ gloo delivers the same values on every rank;
    fake mismatch ⇒ some gloo rank raises / aborts / hangs."""
    from .. import gloo_run
    answers = [parse_answer(a) for a in model_run([c.model_line() for c in cases])]
    by_trace = {}
    for c, a in zip(cases, answers):
        if 2 <= c.world <= 4:
            by_trace.setdefault((c.entry, c.world, tuple(c.group), a["status"], tuple(a["t"])), c)
    strata = list(by_trace.items())
    ok_cases = [c for (k, c) in strata if k[3] == "ok"]
    bad_cases = [c for (k, c) in strata if k[3] != "ok"]
    step = max(1, len(ok_cases) // cap_ok)
    all_ok = ok_cases
    ok_cases = ok_cases[::step][:cap_ok]
    # sub-group addressing (dst translated to a global rank, dtype/shape broadcast from a member of a sub-group,
    # all-empty lists): always part of the sample, one per (entry, world, group, dst-kind, tag)
    must, seen_must = [], set()
    for c in all_ok:
        if c.sub and len(c.group) >= 2 and (c.dst is not None or "list" in c.tag):
            k = (c.entry, c.world, tuple(c.group), c.dst is not None, c.tag)
            if k not in seen_must and not any(c is x for x in ok_cases):
                seen_must.add(k)
                must.append(c)
    ok_cases = ok_cases + must[:24]
    rep.count("gloo:subgroup-addressing-cases", len([c for c in ok_cases if c.sub and len(c.group) >= 2 and c.dst is not None]))
    # spread the failing strata over the distinct outcomes
    picked, seen = [], {}
    for (k, c) in strata:
        if k[3] != "ok" and seen.get(k[3], 0) < max(2, cap_fail // 4):
            seen[k[3]] = seen.get(k[3], 0) + 1
            picked.append(c)
    bad_cases = picked[:cap_fail]

    def job_of(c: Case):
        j = {"kind": "send_tensors" if c.entry == "send" else "sync_states", "group": c.group if c.sub else None, "dst": c.dst,
             "render": "harness.fakedist:render_send" if c.entry == "send" else "harness.fakedist:render_sync"}
        key = "tensors" if c.entry == "send" else "states"
        j[key] = [c.vals.get(g) for g in range(c.world)]
        return j
    launches = []
    for world in (2, 3, 4):
        batch = [c for c in ok_cases if c.world == world]
        for i in range(0, len(batch), 12):
            launches.append((world, batch[i:i + 12]))
    for c in bad_cases:
        launches.append((c.world, [c]))
    t0 = time.time()
    results = gloo_run.run_launches([(w, [job_of(c) for c in b]) for w, b in launches],
                                    lambda job, world: job["group"] if job["group"] is not None else list(range(world)))
    nval = ndis = 0
    for (world, batch), row in zip(launches, results):
        for c, (res, j) in zip(batch, row):
            outs, _tr, status, _w = run_fake(c)
            gstat = gloo_run.job_status(res, j, c.group)
            nval += 1
            rep.count(f"gloo:{'ok' if status == 'ok' else 'mismatch'}")
            msg = None
            if status == "ok":
                if gstat != "ok":
                    msg = f"fake transport: ok; real gloo: {[res['results'][r][j] if res['results'][r] and j < len(res['results'][r]) else None for r in c.group]} exit={res['exit']}"
                else:
                    fake_vals = real_values(c, outs)
                    gloo_vals = [res["results"][r][j][1] for r in c.group]
                    if fake_vals != gloo_vals:
                        msg = f"values differ: fake {fake_vals} gloo {gloo_vals}"
            elif gstat == "ok":
                msg = f"fake transport reports {status} but every real gloo rank returned {[res['results'][r][j] for r in c.group]}"
            if msg:
                ndis += 1
                rep.broke("fakedist-vs-gloo", msg[:600], {"case": c.describe()})
    rep.streams["gloo-validation"] = {"strata": len(strata), "validated": nval, "disagreements": ndis, "launches": len(launches),
                                     "wall_s": round(time.time() - t0, 1)}
    rep.notes.append(f"real gloo: {nval} cases (one per distinct model trace, {len(strata)} strata seen), {ndis} disagreements with the fake transport")


def skel_run(c: Case, it, timeout=10.0):
    """the EXTRACTED skeleton of the entry point, run as a program for every member on a fresh fake world"""
    w = World(c.world, timeout=timeout)
    g = w.new_group(c.group) if c.sub else None

    def body(r):
        if c.entry == "send":
            return it.call("send_tensors", [c.vals[r], g, c.dst])
        st = c.vals[r]
        order = it.call("metrics_traversal_order", [st])
        return it.call("sync_states", [st, {k: torch.device("cpu") for k in st}, order, g, c.dst])
    outs = w.run(body, ranks=c.group)
    return outs, world_status([outs[r] for r in c.group]), w


def skel_crosscheck(rep: Report, cases: list[Case], cap: int = 90):
    """generated skeleton vs the source: a sample of real runs that complete (world sizes 2–4, sub-groups, destination None and
    a member, every state kind and variant) — the skeleton's interpreter must issue, on every member, the same collectives
    (kind, dtype, shape, root, group) in the same order as the real function, and return the same values."""
    rows = _SKEL_ROWS or syncskel_tr.extract()
    un = [r["name"] for r in rows if r["untranslated"]]
    it = syncskel_tr.Interp(rows)
    picked, seen = [], set()
    for c in cases:
        if not (2 <= len(c.group) <= 4) or c.world > 4:
            continue
        key = (c.entry, c.tag, len(c.group), c.sub, c.dst is None)
        if key in seen:
            continue
        seen.add(key)
        picked.append(c)
    # round-robin over (destination named?, sub-group?, entry) so that every stratum is represented
    buckets: dict = {}
    for c in picked:
        buckets.setdefault((c.dst is None, c.sub, c.entry), []).append(c)
    picked = []
    while len(picked) < cap and any(buckets.values()):
        for k in sorted(buckets):
            if buckets[k] and len(picked) < cap:
                picked.append(buckets[k].pop(0))
    st = {"cases": 0, "compared": 0, "disagreements": 0, "untranslated": un}
    for c in picked:
        fn = "send_tensors" if c.entry == "send" else "sync_states"
        outs, _traces, status, w = run_fake(c)
        st["cases"] += 1
        if status != "ok":
            continue                                   # outside Syncable: the model's witnesses cover those
        try:
            outs2, status2, w2 = skel_run(c, it)
        except Exception as e:  # noqa: BLE001
            st["disagreements"] += 1
            rep.broke(f"syncskel:{fn}", f"the skeleton interpreter failed: {e!r}"[:400], {"case": c.describe()})
            continue
        st["compared"] += 1
        rep.traces += 1
        rep.count("syncskel-crosscheck:" + fn)
        msg = None
        t1, t2 = syncskel_tr.traces_of(w, c.group), syncskel_tr.traces_of(w2, c.group)
        if status2 != "ok":
            errs = [outs2[r].value for r in c.group if not outs2[r].ok]
            msg = f"the real function completes, the skeleton gives {status2}: {errs[:1]!r}"
        elif t1 != t2:
            r = next(i for i in range(len(c.group)) if t1[i] != t2[i])
            msg = f"collectives of group rank {r}: real {t1[r]}, skeleton {t2[r]}"
        elif real_values(c, outs) != real_values(c, outs2):
            msg = f"values: real {real_values(c, outs)}, skeleton {real_values(c, outs2)}"
        if msg:
            st["disagreements"] += 1
            if st["disagreements"] <= 10:
                rep.broke(f"syncskel:{fn}", f"generated skeleton and source disagree on {c.tag} (group {c.group} of {c.world}, rank={c.dst}): {msg}"[:700],
                          {"case": c.describe()})
    rep.streams["syncskel-crosscheck"] = st


def run(rep: Report):
    rng = Rng(rep.seed * 1000003 + 15)
    from .. import opscheck; opscheck.check_ops(rep, ["sync"])
    transport_selftest(rep)
    cases = list(gen_cases(rng, rep.tier))
    skel_crosscheck(rep, cases)
    deadline = time.time() + budget(rep.tier, 70, 600)
    chunk = 400
    done = 0
    for i in range(0, len(cases), chunk):
        if time.time() > deadline:
            rep.notes.append(f"budget exhausted after {done} of {len(cases)} cases")
            break
        evaluate(rep, cases[i:i + chunk], "all" if i == 0 else f"all+{i}", jitter=True)
        done += len(cases[i:i + chunk])
    rep.streams = {"cases": {"generated": len(cases), "evaluated": done,
                             "disagreements": sum(v.get("disagreements", 0) for k, v in rep.streams.items() if k.startswith("all"))},
                   **{k: v for k, v in rep.streams.items() if not k.startswith("all")}}
    if rep.tier == "thorough":
        gloo_validation(rep, cases)


def search(rep: Report):
    """a proof obligation or the correspondence broke: enlarged space, oracle only."""
    rng = Rng(rep.seed * 31 + 1515)
    deadline = time.time() + 120
    for c in gen_cases(rng, "thorough"):
        if time.time() > deadline:
            return
        outs, traces, status, _w = run_fake(c)
        bad = oracle(c, outs, status, traces)
        for sig, what in bad:
            rep.violation(sig, what, {"kind": "sync-case", "case": c.describe(), "jitter_seed": None, "status": status, "traces": traces})


def _nothing(reason):
    raise ValueError(f"nothing to replay: {reason}")


def replay(payload) -> bool:
    """True iff the property holds on the recorded case: entry point, world, group, destination and every member's value
    (tensors with dtype and shape, lists, dicts in their insertion order, ints, floats) are rebuilt from the description, the
    real synclib runs on the fake transport (same arrival jitter seed as recorded) and `oracle` — the oracle of the sweep — decides."""
    if not isinstance(payload, dict) or payload.get("kind", "failing-input") != "failing-input":
        _nothing(f"payload kind {payload.get('kind') if isinstance(payload, dict) else None!r} carries no concrete input")
    rp = payload.get("replay")
    if not isinstance(rp, dict) or not rp:
        _nothing("the payload carries no replay dict")
    if rp.get("kind", "sync-case") != "sync-case":
        _nothing(f"replay kind {rp.get('kind')!r} is not a send_tensors / sync_states case")
    d = rp.get("case")
    if not isinstance(d, dict) or d.get("entry") not in ("send", "sync") or not isinstance(d.get("vals"), dict) \
            or not all(k in d for k in ("world", "group", "dst")):
        _nothing("the payload carries no case description (entry, world, group, dst, per-member values)")
    try:
        c = case_from(d)
    except (KeyError, ValueError, IndexError) as e:
        _nothing(f"the recorded values cannot be decoded ({e!r})")
    if sorted(c.vals) != sorted(c.group):
        _nothing("the recorded values do not cover the members of the group")
    outs, traces, status, _w = run_fake(c, jitter_seed=rp.get("jitter_seed"))
    bad = oracle(c, outs, status, traces)
    for sig, what in bad:
        print(f"replay: {sig}: {what}"[:500])
    return not bad
