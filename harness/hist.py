"""Single-object operation histories (update / merge with freshly built sources / reset /
compute) used by the relational checks C09, C10, C11, C14."""
from __future__ import annotations
from .common import Rng
from .registry import Spec, Batch, new_metric
from .engine import observe, try_update, try_merge


def random_ops(rng: Rng, spec: Spec, cfg: dict, n: int, allow_reset=True, allow_merge=True):
    ops = []
    for _ in range(n):
        r = rng.random()
        if r < 0.62:
            ops.append(("u", spec.gen(rng, cfg, rng.choice(spec.sizes))))
        elif r < 0.80 and allow_merge:
            k = rng.randint(1, 2)
            ops.append(("m", [[spec.gen(rng, cfg, rng.choice(spec.sizes)) for _ in range(rng.randint(0, 2))] for _ in range(k)]))
        elif r < 0.88 and allow_reset:
            ops.append(("r",))
        else:
            ops.append(("o",))
    return ops


def f64_ops(ops, salt: int = 1):
    """the same history with every batch in float64, off the float32 grid (registry.f64_variant)."""
    from .registry import f64_variant
    out = []
    for op in ops:
        if op[0] == "u":
            out.append(("u", f64_variant(op[1], salt)))
        elif op[0] == "m":
            out.append(("m", [[f64_variant(b, salt) for b in bl] for bl in op[1]]))
        else:
            out.append(op)
    return out


def grad_ops(ops):
    """the same history with every floating argument attached to an autograd graph (registry.grad_variant)."""
    from .registry import grad_variant
    out = []
    for op in ops:
        if op[0] == "u":
            out.append(("u", grad_variant(op[1])))
        elif op[0] == "m":
            out.append(("m", [[grad_variant(b) for b in bl] for bl in op[1]]))
        else:
            out.append(op)
    return out


def build_sources(spec: Spec, cfg: dict, lists):
    srcs = []
    for bl in lists:
        s = new_metric(spec, cfg)
        for b in bl:
            b.apply(s)
        srcs.append(s)
    return srcs


def apply_op(m, op, spec: Spec, cfg: dict):
    """returns an observation tuple comparable across objects."""
    if op[0] == "u":
        e = try_update(m, op[1])
        return ("u", None if e is None else e[0])
    if op[0] == "m":
        e = try_merge(m, build_sources(spec, cfg, op[1]))
        return ("m", None if e is None else e[0])
    if op[0] == "r":
        m.reset()
        return ("r", None)
    return ("o", observe(m))


def describe_ops(ops):
    out = []
    for op in ops:
        if op[0] == "u":
            out.append(["u", op[1].describe()])
        elif op[0] == "m":
            out.append(["m", [[b.describe() for b in bl] for bl in op[1]]])
        else:
            out.append([op[0]])
    return out


def same_step(a, b, tol):
    from .engine import same_obs
    if a[0] != b[0]:
        return False
    if a[0] == "o":
        return same_obs(a[1], b[1], tol)
    return a[1] == b[1]
