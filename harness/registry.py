"""Registry of every exported metric class: constructor configurations, grid-valued
batch generators, functional twin, how batches concatenate, accumulator kind.

A *batch* is `Batch(args=(...), kwargs={...})` of update() arguments.  Tensor
arguments listed in `cat` can be concatenated along the given dim (C03/C12).
Values are grid-valued (multiples of 1/8 …) so float32 sums are exact and
real-vs-real comparisons do not depend on summation order.
"""
from __future__ import annotations
import copy
from dataclasses import dataclass, field
from fractions import Fraction as Fr
from typing import Any, Callable
import torch
from .common import G5, Rng, ft, it
import torcheval.metrics as M
import torcheval.metrics.functional as F
from torcheval.metrics.statistical import Wasserstein1D

L3 = [Fr(0), Fr(1, 2), Fr(1)]
G8 = [Fr(i, 8) for i in range(-8, 17)]
W4 = [Fr(1, 2), Fr(1), Fr(2), Fr(3)]


@dataclass
class Batch:
    args: tuple
    kwargs: dict = field(default_factory=dict)

    def apply(self, m):
        return m.update(*self.args, **self.kwargs)

    def tensors(self):
        return [a for a in list(self.args) + list(self.kwargs.values()) if isinstance(a, torch.Tensor)]

    def describe(self):
        def d(a):
            if isinstance(a, torch.Tensor):
                r = {"shape": list(a.shape), "dtype": str(a.dtype).replace("torch.", ""), "data": a.detach().tolist()}
                if a.requires_grad and a.grad_fn is not None:
                    r["grad"] = "non-leaf"       # attached to an autograd graph (registry.grad_variant)
                return r
            return copy.deepcopy(a)      # a picture of the argument NOW (the callee may rewrite the caller's list later)
        return {"args": [d(a) for a in self.args], "kwargs": {k: d(v) for k, v in self.kwargs.items()}}

    @classmethod
    def from_describe(cls, d: dict) -> "Batch":
        """exact inverse of `describe()` (also after a JSON round trip): tensors come back with their dtype and shape,
        python scalars / strings / (nested) lists as they are."""
        def u(a):
            if isinstance(a, dict) and {"shape", "dtype", "data"} <= set(a):
                t = torch.tensor(a["data"], dtype=getattr(torch, a["dtype"])).reshape(tuple(a["shape"]))
                return t.requires_grad_(True) * 1.0 if a.get("grad") == "non-leaf" else t
            return a
        return cls(tuple(u(a) for a in d["args"]), {k: u(v) for k, v in (d.get("kwargs") or {}).items()})


@dataclass
class Spec:
    name: str
    ctor: Callable[..., Any]
    configs: list[dict]
    gen: Callable[[Rng, dict, int], Batch]           # (rng, cfg, n_samples) -> Batch
    kind: str = "multiset"          # multiset | ordered | window | throughput | retrieval | minmax
    cat: dict | None = None         # arg position/name -> concat dim (None: not concatenable)
    functional: Callable | None = None     # (cfg, Batch) -> real functional result
    model: str | None = None        # Lean class-model name (driver `prog`)
    family: str = ""
    tol: float = 1e-5
    min_samples: int = 1
    sizes: tuple = (1, 2, 3, 7)
    per_sample: bool = False        # compute() returns one value per sample (ordered)
    count_states: tuple = ()        # registered states that are sample counts/sums (C19)
    scalar_expand: dict | None = None   # positional arg that may be a python scalar (or absent = 1.0) -> arg whose shape it broadcasts to

    def make(self, cfg):
        return self.ctor(**cfg)


def cat_batches(spec: Spec, bs: list[Batch]) -> Batch | None:
    """one batch holding all samples of `bs` in order (None when not concatenable)."""
    if spec.cat is None or not bs:
        return None
    if spec.scalar_expand:
        # a scalar weight (or an omitted one, = 1.0) that differs between the batches is spelled out per sample, which is
        # what "the same data in one call" means for the functional form
        for idx, ref in spec.scalar_expand.items():
            vals = [(b.args[idx] if len(b.args) > idx else 1.0) for b in bs]
            if all(isinstance(v, torch.Tensor) for v in vals):
                continue
            if all(not isinstance(v, torch.Tensor) for v in vals) and len({float(v) for v in vals}) == 1 and len({len(b.args) for b in bs}) == 1:
                continue
            nbs = []
            for b, v in zip(bs, vals):
                r = b.args[ref]
                w = v if isinstance(v, torch.Tensor) else torch.full(r.shape, float(v), dtype=torch.float32)
                a = list(b.args[:idx]) + [w]
                nbs.append(Batch(tuple(a), dict(b.kwargs)))
            bs = nbs
    b0 = bs[0]
    args = []
    for i, a in enumerate(b0.args):
        if isinstance(a, torch.Tensor):
            if i not in spec.cat:
                return None
            args.append(torch.cat([b.args[i] for b in bs], dim=spec.cat[i]))
        elif isinstance(a, list):
            out = []
            for b in bs:
                out += b.args[i]
            args.append(out)
        else:
            if any(b.args[i] != a for b in bs):
                return None
            args.append(a)
    kwargs = {}
    for k, a in b0.kwargs.items():
        if isinstance(a, torch.Tensor):
            if k not in spec.cat:
                return None
            kwargs[k] = torch.cat([b.kwargs[k] for b in bs], dim=spec.cat[k])
        else:
            if any(b.kwargs.get(k) != a for b in bs):
                return None
            kwargs[k] = a
    return Batch(tuple(args), kwargs)


# ------------------------------------------------------------------ generators

def g_binary(rng, cfg, n, grid=G5):
    return Batch((ft(rng.grid(n, grid)), it([rng.choice([0, 1]) for _ in range(n)])))


def g_binary_float_target(rng, cfg, n):
    return Batch((ft(rng.grid(n)), ft([rng.choice([0, 1]) for _ in range(n)])))


def _v(rng, cfg):
    """per-stream variant selector in [0,1): chosen once per stream so batches stay concatenable."""
    if "_v" not in cfg:
        cfg["_v"] = rng.random()
    return cfg["_v"]


def g_binary_tasks(rng, cfg, n):
    t = cfg.get("num_tasks", 1)
    if t == 1:
        return g_binary(rng, cfg, n)
    return Batch((ft(rng.grid(t * n), shape=(t, n)), it([rng.choice([0, 1]) for _ in range(t * n)], shape=(t, n))))


def g_binary_tasks_w(rng, cfg, n):
    b = g_binary_tasks(rng, cfg, n)
    if _v(rng, cfg) < 0.5:
        shape = b.args[0].shape
        return Batch((b.args[0], b.args[1], ft(rng.grid(b.args[0].numel(), W4), shape=tuple(shape))))
    return b


def g_multiclass(rng, cfg, n):
    C = cfg.get("num_classes") or 3
    lab = it([rng.randrange(C) for _ in range(n)])
    if cfg.get("k", 1) > 1 or _v(rng, cfg) < 0.6:
        return Batch((ft(rng.grid(n * C, L3), shape=(n, C)), lab))
    return Batch((it([rng.randrange(C) for _ in range(n)]), lab))


def g_multiclass_logits(rng, cfg, n):
    C = cfg.get("num_classes") or 3
    return Batch((ft(rng.grid(n * C, G5), shape=(n, C)), it([rng.randrange(C) for _ in range(n)])))


def g_multilabel(rng, cfg, n):
    L = cfg.get("num_labels", 3)
    return Batch((ft(rng.grid(n * L), shape=(n, L)), it([rng.choice([0, 1]) for _ in range(n * L)], shape=(n, L))))


def g_multilabel_distinct(rng, cfg, n):
    L = 4
    rows = []
    for _ in range(n):
        rows += rng.sample([Fr(i, 16) for i in range(16)], L)
    return Batch((ft(rows, shape=(n, L)), it([rng.choice([0, 1]) for _ in range(n * L)], shape=(n, L))))


def g_values(rng, cfg, n):
    return Batch((ft(rng.grid(n, G8), dtype=torch.float32),))


def g_values_w(rng, cfg, n):
    x = ft(rng.grid(n, G8))
    r = _v(rng, cfg)
    if r < 0.4:
        return Batch((x,), {"weight": ft(rng.grid(n, W4))})
    if r < 0.6:
        return Batch((x,), {"weight": float(rng.choice(W4))})
    return Batch((x,))


def g_cat(rng, cfg, n):
    if cfg.get("dim", 0) == 0:
        return Batch((ft(rng.grid(n * 2, G8), shape=(n, 2)),))
    return Batch((ft(rng.grid(n * 2, G8), shape=(2, n)),))


def g_auc(rng, cfg, n):
    # tie-free x per task row across the whole stream: with tied x the trapezoid over a
    # stably sorted sequence depends on arrival order by design (the curve is multi-valued there)
    t = cfg.get("n_tasks", 1)
    pools = cfg.setdefault("_pools", [[] for _ in range(t)])
    xs = []
    for r in range(t):
        if len(pools[r]) < n:
            pools[r].extend(rng.sample([Fr(i, 64) for i in range(256)], 256))
        xs += [pools[r].pop() for _ in range(n)]
    if t == 1:
        return Batch((ft(xs), ft(rng.grid(n, G5))))
    return Batch((ft(xs, shape=(t, n)), ft(rng.grid(t * n, G5), shape=(t, n))))


def g_cov(rng, cfg, n):
    return Batch((ft(rng.grid(n * 2, G8), shape=(n, 2)),))


def g_throughput(rng, cfg, n):
    return Batch((rng.randint(1, 64), float(rng.choice([Fr(1, 2), Fr(1), Fr(2), Fr(5, 2), Fr(4)]))))


def g_regression(rng, cfg, n):
    d = cfg.get("_d", 1)
    if d == 1:
        x, y = ft(rng.grid(n, G8)), ft(rng.grid(n, G8))
    else:
        x, y = ft(rng.grid(n * d, G8), shape=(n, d)), ft(rng.grid(n * d, G8), shape=(n, d))
    return Batch((x, y))


def g_mse(rng, cfg, n):
    b = g_regression(rng, cfg, n)
    if _v(rng, cfg) < 0.4:
        return Batch(b.args, {"sample_weight": ft(rng.grid(n, W4))})
    return b


def g_rank(rng, cfg, n):
    C = 4
    return Batch((ft(rng.grid(n * C, L3 if _v(rng, cfg) < 0.5 else G5), shape=(n, C)), it([rng.randrange(C) for _ in range(n)])))


def g_retrieval(rng, cfg, n):
    # tie-free scores (torch.topk tie order is unspecified): distinct multiples of 1/64 across the whole stream
    pool = cfg.setdefault("_pool", [])
    if len(pool) < n:
        pool.extend(rng.sample([Fr(i, 256) for i in range(256)], 256))
    xs = [pool.pop() for _ in range(n)]
    ys = [rng.choice([0, 0, 1]) for _ in range(n)]
    q = cfg.get("num_queries", 1)
    if q == 1:
        return Batch((ft(xs), it(ys)))
    return Batch((ft(xs), it(ys), it([rng.randrange(q) for _ in range(n)])))


def g_ctr(rng, cfg, n):
    t = cfg.get("num_tasks", 1)
    shape = (n,) if t == 1 else (t, n)
    x = it([rng.choice([0, 1]) for _ in range(t * n)], shape=shape)
    r = _v(rng, cfg)
    if r < 0.4:
        return Batch((x, ft(rng.grid(t * n, W4), shape=shape)))
    if r < 0.6:
        return Batch((x, float(rng.choice(W4))))      # a scalar weight that differs from update to update
    return Batch((x,))


def g_wc(rng, cfg, n):
    t = cfg.get("num_tasks", 1)
    shape = (n,) if t == 1 else (t, n)
    x = ft(rng.grid(t * n, [Fr(1, 4), Fr(1, 2), Fr(3, 4), Fr(1)]), shape=shape)
    y = ft([rng.choice([0, 1]) for _ in range(t * n)], shape=shape)
    if _v(rng, cfg) < 0.4:
        return Batch((x, y, ft(rng.grid(t * n, W4), shape=shape)))
    if _v(rng, cfg) < 0.6:
        w = rng.choice(W4)
        return Batch((x, y, int(w) if w.denominator == 1 and rng.random() < 0.5 else float(w)))   # scalar weight (float or int), per update
    return Batch((x, y))


def g_ne(rng, cfg, n):
    t = cfg.get("num_tasks", 1)
    shape = (n,) if t == 1 else (t, n)
    grid = [Fr(-1), Fr(0), Fr(1, 2), Fr(2)] if cfg.get("from_logits") else [Fr(1, 8), Fr(1, 4), Fr(1, 2), Fr(3, 4), Fr(7, 8)]
    x = ft(rng.grid(t * n, grid), shape=shape)
    y = ft([rng.choice([0, 1]) for _ in range(t * n)], shape=shape)
    if _v(rng, cfg) < 0.4:
        return Batch((x, y), {"weight": ft(rng.grid(t * n, W4), shape=shape)})
    return Batch((x, y))


WORDS = ["a", "b", "c", "the", "cat", "sat"]


def _sent(rng, lo=1, hi=5):
    return " ".join(rng.choice(WORDS) for _ in range(rng.randint(lo, hi)))


def g_text(rng, cfg, n):
    return Batch(([_sent(rng) for _ in range(n)], [_sent(rng) for _ in range(n)]))


def g_bleu(rng, cfg, n):
    ng = cfg.get("n_gram", 2)
    return Batch(([_sent(rng, ng, ng + 3) for _ in range(n)], [[_sent(rng, ng, ng + 3) for _ in range(rng.randint(1, 2))] for _ in range(n)]))


def g_perplexity(rng, cfg, n):
    V, S = 3, 2
    ig = cfg.get("ignore_index")
    labels = [rng.randrange(V) for _ in range(n * S)]
    if ig is not None and not (0 <= ig < V):
        # a padding id outside the vocabulary (the usual -100): present in about a third of the positions
        labels = [ig if rng.random() < 0.3 else v for v in labels]
    return Batch((ft(rng.grid(n * S * V, [Fr(-1), Fr(0), Fr(1)]), shape=(n, S, V)), it(labels, shape=(n, S))))


def g_psnr(rng, cfg, n):
    x = ft(rng.grid(n * 4, G5), shape=(n, 2, 2))
    if _v(rng, cfg) < 0.25:
        # a stream whose target images are negative throughout (log-intensity images): the running maximum that
        # `data_range=None` keeps must be allowed to stay below zero
        return Batch((x, ft([-Fr(1, 4) - v for v in rng.grid(n * 4, G5)], shape=(n, 2, 2))))
    if rng.random() < 0.3:
        # flat target images (all-black / all-white / beyond the usual range): a constant batch still extends the
        # running min/max that `data_range=None` derives the range from
        c = rng.choice([Fr(0), Fr(1), Fr(-1, 2), Fr(3, 2)])
        return Batch((x, ft([c] * (n * 4), shape=(n, 2, 2))))
    return Batch((x, ft(rng.grid(n * 4, G5), shape=(n, 2, 2))))


def g_wasserstein(rng, cfg, n):
    x, y = ft(rng.grid(n, G8)), ft(rng.grid(n, G8))
    if _v(rng, cfg) < 0.4:
        return Batch((x, y, ft(rng.grid(n, W4)), ft(rng.grid(n, W4))))
    return Batch((x, y))


class _Emb(torch.nn.Module):
    def forward(self, x):
        return x


def _fad_preproc(w):
    return w.reshape(-1, 2)


def _fad_ctor(**kw):
    return M.FrechetAudioDistance(_fad_preproc, _Emb(), 2)


def g_fad(rng, cfg, n):
    # each "waveform" of 4 numbers becomes 2 embeddings of dim 2
    return Batch((ft(rng.grid(n * 4, G8), shape=(n, 4)), ft(rng.grid(n * 4, G8), shape=(n, 4))))


# ------------------------------------------------------------------ functional twins

def _bleu_ctor(n_gram=4, weights=None, **kw):
    """BLEUScore with the n-gram weights given as a plain list (configurations stay JSON-serialisable for replays)"""
    return M.BLEUScore(n_gram=n_gram, weights=None if weights is None else torch.tensor(weights), **kw)


def _f_bleu(cfg, b: "Batch"):
    kw = {"n_gram": cfg["n_gram"]} if "n_gram" in cfg else {}
    if cfg.get("weights") is not None:
        kw["weights"] = torch.tensor(cfg["weights"])
    kw.update(b.kwargs)
    return F.bleu_score(*b.args, **kw)


def _f(fn, *names, **fixed):
    """functional(cfg, batch): positional tensors as given, selected cfg keys as kwargs."""
    def call(cfg, b: Batch):
        kw = {k: cfg[k] for k in names if k in cfg}
        kw.update(fixed)
        kw.update(b.kwargs)
        return fn(*b.args, **kw)
    return call


def _first(fn_call):
    """functional returns (value, thresholds); the class returns the value only."""
    return lambda cfg, b: fn_call(cfg, b)[0]


def _f_cm_multi(cfg, b):
    return F.multiclass_confusion_matrix(b.args[0], b.args[1], cfg["num_classes"], normalize=cfg.get("normalize"))


THR3 = [0.0, 0.5, 1.0]
THR5 = [0.0, 0.25, 0.5, 0.75, 1.0]


def _f_retrieval(fn):
    def call(cfg, b: Batch):
        if cfg.get("num_queries", 1) != 1:
            raise NotImplementedError
        return fn(b.args[0], b.args[1], k=cfg.get("k"), limit_k_to_size=cfg.get("limit_k_to_size", False)).reshape(-1)
    return call


def _specs() -> list[Spec]:
    S = []
    binthr = [{}, {"threshold": 0.25}, {"threshold": 0.75}, {"threshold": 1.0}]
    avg4 = [{"average": a, "num_classes": 3} for a in ("micro", "macro", "weighted", None)]
    c01 = {0: 0, 1: 0}
    c012 = {0: 0, 1: 0, 2: 0}
    tasks = {0: -1, 1: -1, 2: -1, "weight": -1}
    # --- count-based classification
    S += [
        Spec("BinaryAccuracy", M.BinaryAccuracy, binthr, g_binary, cat=c01, functional=_f(F.binary_accuracy, "threshold"), model="BinaryAccuracy", family="count", count_states=("num_correct", "num_total")),
        Spec("MulticlassAccuracy", M.MulticlassAccuracy, [{}, {"num_classes": 2}, {"average": "macro", "num_classes": 3}, {"average": None, "num_classes": 3}, {"average": "micro", "k": 2, "num_classes": 3}, {"average": "macro", "num_classes": 3, "k": 2}],
             g_multiclass, cat=c01, functional=_f(F.multiclass_accuracy, "average", "num_classes", "k"), model="MulticlassAccuracy", family="count", count_states=("num_correct", "num_total")),
        Spec("MultilabelAccuracy", M.MultilabelAccuracy, [{"criteria": c} for c in ("exact_match", "hamming", "overlap", "contain", "belong")] + [{"threshold": 0.25}],
             g_multilabel, cat=c01, functional=_f(F.multilabel_accuracy, "threshold", "criteria"), model="MultilabelAccuracy", family="count", count_states=("num_correct", "num_total")),
        Spec("TopKMultilabelAccuracy", M.TopKMultilabelAccuracy, [{"k": 2, "criteria": c} for c in ("exact_match", "hamming", "overlap", "contain", "belong")] + [{"k": 3}],
             g_multilabel_distinct, cat=c01, functional=_f(F.topk_multilabel_accuracy, "criteria", "k"), model="TopKMultilabelAccuracy", family="count", count_states=("num_correct", "num_total")),
        Spec("BinaryPrecision", M.BinaryPrecision, binthr, g_binary, cat=c01, functional=_f(F.binary_precision, "threshold"), model="BinaryPrecision", family="count", count_states=("num_tp", "num_fp")),
        Spec("BinaryRecall", M.BinaryRecall, binthr, g_binary, cat=c01, functional=_f(F.binary_recall, "threshold"), model="BinaryRecall", family="count", count_states=("num_tp", "num_true_labels")),
        Spec("BinaryF1Score", M.BinaryF1Score, binthr, g_binary, cat=c01, functional=_f(F.binary_f1_score, "threshold"), model="BinaryF1Score", family="count", count_states=("num_tp", "num_label", "num_prediction")),
        Spec("MulticlassPrecision", M.MulticlassPrecision, [{}] + avg4, g_multiclass, cat=c01, functional=_f(F.multiclass_precision, "average", "num_classes"), model="MulticlassPrecision", family="count", count_states=("num_tp", "num_fp", "num_label")),
        Spec("MulticlassRecall", M.MulticlassRecall, [{}, {"average": "micro", "num_classes": 2}] + avg4, g_multiclass, cat=c01, functional=_f(F.multiclass_recall, "average", "num_classes"), model="MulticlassRecall", family="count", count_states=("num_tp", "num_labels", "num_predictions")),
        Spec("MulticlassF1Score", M.MulticlassF1Score, [{}] + avg4, g_multiclass, cat=c01, functional=_f(F.multiclass_f1_score, "average", "num_classes"), model="MulticlassF1Score", family="count", count_states=("num_tp", "num_label", "num_prediction")),
        Spec("BinaryConfusionMatrix", M.BinaryConfusionMatrix, [{}, {"threshold": 0.25}, {"normalize": "all"}, {"normalize": "pred"}, {"normalize": "true"}], g_binary, cat=c01,
             functional=_f(F.binary_confusion_matrix, "threshold", "normalize"), model="BinaryConfusionMatrix", family="count", count_states=("confusion_matrix",)),
        Spec("MulticlassConfusionMatrix", M.MulticlassConfusionMatrix, [{"num_classes": 3}, {"num_classes": 3, "normalize": "all"}, {"num_classes": 3, "normalize": "pred"}, {"num_classes": 3, "normalize": "true"}],
             g_multiclass, cat=c01, functional=_f_cm_multi, model="MulticlassConfusionMatrix", family="count", count_states=("confusion_matrix",)),
    ]
    # --- curves (cache-all)
    S += [
        Spec("BinaryAUROC", M.BinaryAUROC, [{}, {"num_tasks": 2}], g_binary_tasks_w, cat=tasks, functional=lambda cfg, b: F.binary_auroc(b.args[0], b.args[1], num_tasks=cfg.get("num_tasks", 1), weight=(b.args[2] if len(b.args) > 2 else None)), family="curve", min_samples=1),
        Spec("MulticlassAUROC", M.MulticlassAUROC, [{"num_classes": 3}, {"num_classes": 3, "average": None}], g_multiclass_logits, cat=c01, functional=_f(F.multiclass_auroc, "num_classes", "average"), family="curve"),
        Spec("BinaryAUPRC", M.BinaryAUPRC, [{}, {"num_tasks": 2}], g_binary_tasks, cat=tasks, functional=_f(F.binary_auprc, "num_tasks"), family="curve"),
        Spec("MulticlassAUPRC", M.MulticlassAUPRC, [{"num_classes": 3}, {"num_classes": 3, "average": None}], g_multiclass_logits, cat=c01, functional=_f(F.multiclass_auprc, "num_classes", "average"), family="curve"),
        Spec("MultilabelAUPRC", M.MultilabelAUPRC, [{"num_labels": 3}, {"num_labels": 3, "average": None}], g_multilabel, cat=c01, functional=_f(F.multilabel_auprc, "num_labels", "average"), family="curve"),
        Spec("BinaryPrecisionRecallCurve", M.BinaryPrecisionRecallCurve, [{}], g_binary, cat=c01, functional=_f(F.binary_precision_recall_curve), family="curve"),
        Spec("MulticlassPrecisionRecallCurve", M.MulticlassPrecisionRecallCurve, [{"num_classes": 3}], g_multiclass_logits, cat=c01, functional=_f(F.multiclass_precision_recall_curve, "num_classes"), family="curve"),
        Spec("MultilabelPrecisionRecallCurve", M.MultilabelPrecisionRecallCurve, [{"num_labels": 3}], g_multilabel, cat=c01, functional=_f(F.multilabel_precision_recall_curve, "num_labels"), family="curve"),
        Spec("BinaryRecallAtFixedPrecision", M.BinaryRecallAtFixedPrecision, [{"min_precision": p} for p in (0.0, 0.5, 1.0)], g_binary, cat=c01, functional=_f(F.binary_recall_at_fixed_precision, "min_precision"), family="curve"),
        Spec("MultilabelRecallAtFixedPrecision", M.MultilabelRecallAtFixedPrecision, [{"num_labels": 3, "min_precision": 0.5}], g_multilabel, cat=c01, functional=_f(F.multilabel_recall_at_fixed_precision, "num_labels", "min_precision"), family="curve"),
    ]
    # --- binned
    S += [
        Spec("BinaryBinnedPrecisionRecallCurve", M.BinaryBinnedPrecisionRecallCurve, [{"threshold": THR5}, {"threshold": 3}, {"threshold": [0.25, 0.5]}], g_binary, cat=c01,
             functional=_f(F.binary_binned_precision_recall_curve, "threshold"), family="binned", count_states=("num_tp", "num_fp", "num_fn")),
        Spec("MulticlassBinnedPrecisionRecallCurve", M.MulticlassBinnedPrecisionRecallCurve, [{"num_classes": 3, "threshold": THR5, "optimization": o} for o in ("vectorized", "memory")], g_multiclass_logits, cat=c01,
             functional=_f(F.multiclass_binned_precision_recall_curve, "num_classes", "threshold", "optimization"), family="binned", count_states=("num_tp", "num_fp", "num_fn")),
        Spec("MultilabelBinnedPrecisionRecallCurve", M.MultilabelBinnedPrecisionRecallCurve, [{"num_labels": 3, "threshold": 5, "optimization": o} for o in ("vectorized", "memory")], g_multilabel, cat=c01,
             functional=_f(F.multilabel_binned_precision_recall_curve, "num_labels", "threshold", "optimization"), family="binned", count_states=("num_tp", "num_fp", "num_fn")),
        Spec("BinaryBinnedAUROC", M.BinaryBinnedAUROC, [{"threshold": THR5}, {"num_tasks": 2, "threshold": 3}], g_binary_tasks, cat=tasks, functional=_f(F.binary_binned_auroc, "num_tasks", "threshold"), family="binned"),
        Spec("MulticlassBinnedAUROC", M.MulticlassBinnedAUROC, [{"num_classes": 3, "threshold": THR5}], g_multiclass_logits, cat=c01, functional=_f(F.multiclass_binned_auroc, "num_classes", "threshold", "average"), family="binned"),
        Spec("BinaryBinnedAUPRC", M.BinaryBinnedAUPRC, [{"threshold": THR5}, {"num_tasks": 2, "threshold": 3}], g_binary_tasks, cat=tasks, functional=_first(_f(F.binary_binned_auprc, "num_tasks", "threshold")), family="binned", count_states=("num_tp", "num_fp", "num_fn")),
        Spec("MulticlassBinnedAUPRC", M.MulticlassBinnedAUPRC, [{"num_classes": 3, "threshold": THR5}, {"num_classes": 3, "threshold": 3, "average": None, "optimization": "memory"}], g_multiclass_logits, cat=c01,
             functional=_first(_f(F.multiclass_binned_auprc, "num_classes", "threshold", "average", "optimization")), family="binned", count_states=("num_tp", "num_fp", "num_fn")),
        Spec("MultilabelBinnedAUPRC", M.MultilabelBinnedAUPRC, [{"num_labels": 3, "threshold": THR5}, {"num_labels": 3, "threshold": 3, "average": None, "optimization": "memory"}], g_multilabel, cat=c01,
             functional=_first(_f(F.multilabel_binned_auprc, "num_labels", "threshold", "average", "optimization")), family="binned", count_states=("num_tp", "num_fp", "num_fn")),
    ]
    # --- aggregation
    S += [
        Spec("Mean", M.Mean, [{}], g_values_w, cat={0: 0, "weight": 0}, functional=_f(F.mean), model=None, family="agg", count_states=("weighted_sum", "weights")),
        Spec("Sum", M.Sum, [{}], g_values_w, cat={0: 0, "weight": 0}, functional=_f(F.sum), model=None, family="agg", count_states=("weighted_sum",)),
        Spec("Max", M.Max, [{}], g_values, cat={0: 0}, kind="minmax", model=None, family="agg"),
        Spec("Min", M.Min, [{}], g_values, cat={0: 0}, kind="minmax", model=None, family="agg"),
        Spec("Cat", M.Cat, [{}, {"dim": 1}], g_cat, kind="ordered", cat=None, family="agg"),
        Spec("AUC", M.AUC, [{}, {"n_tasks": 2}, {"reorder": False}], g_auc, cat={0: -1, 1: -1}, functional=lambda cfg, b: F.auc(*b.args, reorder=cfg.get("reorder", True)), family="agg"),
        Spec("Covariance", M.Covariance, [{}], g_cov, cat={0: 0}, family="agg", min_samples=2, sizes=(1, 2, 3, 5), count_states=("n",)),
        Spec("Throughput", M.Throughput, [{}], g_throughput, kind="throughput", cat=None, model=None, family="agg"),
    ]
    # --- regression
    S += [
        Spec("MeanSquaredError", M.MeanSquaredError, [{}, {"multioutput": "raw_values", "_d": 2}, {"_d": 2}], g_mse, cat={0: 0, 1: 0, "sample_weight": 0},
             functional=_f(F.mean_squared_error, "multioutput"), model=None, family="reg", count_states=("sum_weight",)),
        Spec("R2Score", M.R2Score, [{}, {"multioutput": "raw_values", "_d": 2}, {"multioutput": "variance_weighted", "_d": 2}, {"num_regressors": 1}], g_regression, cat=c01,
             functional=_f(F.r2_score, "multioutput", "num_regressors"), family="reg", min_samples=3, sizes=(1, 2, 3, 4, 7), tol=1e-4, count_states=("num_obs",)),
    ]
    # --- ranking
    S += [
        Spec("HitRate", M.HitRate, [{}, {"k": 1}, {"k": 2}, {"k": 9}], g_rank, kind="ordered", cat=c01, functional=_f(F.hit_rate, "k"), family="rank", per_sample=True),
        Spec("ReciprocalRank", M.ReciprocalRank, [{}, {"k": 1}, {"k": 2}, {"k": 9}], g_rank, kind="ordered", cat=c01, functional=_f(F.reciprocal_rank, "k"), family="rank", per_sample=True),
        Spec("RetrievalPrecision", M.RetrievalPrecision, [{"k": 2}, {"k": 3, "limit_k_to_size": True}, {"k": 2, "num_queries": 2, "avg": "macro"}, {"k": None}, {"k": 2, "num_queries": 2, "empty_target_action": "pos"}],
             g_retrieval, kind="retrieval", cat=c012, family="rank", sizes=(1, 2, 3, 5), functional=_f_retrieval(F.retrieval_precision)),
        Spec("RetrievalRecall", M.RetrievalRecall, [{"k": 2}, {"k": 3, "limit_k_to_size": True}, {"k": 2, "num_queries": 2, "avg": "macro"}, {"k": None}],
             g_retrieval, kind="retrieval", cat=c012, family="rank", sizes=(1, 2, 3, 5), functional=_f_retrieval(F.retrieval_recall)),
        Spec("ClickThroughRate", M.ClickThroughRate, [{}, {"num_tasks": 2}], g_ctr, cat={0: -1, 1: -1}, functional=_f(F.click_through_rate, "num_tasks"), model=None, family="rank", count_states=("click_total", "weight_total"), scalar_expand={1: 0}),
        Spec("WeightedCalibration", M.WeightedCalibration, [{}, {"num_tasks": 2}], g_wc, cat={0: -1, 1: -1, 2: -1}, functional=_f(F.weighted_calibration, "num_tasks"), model=None, family="rank", scalar_expand={2: 0}, count_states=("weighted_target_sum",)),
    ]
    # --- text / misc
    S += [
        Spec("WordErrorRate", M.WordErrorRate, [{}], g_text, cat={}, functional=_f(F.word_error_rate), family="text", count_states=("errors", "total")),
        Spec("WordInformationLost", M.WordInformationLost, [{}], g_text, cat={}, functional=_f(F.word_information_lost), family="text", count_states=("correct_total", "target_total", "preds_total")),
        Spec("WordInformationPreserved", M.WordInformationPreserved, [{}], g_text, cat={}, functional=_f(F.word_information_preserved), family="text", count_states=("correct_total", "input_total", "target_total")),
        Spec("BLEUScore", _bleu_ctor, [{"n_gram": 2}, {"n_gram": 1}, {"n_gram": 3}, {"n_gram": 2, "weights": [1.0, 1.0]}, {"n_gram": 3, "weights": [0.5, 0.25, 0.125]}], g_bleu, cat={}, functional=_f_bleu, family="text", tol=1e-4, count_states=("input_len", "target_len", "matches_by_order", "possible_matches_by_order")),
        Spec("Perplexity", M.Perplexity, [{}, {"ignore_index": 1}, {"ignore_index": -100}], g_perplexity, cat=c01, functional=_f(F.perplexity, "ignore_index"), family="text", tol=1e-4, count_states=("num_total",)),
        Spec("BinaryNormalizedEntropy", M.BinaryNormalizedEntropy, [{}, {"num_tasks": 2}, {"from_logits": True}], g_ne, cat=tasks, functional=_f(F.binary_normalized_entropy, "num_tasks", "from_logits"), family="ne", tol=1e-4, count_states=("num_examples", "num_positive")),
        Spec("PeakSignalNoiseRatio", M.PeakSignalNoiseRatio, [{}, {"data_range": 2.0}], g_psnr, cat=c01, functional=_f(F.peak_signal_noise_ratio, "data_range"), family="image", tol=1e-4, count_states=("num_observations",)),
        Spec("Wasserstein1D", Wasserstein1D, [{}], g_wasserstein, cat={0: 0, 1: 0, 2: 0, 3: 0}, family="stat", tol=1e-4),
        Spec("FrechetAudioDistance", _fad_ctor, [{}], g_fad, cat=c01, family="audio", tol=2e-3, min_samples=2, sizes=(2, 3), count_states=("pred_n", "target_n")),
    ]
    # --- windowed
    S += [
        Spec("WindowedClickThroughRate", M.WindowedClickThroughRate, [{"max_num_updates": 3}, {"max_num_updates": 2, "num_tasks": 2}, {"max_num_updates": 3, "enable_lifetime": False}], g_ctr, kind="window", family="window", model=None, count_states=("total_updates", "click_total", "weight_total")),
        Spec("WindowedWeightedCalibration", M.WindowedWeightedCalibration, [{"max_num_updates": 3}, {"max_num_updates": 2, "num_tasks": 2}, {"max_num_updates": 3, "enable_lifetime": False}], g_wc, kind="window", family="window", model=None, count_states=("total_updates", "weighted_target_sum")),
        Spec("WindowedBinaryNormalizedEntropy", M.WindowedBinaryNormalizedEntropy, [{"max_num_updates": 3}, {"max_num_updates": 2, "num_tasks": 2}, {"max_num_updates": 3, "enable_lifetime": False}], g_ne, kind="window", family="window", tol=1e-4, count_states=("total_updates", "num_examples", "num_positive")),
        Spec("WindowedMeanSquaredError", M.WindowedMeanSquaredError, [{"max_num_updates": 3}, {"max_num_updates": 2, "enable_lifetime": False}, {"max_num_updates": 2, "num_tasks": 2, "_d": 2}], g_mse, kind="window", family="window", model=None, count_states=("total_updates", "sum_weight")),
        Spec("WindowedBinaryAUROC", M.WindowedBinaryAUROC, [{"max_num_samples": 5}, {"max_num_samples": 4, "num_tasks": 2}], g_binary_tasks_w, kind="window", family="window", sizes=(1, 2, 3, 4, 5, 7), count_states=("total_samples",)),
    ]
    return S


SPECS: list[Spec] = _specs()


def _probe_models():
    """a class is 'modelled' when the built driver knows it (asked once per process)."""
    from .common import run_driver, DRIVER
    if not DRIVER.exists():
        return
    outs = run_driver([f"prog {s.name} | o 0" for s in SPECS])
    for s, o in zip(SPECS, outs):
        s.model = None if "unknown class" in o else s.name


_probe_models()
BY_NAME = {s.name: s for s in SPECS}


def public_cfg(cfg: dict) -> dict:
    return {k: v for k, v in cfg.items() if not k.startswith("_")}


def new_metric(spec: Spec, cfg: dict):
    return spec.ctor(**public_cfg(cfg))


def fresh_cfg(cfg: dict) -> dict:
    """configs may hold per-run generator state under '_…' keys; copy before use."""
    return copy.deepcopy(cfg)


def split_batch(spec: Spec, b: Batch, sizes: list[int]) -> list[Batch] | None:
    """split a batch into consecutive sample ranges of the given sizes (None when not splittable)."""
    if spec.cat is None:
        return None
    out = []
    off = 0
    for sz in sizes:
        args = []
        for i, a in enumerate(b.args):
            if isinstance(a, torch.Tensor):
                if i not in spec.cat:
                    return None
                args.append(a.narrow(spec.cat[i], off, sz).clone())
            elif isinstance(a, list):
                args.append(a[off:off + sz])
            else:
                args.append(a)
        kwargs = {}
        for k, a in b.kwargs.items():
            if isinstance(a, torch.Tensor):
                if k not in spec.cat:
                    return None
                kwargs[k] = a.narrow(spec.cat[k], off, sz).clone()
            else:
                kwargs[k] = a
        out.append(Batch(tuple(args), kwargs))
        off += sz
    return out


def batch_len(spec: Spec, b: Batch) -> int | None:
    if spec.cat is None:
        return None
    for i, a in enumerate(b.args):
        if isinstance(a, torch.Tensor) and i in spec.cat:
            return a.shape[spec.cat[i]]
        if isinstance(a, list):
            return len(a)
    return None


def permute_batch(spec: Spec, b: Batch, perm: list[int]) -> Batch | None:
    if spec.cat is None:
        return None
    idx = torch.tensor(perm, dtype=torch.int64)
    args = []
    for i, a in enumerate(b.args):
        if isinstance(a, torch.Tensor):
            if i not in spec.cat:
                return None
            args.append(a.index_select(spec.cat[i] % a.ndim, idx))
        elif isinstance(a, list):
            args.append([a[j] for j in perm])
        else:
            args.append(a)
    kwargs = {}
    for k, a in b.kwargs.items():
        if isinstance(a, torch.Tensor):
            if k not in spec.cat:
                return None
            kwargs[k] = a.index_select(spec.cat[k] % a.ndim, idx)
        else:
            kwargs[k] = a
    return Batch(tuple(args), kwargs)


# ------------------------------------------------------------------ dtype variants

def f64_variant(b: Batch, salt: int = 1) -> Batch:
    """the same batch with every floating tensor in float64 and the FIRST one (the predictions / data) moved off the
    float32 grid by the factor (1 − salt·2^-30) — it stays inside [0,1] / keeps its sign and ties, labels and weights
    keep their exact values: metrics whose state dtype follows the data (Max, Min, PSNR, Covariance, MSE / R2 after
    shape adoption, CTR …) then hold float64 state whose VALUE is not float32-representable, so a restore / reset /
    merge that silently goes through the default dtype becomes visible in value and in dtype."""
    f = 1.0 - salt * 2.0 ** -30     # ≈ 1e-9 relative: far below float32 resolution (6e-8), far above float64 noise
    done = [False]

    def conv(a):
        if isinstance(a, torch.Tensor) and a.is_floating_point():
            a = a.to(torch.float64)
            if not done[0]:
                done[0] = True
                a = a * f
        return a
    return Batch(tuple(conv(a) for a in b.args), {k: conv(v) for k, v in b.kwargs.items()})


def fine_variant(b: Batch, salt: int = 1) -> Batch:
    """the same batch in float64 with the FIRST floating tensor (scores / data) split BELOW float32 resolution: element i is
    multiplied by (1 − j_i·2^-40), j_i ∈ {0..4} — equal float32 values become distinct float64 values (and stay inside [0, x]),
    so a path that squeezes the data through float32 changes the tie structure (rank metrics) or the value."""
    done = [False]

    def conv(a):
        if isinstance(a, torch.Tensor) and a.is_floating_point():
            a = a.to(torch.float64)
            if not done[0]:
                done[0] = True
                idx = torch.arange(a.numel(), dtype=torch.float64).reshape(a.shape)
                j = torch.remainder(idx * 3 + salt, 5)
                a = a * (1.0 - j * 2.0 ** -40)
        return a
    return Batch(tuple(conv(a) for a in b.args), {k: conv(v) for k, v in b.kwargs.items()})


def bool_label_variant(b: Batch) -> Batch | None:
    """the same batch with every INTEGER tensor whose values are all 0/1 stored as torch.bool (a common spelling of binary labels /
    multi-hot masks); None when there is no such tensor.  Counts derived from such a tensor must not inherit its dtype."""
    hit = [False]

    def conv(a):
        if isinstance(a, torch.Tensor) and a.dtype in (torch.int64, torch.int32) and a.numel() and bool(((a == 0) | (a == 1)).all()):
            hit[0] = True
            return a.to(torch.bool)
        return a
    out = Batch(tuple(conv(a) for a in b.args), {k: conv(v) for k, v in b.kwargs.items()})
    return out if hit[0] else None


def grad_variant(b: Batch) -> Batch:
    """the same batch with every floating tensor argument attached to an autograd graph: a NON-LEAF tensor that requires grad
    (x·1 of a leaf that requires grad) — what a model hands over when the caller did not detach its output.  Values are
    unchanged; a metric that keeps such a tensor in its state keeps the graph alive and cannot be deep-copied."""
    def conv(a):
        if isinstance(a, torch.Tensor) and a.is_floating_point():
            leaf = a.detach().clone().requires_grad_(True)
            return leaf * 1.0
        return a
    return Batch(tuple(conv(a) for a in b.args), {k: conv(v) for k, v in b.kwargs.items()})


def finding_class(spec: Spec, cfg: dict) -> str:
    """configuration class that is part of a violation signature, so that a recorded finding covers exactly the
    configurations it was established for (a different configuration of the same class is still reported)."""
    if spec.name == "RetrievalPrecision":
        return f"|empty_target_action={cfg.get('empty_target_action', 'neg')}"
    if spec.name == "RetrievalRecall":
        return "|k=None" if cfg.get("k") is None else "|k=int"
    return ""
