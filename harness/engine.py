"""Running operation programs on real torcheval objects and comparing observations."""
from __future__ import annotations
import copy, math, pickle
import torch
from .common import err_kind, flat_out, Rng
from .registry import Spec, Batch, new_metric, fresh_cfg, cat_batches


def observe(m):
    """compute() canonicalised: ('ok', [tensor,…]) | ('err', kind, msg)."""
    if type(m).__name__ == "FrechetAudioDistance" and (m.pred_n < 2 or m.target_n < 2):
        # known finding C14|gaussian_frechet_distance|non-finite-covariance: torch.linalg.eigvals on a
        # NaN matrix kills the interpreter in this build; never run it in-process.
        return ("err", "WouldCrash", "compute() with fewer than 2 embeddings feeds NaN to torch.linalg.eigvals")
    try:
        r = m.compute()
    except Exception as e:  # noqa: BLE001
        return ("err", err_kind(e), repr(e)[:160])
    try:
        return ("ok", [t.detach().clone() for t in flat_out(r)])
    except TypeError as e:
        return ("err", "Unflattenable", repr(e))


def obs_json(o):
    if o[0] == "ok":
        return {"ok": [{"shape": list(t.shape), "data": t.tolist()} for t in o[1]]}
    return {"err": o[1], "msg": o[2] if len(o) > 2 else ""}


def tensors_close(a: torch.Tensor, b: torch.Tensor, tol: float, shape=True) -> bool:
    if shape and a.shape != b.shape:
        return False
    if a.numel() != b.numel():
        return False
    if a.numel() == 0:
        return True
    x, y = a.reshape(-1).to(torch.float64), b.reshape(-1).to(torch.float64)
    nx, ny = torch.isnan(x), torch.isnan(y)
    if not torch.equal(nx, ny):
        return False
    x, y = x[~nx], y[~ny]
    fin = torch.isfinite(x) & torch.isfinite(y)
    if not torch.equal(x[~fin], y[~fin]):
        return False
    x, y = x[fin], y[fin]
    if x.numel() == 0:
        return True
    return bool((torch.abs(x - y) <= tol * torch.clamp(torch.abs(y), min=1.0)).all())


def same_obs(a, b, tol=1e-5, shape=True) -> bool:
    if a[0] != b[0]:
        return False
    if a[0] == "err":
        return True   # both raised (kinds are compared by the callers that care)
    if len(a[1]) != len(b[1]):
        return False
    return all(tensors_close(x, y, tol, shape) for x, y in zip(a[1], b[1]))


def snapshot(m):
    """bitwise-comparable picture of everything `state_dict()` shows."""
    sd = m.state_dict()
    out = {}
    for k, v in sd.items():
        if isinstance(v, torch.Tensor):
            out[k] = ("t", v.dtype, tuple(v.shape), v.reshape(-1).tolist())
        elif isinstance(v, list):
            out[k] = ("l", [(x.dtype, tuple(x.shape), x.reshape(-1).tolist()) for x in v])
        elif isinstance(v, dict):
            out[k] = ("d", sorted((str(kk), x.dtype, tuple(x.shape), x.reshape(-1).tolist()) for kk, x in v.items()))
        else:
            out[k] = ("n", v)
    return out


def snap_equal(a, b) -> bool:
    def norm(x):
        return repr(x).replace("nan", "NaN")
    return norm(a) == norm(b)


def try_update(m, b: Batch):
    try:
        b.apply(m)
        return None
    except Exception as e:  # noqa: BLE001
        return (err_kind(e), repr(e)[:160])


def try_merge(m, others):
    """merge_state(metrics: Iterable[Metric]): for about half of the (class, number of sources) combinations the sources are handed
    over as a ONE-SHOT iterable (a generator) instead of a list — an implementation that walks `metrics` twice silently loses them.
    The choice is a function of the class name and the number of sources, so a replay makes the same choice."""
    try:
        others = list(others)
        if (len(others) + len(type(m).__name__)) % 2 == 0:
            m.merge_state(o for o in others)
        else:
            m.merge_state(others)
        return None
    except Exception as e:  # noqa: BLE001
        return (err_kind(e), repr(e)[:160])


def gen_stream(spec: Spec, cfg: dict, rng: Rng, nbatches: int):
    return [spec.gen(rng, cfg, rng.choice(spec.sizes)) for _ in range(nbatches)]


def fed(spec: Spec, cfg: dict, batches):
    m = new_metric(spec, cfg)
    for b in batches:
        b.apply(m)
    return m
