"""fakedist — an in-process simulated `torch.distributed` transport.

One thread per simulated rank (thread-local rank); the module functions of
`torch.distributed` that torcheval's synclib/toolkit call are replaced, for the
duration of `World.run`, by a rendezvous exchange.  The REAL `synclib.send_tensors`,
`synclib.sync_states`, `toolkit.sync_and_compute`, `get_synced_metric`,
`get_synced_state_dict` and the `*_collection` forms then run unchanged for k ranks.

What the transport does that gloo does not (this is the point of it):
  * records, per rank, the sequence of collectives `(kind, dtype, shape, root, group)`;
  * raises `CollectiveMismatch` on every participating rank when
      - the members of a group are at different collectives (or in different groups),
      - an `all_gather`/`gather` carries different dtype/shape on different ranks,
      - a member returned (or died) while the others wait for it,
      - `gather(dst=…)` / `gather_object(dst=…)` / `broadcast_object_list(src=…)` name a rank that,
        read as a GLOBAL rank (as torch reads it), is not in the group, or is not the member
        that prepared the receive buffer / holds the payload (= the member the caller meant);
    real gloo turns each of these into a hang, a process abort (SIGABRT), a `ValueError`
    raised before the collective, or — for a misaddressed broadcast — `[None]` delivered to everyone;
  * never hangs: a rendezvous that does not complete within `timeout` raises `TransportTimeout`.
Roots keep torch's semantics: `dst=` / `src=` are GLOBAL ranks; `get_global_rank(group, r)` / `get_group_rank` /
`get_process_group_ranks` translate for the sentinel groups (synclib's `_to_global_rank` relies on the first).
Like gloo, the transport refuses tensor dtypes gloo does not carry (`RuntimeError: Invalid scalar type`, e.g. int16).
Sub-groups are sentinel `Group` objects (member list of global ranks, in group-rank order).
Optional seeded arrival jitter shuffles the order in which ranks reach each rendezvous.
"""
from __future__ import annotations
import contextlib, copy, pickle, random, threading, time
import torch
import torch.distributed as dist



class CollectiveMismatch(RuntimeError):
    def __init__(self, kind: str, detail: str = ""):
        super().__init__(f"{kind}: {detail}")
        self.kind, self.detail = kind, detail


class TransportTimeout(RuntimeError):
    pass


class Group:
    """sentinel process group: global ranks of the members in group-rank order."""

    def __init__(self, members):
        self.members = tuple(members)

    def __repr__(self):
        return f"Group{list(self.members)}"


class _Call:
    __slots__ = ("kind", "dtype", "shape", "root", "payload", "out", "has_out")

    def __init__(self, kind, dtype=None, shape=None, root=None, payload=None, out=None, has_out=False):
        self.kind, self.dtype, self.shape, self.root = kind, dtype, shape, root
        self.payload, self.out, self.has_out = payload, out, has_out

    def sig(self):
        return (self.kind, self.dtype, self.shape, self.root)


class Outcome:
    """what one simulated rank did: ('ok', value) or ('err', exception)."""

    def __init__(self, status, value):
        self.status, self.value = status, value

    @property
    def ok(self):
        return self.status == "ok"

    def __repr__(self):
        return f"Outcome({self.status}, {self.value!r})"


_tls = threading.local()
_PATCH_LOCK = threading.Lock()
_PATCHED = ["is_available", "is_initialized", "get_world_size", "get_rank", "get_backend", "all_gather", "gather",
            "all_gather_object", "gather_object", "broadcast_object_list", "barrier", "get_global_rank",
            "get_group_rank", "get_process_group_ranks"]


def _dt(t: torch.dtype) -> str:
    return str(t).replace("torch.", "")


# what ProcessGroupGloo carries (checked against real gloo: harness/props/c15.py transport_selftest + thorough tier)
GLOO_DTYPES = {torch.float16, torch.bfloat16, torch.float32, torch.float64, torch.uint8, torch.int8, torch.int32, torch.int64,
               torch.bool}


class World:
    def __init__(self, size: int, *, initialized: bool = True, backend: str = "gloo", timeout: float = 10.0,
                 jitter_seed: int | None = None, jitter_max: float = 0.002):
        self.size, self.initialized, self.backend, self.timeout = size, initialized, backend, timeout
        self.jitter_seed, self.jitter_max = jitter_seed, jitter_max
        self.cv = threading.Condition()
        self.trace: list[list[tuple]] = [[] for _ in range(size)]
        self.arrival_order: list[tuple] = []       # (round key, rank) in the order ranks reached the transport
        self._pending: dict[tuple, dict[int, _Call]] = {}   # group key -> {global rank: call}
        self._done: dict[tuple, dict] = {}                  # (group key, generation) -> {rank: result | exception}
        self._gen: dict[tuple, int] = {}
        self._waiting_in: dict[int, tuple] = {}             # rank -> group key it is blocked in
        self._departed: set[int] = set()
        self._absent: set[int] = set()
        self._rng: dict[int, random.Random] = {}

    # ------------------------------------------------------------------ groups
    def new_group(self, members) -> Group:
        ms = list(members)
        assert all(0 <= m < self.size for m in ms) and len(set(ms)) == len(ms)
        return Group(ms)

    def _members(self, group) -> tuple:
        if group is None:
            return tuple(range(self.size))
        if isinstance(group, Group):
            return group.members
        raise TypeError(f"fakedist: unknown process group object {group!r}")

    # ------------------------------------------------------------------ rank bookkeeping
    def _rank(self) -> int:
        r = getattr(_tls, "rank", None)
        if r is None or getattr(_tls, "world", None) is not self:
            raise RuntimeError("fakedist: torch.distributed used outside a simulated rank")
        return r

    # ------------------------------------------------------------------ the rendezvous
    def _exchange(self, group, call: _Call):
        me = self._rank()
        members = self._members(group)
        if me not in members:
            # torch: a non-member's collective on a group is a warning + no-op
            return None
        self.trace[me].append((call.kind, call.dtype, call.shape, call.root, members))
        if self.jitter_seed is not None:
            rng = self._rng.setdefault(me, random.Random(self.jitter_seed * 7919 + me))
            time.sleep(rng.random() * self.jitter_max)
        deadline = time.monotonic() + self.timeout
        with self.cv:
            pend = self._pending.setdefault(members, {})
            gen = self._gen.setdefault(members, 0)
            pend[me] = call
            self.arrival_order.append(((members, gen), me))
            self._waiting_in[me] = members
            if len(pend) == len(members):
                res = self._complete(members, pend)
                self._done[(members, gen)] = res
                self._pending[members] = {}
                self._gen[members] = gen + 1
                for m in members:
                    self._waiting_in.pop(m, None)
                self.cv.notify_all()
            else:
                while (members, gen) not in self._done:
                    bad = self._stuck_reason(me, members)
                    if bad is not None:
                        # fail the whole round: everybody who is (or will be) waiting in it gets the same error
                        exc = CollectiveMismatch(*bad)
                        self._done[(members, gen)] = {m: exc for m in members}
                        self._pending[members] = {}
                        self._gen[members] = gen + 1
                        for m in members:
                            if self._waiting_in.get(m) == members:
                                self._waiting_in.pop(m, None)
                        self.cv.notify_all()
                        break
                    left = deadline - time.monotonic()
                    if left <= 0:
                        self._waiting_in.pop(me, None)
                        pend.pop(me, None)
                        raise TransportTimeout(f"rank {me}: {call.kind} on {list(members)} did not complete in {self.timeout}s "
                                               f"(arrived: {sorted(pend)})")
                    self.cv.wait(min(left, 0.05))
            out = self._done[(members, gen)][me]
        if isinstance(out, BaseException):
            raise out
        return out

    def _stuck_reason(self, me, members):
        for m in members:
            if m == me:
                continue
            if m in self._departed:
                return ("peer-finished", f"rank {m} returned while rank {me} waits in a collective on {list(members)}")
            if m in self._absent:
                return ("peer-absent", f"rank {m} does not take part in this run but rank {me} waits for it on {list(members)}")
            w = self._waiting_in.get(m)
            if w is not None and w != members:
                return ("different-groups", f"rank {m} waits on {list(w)} while rank {me} waits on {list(members)}")
        return None

    def _complete(self, members, pend: dict[int, _Call]) -> dict:
        """all members arrived: validate + compute every member's result (or the common exception)."""
        calls = [pend[m] for m in members]
        c0 = calls[0]

        def fail(kind, detail):
            e = CollectiveMismatch(kind, detail)
            return {m: e for m in members}

        kinds = {c.kind for c in calls}
        if len(kinds) > 1:
            return fail("different-collectives", "; ".join(f"rank {m}: {c.sig()}" for m, c in zip(members, calls)))
        kind = c0.kind
        if kind in ("all_gather", "gather"):
            sigs = {(c.dtype, c.shape) for c in calls}
            if len(sigs) > 1:
                return fail("dtype-shape-differs", "; ".join(f"rank {m}: {c.dtype}{list(c.shape)}" for m, c in zip(members, calls)))
        if kind in ("gather", "gather_object", "broadcast_object_list"):
            roots = {c.root for c in calls}
            if len(roots) > 1:
                return fail("root-differs", f"{kind}: ranks name different roots {sorted(roots)}")
            root = c0.root
            if root not in members:
                return fail("root-not-in-group", f"{kind}: root {root} (a global rank for torch) is not a member of {list(members)}")
        if kind == "all_gather":
            data = [c.payload for c in calls]
            return {m: [d.clone() for d in data] for m in members}
        if kind == "all_gather_object":
            blobs = [pickle.dumps(c.payload) for c in calls]
            return {m: [pickle.loads(b) for b in blobs] for m in members}
        if kind in ("gather", "gather_object"):
            root = c0.root
            wrong = [m for m, c in zip(members, calls) if c.has_out != (m == root)]
            if wrong:
                meant = [m for m, c in zip(members, calls) if c.has_out]
                return fail("root-is-not-the-member-meant",
                            f"{kind}(dst={root}): torch reads dst as GLOBAL rank {root} (group rank {members.index(root)}), "
                            f"but the receive list was prepared by global rank(s) {meant}")
            if kind == "gather":
                return {m: ([c.payload.clone() for c in calls] if m == root else None) for m in members}
            blobs = [pickle.dumps(c.payload) for c in calls]
            return {m: ([pickle.loads(b) for b in blobs] if m == root else None) for m in members}
        if kind == "broadcast_object_list":
            root = c0.root
            src_call = pend[root]
            holders = [m for m, c in zip(members, calls) if any(o is not None for o in c.payload)]
            if holders and root not in holders:
                return fail("root-is-not-the-member-meant",
                            f"broadcast_object_list(src={root}): torch reads src as GLOBAL rank {root}, whose list is all None; "
                            f"the payload is held by global rank(s) {holders}")
            blob = pickle.dumps(list(src_call.payload))
            return {m: pickle.loads(blob) for m in members}
        if kind == "barrier":
            return {m: None for m in members}
        return fail("unknown-collective", kind)

    # ------------------------------------------------------------------ torch.distributed surface
    def is_available(self):
        return True

    def is_initialized(self):
        return self.initialized and getattr(_tls, "world", None) is self

    def get_world_size(self, group=None):
        ms = self._members(group)
        return len(ms) if self._rank() in ms else -1

    def get_rank(self, group=None):
        ms = self._members(group)
        me = self._rank()
        return ms.index(me) if me in ms else -1

    def get_backend(self, group=None):
        return self.backend

    def get_global_rank(self, group, group_rank):
        return self._members(group)[group_rank]

    def get_group_rank(self, group, global_rank):
        ms = self._members(group)
        if global_rank not in ms:
            raise ValueError(f"Global rank {global_rank} is not part of group {group}")
        return ms.index(global_rank)

    def get_process_group_ranks(self, group):
        return list(self._members(group))

    def _check_dtype(self, tensor):
        if self.backend == "gloo" and tensor.dtype not in GLOO_DTYPES:
            raise RuntimeError("Invalid scalar type")

    def all_gather(self, tensor_list, tensor, group=None, async_op=False):
        ms = self._members(group)
        if len(tensor_list) != len(ms):
            raise RuntimeError(f"all_gather: output list has {len(tensor_list)} tensors for a group of {len(ms)}")
        for o in tensor_list:
            if o.dtype != tensor.dtype or tuple(o.shape) != tuple(tensor.shape):
                raise RuntimeError("all_gather: output tensor does not match the input tensor's dtype/size")
        self._check_dtype(tensor)
        res = self._exchange(group, _Call("all_gather", _dt(tensor.dtype), tuple(tensor.shape), None, tensor.detach().clone()))
        if res is not None:
            for o, d in zip(tensor_list, res):
                o.copy_(d)

    def gather(self, tensor, gather_list=None, dst=None, group=None, async_op=False, group_dst=None):
        ms = self._members(group)
        if not gather_list:
            gather_list = None
        if dst is None and group_dst is None:
            dst = 0
        if group_dst is not None:
            dst = ms[group_dst]
        if gather_list is not None:
            if len(gather_list) != len(ms):
                raise RuntimeError(f"gather: gather_list has {len(gather_list)} tensors for a group of {len(ms)}")
            for o in gather_list:
                if o.dtype != tensor.dtype:
                    raise ValueError("gather: gather_list dtype differs from tensor dtype")
        self._check_dtype(tensor)
        res = self._exchange(group, _Call("gather", _dt(tensor.dtype), tuple(tensor.shape), dst, tensor.detach().clone(),
                                          has_out=gather_list is not None))
        if res is not None and gather_list is not None:
            for o, d in zip(gather_list, res):
                o.copy_(d)

    def all_gather_object(self, object_list, obj, group=None, weights_only=False):
        ms = self._members(group)
        res = self._exchange(group, _Call("all_gather_object", None, None, None, obj))
        if res is not None:
            if len(object_list) != len(ms):
                raise RuntimeError(f"all_gather_object: object_list has {len(object_list)} slots for a group of {len(ms)}")
            for i, o in enumerate(res):
                object_list[i] = o

    def gather_object(self, obj, object_gather_list=None, dst=None, group=None, group_dst=None, weights_only=False):
        ms = self._members(group)
        if not object_gather_list:
            object_gather_list = None
        if dst is None and group_dst is None:
            dst = 0
        if group_dst is not None:
            dst = ms[group_dst]
        res = self._exchange(group, _Call("gather_object", None, None, dst, obj, has_out=object_gather_list is not None))
        if res is not None and object_gather_list is not None:
            for i, o in enumerate(res):
                object_gather_list[i] = o

    def broadcast_object_list(self, object_list, src=None, group=None, device=None, group_src=None, weights_only=False):
        ms = self._members(group)
        if src is None and group_src is None:
            src = 0
        if group_src is not None:
            src = ms[group_src]
        res = self._exchange(group, _Call("broadcast_object_list", None, None, src, list(object_list)))
        if res is not None:
            for i, o in enumerate(res):
                object_list[i] = o

    def barrier(self, group=None, async_op=False, device_ids=None):
        self._exchange(group, _Call("barrier"))

    # ------------------------------------------------------------------ running k ranks
    @contextlib.contextmanager
    def patched(self):
        """replace the torch.distributed entry points by this world's (one world at a time per process)."""
        with _PATCH_LOCK:
            saved = {n: getattr(dist, n, None) for n in _PATCHED}
            try:
                for n in _PATCHED:
                    setattr(dist, n, getattr(self, n))
                yield self
            finally:
                for n, f in saved.items():
                    if f is None:
                        if hasattr(dist, n):
                            delattr(dist, n)
                    else:
                        setattr(dist, n, f)

    def run(self, fn, ranks=None) -> list[Outcome | None]:
        """run `fn(rank)` on one thread per rank in `ranks` (default: all); returns the outcome per global rank
        (None for ranks that did not take part)."""
        ranks = list(range(self.size)) if ranks is None else list(ranks)
        outs: list[Outcome | None] = [None] * self.size

        def body(r):
            _tls.rank, _tls.world = r, self
            try:
                outs[r] = Outcome("ok", fn(r))
            except BaseException as e:  # noqa: BLE001
                outs[r] = Outcome("err", e)
            finally:
                with self.cv:
                    self._departed.add(r)
                    self.cv.notify_all()
                _tls.rank = _tls.world = None

        with self.patched():
            with self.cv:
                # ranks that do not take part are, for the ones that do, processes that never call the collective
                self._absent = set(range(self.size)) - set(ranks)
            ths = [threading.Thread(target=body, args=(r,), daemon=True) for r in ranks]
            order = list(ths)
            if self.jitter_seed is not None:
                random.Random(self.jitter_seed).shuffle(order)
            for t in order:
                t.start()
            for t in ths:
                t.join(self.timeout * 4 + 5)
            for r, t in zip(ranks, ths):
                if t.is_alive():
                    outs[r] = Outcome("err", TransportTimeout(f"rank {r} still running after {self.timeout * 4 + 5}s"))
        return outs


def fmt_trace(tr) -> str:
    """canonical text of one rank's collective trace, same syntax as the Lean model's:
    ag/<dtype>/<shape> | g/<dtype>/<shape>/<dst> | ago | go/<dst> | bo/<src>, comma separated."""
    out = []
    for kind, dtype, shape, root, _members in tr:
        sh = "x".join(str(d) for d in shape) if shape is not None else ""
        if kind == "all_gather":
            out.append(f"ag/{dtype}/{sh}")
        elif kind == "gather":
            out.append(f"g/{dtype}/{sh}/{root}")
        elif kind == "all_gather_object":
            out.append("ago")
        elif kind == "gather_object":
            out.append(f"go/{root}")
        elif kind == "broadcast_object_list":
            out.append(f"bo/{root}")
        else:
            out.append(kind)
    return ",".join(out)


# =============================================================================== canonical text of values
# Shared by harness/props/c15.py, c02.py, the gloo children and the Lean model (TE/Driver/Sync.lean):
#   tensor      <dtype>@<d0xd1…>@<q,q,…>           state  T<tensor> | L(<t>;…) | D(<key>~<t>;…) | I<int> | F<q>
#   collection  <metric>.<state>!<state>&…  ('-' when empty)
from fractions import Fraction as _Fr

DTYPES = {"float16": torch.float16, "bfloat16": torch.bfloat16, "float32": torch.float32, "float64": torch.float64,
          "uint8": torch.uint8, "int8": torch.int8, "int16": torch.int16, "int32": torch.int32, "int64": torch.int64,
          "bool": torch.bool}


def _fq(x) -> str:
    if isinstance(x, float) and (x != x or x in (float("inf"), float("-inf"))):
        return "nan" if x != x else ("inf" if x > 0 else "-inf")
    f = _Fr(x)
    return str(f.numerator) if f.denominator == 1 else f"{f.numerator}/{f.denominator}"


def enc_t(t: torch.Tensor) -> str:
    flat = t.detach().reshape(-1)
    if t.dtype == torch.bool:
        vals = [int(v) for v in flat.tolist()]
    elif t.dtype.is_floating_point:
        vals = flat.to(torch.float64).tolist()
    else:
        vals = flat.tolist()
    return f"{_dt(t.dtype)}@{'x'.join(str(d) for d in t.shape)}@{','.join(_fq(v) for v in vals)}"


def dec_t(s: str) -> torch.Tensor:
    dt, sh, da = s.split("@")
    shape = [int(d) for d in sh.split("x")] if sh else []
    vals = [float(_Fr(x)) for x in da.split(",")] if da else []
    return torch.tensor(vals, dtype=torch.float64).to(DTYPES[dt]).reshape(shape)


def enc_state(v) -> str:
    if isinstance(v, torch.Tensor):
        return "T" + enc_t(v)
    if isinstance(v, list):
        return "L(" + ";".join(enc_t(x) for x in v) + ")"
    if isinstance(v, dict):
        return "D(" + ";".join(f"{k}~{enc_t(v[k])}" for k in v) + ")"
    if isinstance(v, bool):
        raise TypeError("bool state")
    if isinstance(v, int):
        return f"I{v}"
    if isinstance(v, float):
        return "F" + _fq(v)
    return f"?{type(v).__name__}"


def dec_state(s: str):
    if s[0] == "T":
        return dec_t(s[1:])
    if s[0] == "L":
        body = s[2:-1]
        return [dec_t(x) for x in body.split(";")] if body else []
    if s[0] == "D":
        body = s[2:-1]
        return {e.split("~")[0]: dec_t(e.split("~")[1]) for e in body.split(";")} if body else {}
    if s[0] == "I":
        return int(s[1:])
    if s[0] == "F":
        return float(_Fr(s[1:]))
    raise ValueError(s)


def enc_collection(c: dict, sort=False) -> str:
    """{metric: {state: value}} -> text; `sort`: canonical order (sorted names, dict states sorted by key)."""
    out = []
    for m in (sorted(c) if sort else c):
        for s in (sorted(c[m]) if sort else c[m]):
            v = c[m][s]
            if sort and isinstance(v, dict):
                v = {k: v[k] for k in sorted(v)}
            out.append(f"{m}.{s}!{enc_state(v)}")
    return "&".join(out) if out else "-"


def dec_collection(s: str) -> dict:
    out: dict = {}
    if s == "-":
        return out
    for e in s.split("&"):
        name, st = e.split("!")
        m, sn = name.split(".")
        out.setdefault(m, {})[sn] = dec_state(st)
    return out


def render_send(v) -> str:
    """send_tensors result in the model's syntax."""
    if v is None:
        return "none"
    return "[" + ";".join(enc_t(t) for t in v) + "]"


def render_sync(v) -> str:
    """sync_states result in the model's syntax (rows in traversal order; dict states in stored order)."""
    if v is None:
        return "none"
    return "[" + "|".join(enc_collection(row, sort=False) if _is_sorted(row) else enc_collection(_sorted_rows(row)) for row in v) + "]"


def _sorted_rows(row: dict) -> dict:
    return {m: {s: row[m][s] for s in sorted(row[m])} for m in sorted(row)}


def _is_sorted(row: dict) -> bool:
    return list(row) == sorted(row) and all(list(row[m]) == sorted(row[m]) for m in row)


def render_compute(v) -> str:
    """a compute() result / state_dict / dict of those, as text that is equal iff the values are bitwise equal."""
    if isinstance(v, torch.Tensor):
        return enc_t(v)
    if isinstance(v, dict):
        return "{" + ",".join(f"{k}:{render_compute(v[k])}" for k in v) + "}"
    if isinstance(v, (list, tuple)):
        return "(" + ",".join(render_compute(x) for x in v) + ")"
    if isinstance(v, float):
        return "F" + (_fq(v) if v == v and abs(v) != float("inf") else repr(v))
    if isinstance(v, int):
        return f"I{v}"
    if hasattr(v, "state_dict"):
        return "M" + render_compute(v.state_dict())
    return repr(v)


def world_status(outs) -> str:
    """one word for what happened to a simulated world: ok | crashed-<Exception> | <mismatch kind> | timeout."""
    errs = [o.value for o in outs if o is not None and not o.ok]
    if not errs:
        return "ok"
    for e in errs:
        if not isinstance(e, (CollectiveMismatch, TransportTimeout)):
            return "crashed-" + type(e).__name__
    for e in errs:
        if isinstance(e, CollectiveMismatch) and e.kind != "peer-finished":
            return e.kind
    for e in errs:
        if isinstance(e, CollectiveMismatch):
            return e.kind
    return "timeout"
